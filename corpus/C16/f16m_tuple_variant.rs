#[map(D)] enum E { V(#[parent([parent(x)] inner, y)] P, i32), W }
