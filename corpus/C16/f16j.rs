#[owned_into(i32)] enum E { #[pattern(_)] #[ghost({5})] V, W }
