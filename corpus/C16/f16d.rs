#[owned_into(Car)] #[ghosts(vehicle@x: {1})] struct S { a: i32 }
