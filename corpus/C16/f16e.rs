#[owned_into(D)] #[child_parents(v: V as Unit)] struct S { #[child(v)] a: i32 }
