#[map(D)] struct S { #[from] a: i32 }
