#[owned_into(D)] #[child_parents(a: A as {})] struct S(#[child(a)] i32);
