#[from_owned(D)] #[ghosts(0: {1})] enum E { A }
