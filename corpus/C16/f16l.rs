#[map(D)] enum E { #[o2o(as_type(i32))] V }
