#[into(D)] struct S { #[parent([map(~+1)] 0)] p: P }
