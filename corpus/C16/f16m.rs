#[from_owned(D)] enum E { V { #[parent([parent(x)] inner)] p: P }, W }
