#[owned_into(i32)] enum E { #[literal(1)] #[pattern(2)] A, B }
