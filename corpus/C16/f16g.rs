#[try_into(D as {}, E)] struct T(#[into(x)] #[try_into(~+1)] i32);
