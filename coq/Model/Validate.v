(* L5: validate.rs.  Messages are collected in code order (duplicates kept); the code stores them
   in a map keyed by text and (since the F-19a fix) emits them sorted. *)
From Coq Require Import List String Ascii Bool Arith.
From O2o.Model Require Import Tok Syn Attr Ast Lookup.
From O2o.Gen Require Import Tables.
Import ListNotations.
Open Scope string_scope.
Open Scope list_scope.

Definition postfix (own : bool) : string :=
  if own then "" else " To turn this message off, use #[o2o(allow_unknown)]".

Definition validate_error_instrs (is_enum : bool) (d : dt_attrs) : res (list string) :=
  mapM (fun e =>
    match e with
    | DMisnamed instr guess own =>
        if is_enum && String.eqb instr "child"
        then Ok ("Member instruction '" ^^ instr ^^ "' is not applicable to enums." ^^ postfix own)
        else Ok ("Perhaps you meant '" ^^ guess ^^ "'?" ^^ postfix own)
    | DMisplaced instr own =>
        if is_enum && (String.eqb instr "parent" || String.eqb instr "as_type")
        then Ok ("Member instruction '" ^^ instr ^^ "' is not applicable to enums." ^^ postfix own)
        else Ok ("Member instruction '" ^^ instr ^^ "' should be used on a member." ^^ postfix own)
    | DUnrecErr instr => Ok ("Struct instruction '" ^^ instr ^^ "' is not supported.")
    | _ => Panic "13"
    end) (d_errs d).

Definition validate_member_error_instrs (is_enum : bool) (m : member_attrs) : res (list string) :=
  mapM (fun e =>
    match e with
    | MMisnamed instr guess own =>
        if is_enum && String.eqb instr "children"
        then Ok ("Struct instruction '" ^^ instr ^^ "' is not applicable to enums." ^^ postfix own)
        else Ok ("Perhaps you meant '" ^^ guess ^^ "'?" ^^ postfix own)
    | MMisplaced instr own => Ok ("Struct instruction '" ^^ instr ^^ "' should be used on a struct." ^^ postfix own)
    | MUnrecErr instr => Ok ("Member instruction '" ^^ instr ^^ "' is not supported.")
    | _ => Panic "14"
    end) (m_errs m).

Definition tp_in (t : type_path) (l : list type_path) : bool := existsb (tp_eqb t) l.

(* validate_struct_attrs for one (kind, fallible) *)
Fixpoint validate_struct_attrs_aux (attrs : list trait_core) (fallible : bool) (seen : list type_path) : list string :=
  match attrs with
  | [] => []
  | a :: r =>
      (if tp_in (tc_ty a) seen then ["Ident here must be unique."] else []) ++
      (if fallible && negb (is_some (tc_err a)) then ["Error type should be specified for fallible instruction."] else []) ++
      (if negb fallible && is_some (tc_err a) then ["Error type should not be specified for infallible instruction."] else []) ++
      validate_struct_attrs_aux r fallible (tc_ty a :: seen)
  end.
Definition validate_struct_attrs (d : dt_attrs) (k : kind) (fallible : bool) : list string :=
  validate_struct_attrs_aux (map ta_core (iter_for_kind d k fallible)) fallible [].

Definition count {A} (p : A -> bool) (l : list A) : nat := List.length (filter p l).

Definition unknown_type_msg (tp : type_path) : string :=
  "Type '" ^^ tp_str tp ^^ "' doesn't match any type specified in trait instructions.".

(* the shared "dedicated attrs" loop: unknown type, duplicate dedicated *)
Fixpoint dedicated_loop {A} (ty_of : A -> option type_path) (dup_name : option string) (type_paths : list type_path)
  (l : list A) (seen : list type_path) : list string :=
  match l with
  | [] => []
  | x :: r =>
      match ty_of x with
      | Some tp =>
          (if negb (tp_in tp type_paths) then [unknown_type_msg tp] else []) ++
          (match dup_name with
           | Some n => if tp_in tp seen
                       then ["Dedicated #[" ^^ n ^^ "(...)] instruction for type " ^^ tp_str tp ^^ " is already defined."]
                       else []
           | None => []
           end) ++
          dedicated_loop ty_of dup_name type_paths r (tp :: seen)
      | None => dedicated_loop ty_of dup_name type_paths r seen
      end
  end.

Definition validate_ghost_attrs (k : kind) (gs : list ghosts_attr) (type_paths : list type_path) : list string :=
  (if Nat.ltb 1 (count (fun x => appl_get (ga_appl x) k && ty_none (sg_ty (ga_core x))) gs)
   then ["There can be at most one default #[ghosts(...)] instruction."] else []) ++
  dedicated_loop (fun x => sg_ty (ga_core x)) (Some "ghosts") type_paths
    (filter (fun x => appl_get (ga_appl x) k && is_some (sg_ty (ga_core x))) gs) [].

Fixpoint dup_child_data (l : list child_parent_data) (seen : list string) : list string :=
  match l with
  | [] => []
  | c :: r => (if str_in (cd_str c) seen then ["Ident here must be unique."] else []) ++
              dup_child_data r (cd_str c :: seen)
  end.

(* validate_child_parents_attrs interleaves the dedicated checks and the per-attr uniqueness check *)
Fixpoint validate_child_parents_loop (l : list child_parents_attr) (type_paths seen : list type_path) : list string :=
  match l with
  | [] => []
  | x :: r =>
      let '(msgs, seen') :=
        match ca_ty x with
        | Some tp =>
            ((if negb (tp_in tp type_paths) then [unknown_type_msg tp] else []) ++
             (if tp_in tp seen
              then ["Dedicated #[child_parents(...)] instruction for type " ^^ tp_str tp ^^ " is already defined."] else []),
             tp :: seen)
        | None => ([], seen)
        end in
      msgs ++ dup_child_data (ca_data x) [] ++ validate_child_parents_loop r type_paths seen'
  end.
Definition validate_child_parents_attrs (l : list child_parents_attr) (type_paths : list type_path) : list string :=
  (if Nat.ltb 1 (count (fun x => ty_none (ca_ty x)) l)
   then ["There can be at most one default #[child_parents(...)] instruction."] else []) ++
  validate_child_parents_loop l type_paths [].

Definition validate_where_attrs (l : list where_attr) (type_paths : list type_path) : list string :=
  (if Nat.ltb 1 (count (fun x => ty_none (wa_ty x)) l)
   then ["There can be at most one default #[where_clause(...)] instruction."] else []) ++
  dedicated_loop wa_ty (Some "where_clause") type_paths l [].

Definition bark_at_member_attr {A} (l : list A) (name : string) : list string :=
  map (fun _ => "Instruction #[" ^^ name ^^ "(...)] is not supported for this member.") l.

Definition validate_dedicated_member_attrs {A} (l : list A) (ty_of : A -> option type_path) (name : option string)
  (type_paths : list type_path) : list string :=
  (match name with
   | Some n => if Nat.ltb 1 (count (fun x => ty_none (ty_of x)) l)
               then ["There can be at most one default #[" ^^ n ^^ "(...)] instruction for a given member."] else []
   | None => []
   end) ++
  dedicated_loop ty_of name type_paths l [].

(* data_type_attrs_by_kind: the order of validate.rs 50-62 *)
Definition by_kind_order : list (kind * bool) :=
  [(OwnedInto, false); (RefInto, false); (OwnedIntoExisting, false); (RefIntoExisting, false); (FromOwned, false); (FromRef, false);
   (OwnedInto, true); (RefInto, true); (OwnedIntoExisting, true); (RefIntoExisting, true); (FromOwned, true); (FromRef, true)].
Definition attrs_by_kind (d : dt_attrs) : list (trait_attr * kind) :=
  flat_map (fun kf => map (fun a => (a, fst kf)) (iter_for_kind d (fst kf) (snd kf))) by_kind_order.

Definition pty_matches (p : parent_attr) (ty : type_path) : bool := ty_none (pa_ty p) || ty_is (pa_ty p) ty.

Definition validate_parent_attrs (named_root : bool) (ps : list parent_attr) (by_kind : list (trait_attr * kind)) : list string :=
  flat_map (fun p =>
    flat_map (fun ak =>
      let '(a, k) := ak in
      if negb (is_from k) && pty_matches p (tc_ty (ta_core a)) then
        match pa_children p with
        | Some fields =>
            flat_map (fun f =>
              if (hint_eqb (tc_hint (ta_core a)) HStruct || named_root) && negb (pcf_named f) && is_empty_list (pc_attrs f)
              then let s := member_str (pc_this f) in
                   ["Member " ^^ s ^^ " should have an instruction that specifies corresponding field name of type " ^^
                    tp_str (tc_ty (ta_core a)) ^^ ", e.g. #[parent(" ^^ (if String.eqb s "0" then "" else "..., ") ^^
                    "[map(field_name)] " ^^ s ^^ ", ...)]"]
              else []) fields
        | None => []
        end
      else []) by_kind ++
    flat_map (fun ak =>
      let '(a, k) := ak in
      if is_from k && pty_matches p (tc_ty (ta_core a)) then
        match pa_children p with
        | Some fields =>
            flat_map (fun f =>
              flat_map (fun i =>
                match snd i with
                | None => ["Field '" ^^ member_str (fst i) ^^ "' should have type here, e.g. '" ^^ member_str (fst i) ^^ ": SomeStruct'"]
                | Some _ => []
                end) (pc_sub f)) fields
        | None => []
        end
      else []) by_kind) ps.

(* check_child_errors *)
Definition check_child_errors (c : child_attr) (d : dt_attrs) (tp : type_path) : list string :=
  let cpa := child_parents_attr_for d tp in
  flat_map (fun path =>
    match cpa with
    | Some a =>
        if negb (existsb (fun x => String.eqb (cd_str x) path) (ca_data a))
        then ["Missing '" ^^ path ^^ ": [Type Path]' instruction for type " ^^ tp_str tp] else []
    | None => ["Missing #[child_parents(...)] instruction for " ^^ tp_str tp]
    end) (child_path_strs (ch_path c)).

Definition fallible_kind_str (k : kind) (fallible : bool) : string :=
  match find (fun e => String.eqb (fst (fst e)) (kind_name k) && Bool.eqb (snd (fst e)) fallible) fallible_kind_display with
  | Some e => snd e
  | None => "?"
  end.

(* the tuple-vs-named check shared by validate_fields and validate_variant_fields *)
Definition check_unnamed_fields (fields : list field) (ta : trait_attr) (k : kind) (variant : option string)
  (kind_fallible : bool) : list string :=
  let ty := tc_ty (ta_core ta) in
  flat_map (fun f =>
    if is_some (m_ghost_for (f_attrs f) ty k) || has_parent_attr (f_attrs f) ty then [] else
    let mstr := member_str (f_member f) in
    match applicable_field_attr (f_attrs f) k false ty with
    | Some fa =>
        if is_from k then
          if negb (is_some (mc_member (ma_core fa))) && negb (is_some (mc_action (ma_core fa)))
          then ["Member trait instruction #[" ^^ ma_instr fa ^^ "(...)] for member " ^^ mstr ^^
                " should specify corresponding field name of the " ^^ toks_to_string (tp_path ty) ^^ " or an action"]
          else []
        else if negb (is_some (mc_member (ma_core fa)))
        then ["Member trait instruction #[" ^^ ma_instr fa ^^ "(...)] for member " ^^ mstr ^^
              " should specify corresponding field name of the " ^^ tp_str ty]
        else []
    | None =>
        ["Member " ^^ mstr ^^ (match variant with Some v => " of a variant " ^^ v | None => "" end) ^^
         " should have member trait instruction with field name" ^^ (if is_from k then " or an action" else "") ^^
         ", that corresponds to #[" ^^ fallible_kind_str k kind_fallible ^^ "(" ^^ tp_str ty ^^ "...)] trait instruction"]
    end) fields.

(* order_tp: the iteration order of the two HashSet<&TypePath> that validate_fields walks (C19) *)
Definition validate_fields (order_tp : list type_path -> list type_path)
  (s : struct_) (by_kind : list (trait_attr * kind)) (type_paths : list type_path) : list string :=
  let d := s_attrs s in
  let into_type_paths := flat_map (fun ak => if negb (is_from (snd ak)) && negb (is_into_existing (snd ak))
                                             then [tc_ty (ta_core (fst ak))] else []) by_kind in
  let from_type_paths := flat_map (fun ak => if negb (is_some (tc_update (ta_core (fst ak)))) && is_from (snd ak)
                                             then [tc_ty (ta_core (fst ak))] else []) by_kind in
  flat_map (fun f =>
    flat_map (fun g =>
      if is_some (fg_action (gh_core g)) then [] else
      match fg_ty (gh_core g) with
      | Some tp =>
          if tp_in tp from_type_paths
          then ["Member instruction #[ghost(...)] for member '" ^^ member_str (f_member f) ^^
                "' should provide default value for type " ^^ tp_str tp] else []
      | None =>
          map (fun tp => "Member instruction #[ghost(...)] for member '" ^^ member_str (f_member f) ^^
                         "' should provide default value for type " ^^ tp_str tp) (order_tp from_type_paths)
      end) (m_ghost (f_attrs f)) ++
    match m_repeat (f_attrs f) with
    | Some r => if mr_permeate r then ["Permeating repeat instruction is only applicable to enum variant fields."] else []
    | None => []
    end) (s_fields s) ++
  flat_map (fun c =>
    match ch_ty c with
    | Some tp =>
        (if negb (tp_in tp type_paths) then [unknown_type_msg tp] else []) ++
        (if tp_in tp into_type_paths then check_child_errors c d tp else [])
    | None => flat_map (fun tp => check_child_errors c d tp) (order_tp into_type_paths)
    end) (flat_map (fun f => m_child (f_attrs f)) (s_fields s)) ++
  (if negb (s_named s) then
     flat_map (fun ak =>
       let '(ta, k) := ak in
       if negb (is_some (tc_qret (ta_core ta))) && hint_eqb (tc_hint (ta_core ta)) HStruct
       then check_unnamed_fields (s_fields s) ta k None false else []) by_kind
   else []).

(* validate_variant_fields builds its own list (another order) *)
Definition variant_by_kind_order : list (kind * bool) :=
  [(OwnedInto, false); (RefInto, false); (OwnedIntoExisting, false); (RefIntoExisting, false); (FromOwned, false); (FromRef, false);
   (OwnedInto, true); (RefInto, true); (OwnedIntoExisting, true); (RefIntoExisting, true); (FromOwned, true); (FromRef, true)].

Definition validate_variant_fields (v : variant) (d : dt_attrs) : list string :=
  if v_named v then [] else
  flat_map (fun kf =>
    flat_map (fun ta =>
      let k := fst kf in
      let hint := match m_hint_for (v_attrs v) (tc_ty (ta_core ta)) with Some h => th_hint h | None => HUnspecified end in
      if negb (is_some (tc_qret (ta_core ta))) && hint_eqb hint HStruct
      then check_unnamed_fields (v_fields v) ta k (Some (v_ident v)) (ta_fallible ta) else [])
      (iter_for_kind d (fst kf) (snd kf))) variant_by_kind_order.

Definition ghosts_both (x : ghosts_attr) := appl_get (ga_appl x) OwnedInto && appl_get (ga_appl x) RefInto.
Definition ghosts_owned_only (x : ghosts_attr) := appl_get (ga_appl x) OwnedInto && negb (appl_get (ga_appl x) RefInto).
Definition ghosts_ref_only (x : ghosts_attr) := negb (appl_get (ga_appl x) OwnedInto) && appl_get (ga_appl x) RefInto.

Definition validate_member (is_enum named_root : bool) (is_field : bool) (m : member_attrs)
  (by_kind : list (trait_attr * kind)) (type_paths : list type_path) : res (list string) :=
  let common :=
    validate_dedicated_member_attrs (m_attrs m) (fun x => mc_ty (ma_core x)) None type_paths ++
    validate_dedicated_member_attrs (m_ghost m) (fun x => fg_ty (gh_core x)) None type_paths in
  let specific :=
    if is_field then
      bark_at_member_attr (m_lit m) "literal" ++ bark_at_member_attr (m_pat m) "pattern" ++
      bark_at_member_attr (m_hint m) "type_hint" ++
      bark_at_member_attr (filter ghosts_both (m_ghosts m)) "ghosts" ++
      bark_at_member_attr (filter ghosts_owned_only (m_ghosts m)) "ghosts_owned" ++
      bark_at_member_attr (filter ghosts_ref_only (m_ghosts m)) "ghosts_ref" ++
      validate_dedicated_member_attrs (m_parent m) pa_ty (Some "parent") type_paths ++
      validate_parent_attrs named_root (m_parent m) by_kind
    else
      bark_at_member_attr (m_parent m) "parent" ++
      validate_dedicated_member_attrs (m_lit m) lp_ty (Some "literal") type_paths ++
      validate_dedicated_member_attrs (m_pat m) lp_ty (Some "pattern") type_paths ++
      validate_dedicated_member_attrs (m_hint m) th_ty (Some "type_hint") type_paths in
  errs <- validate_member_error_instrs is_enum m ;;
  Ok (common ++ specific ++ errs).

Definition flavours_validate_order : list (kind * bool) :=
  [(FromOwned, false); (FromRef, false); (OwnedInto, false); (RefInto, false); (OwnedIntoExisting, false); (RefIntoExisting, false);
   (FromOwned, true); (FromRef, true); (OwnedInto, true); (RefInto, true); (OwnedIntoExisting, true); (RefIntoExisting, true)].

(* all messages in code order *)
Definition validate_msgs (order_tp : list type_path -> list type_path) (input : data_type) : res (list string) :=
  let d := dt_get_attrs input in
  let is_enum := match input with DEnum _ => true | _ => false end in
  let named_root := match input with DStruct s => s_named s | _ => false end in
  let m0 := if is_empty_list (d_attrs d) then ["At least one trait instruction is expected."] else [] in
  m1 <- validate_error_instrs is_enum d ;;
  let m2 := flat_map (fun kf => validate_struct_attrs d (fst kf) (snd kf)) flavours_validate_order in
  let type_paths := map (fun x => tc_ty (ta_core x)) (d_attrs d) in
  let m3 := flat_map (fun k => validate_ghost_attrs k (d_ghosts d) type_paths)
              [FromOwned; FromRef; OwnedInto; RefInto; OwnedIntoExisting; RefIntoExisting] in
  let m4 := validate_child_parents_attrs (d_child_parents d) type_paths in
  let m5 := validate_where_attrs (d_where d) type_paths in
  let by_kind := attrs_by_kind d in
  m6 <- (match input with
         | DStruct s => mapM (fun f => validate_member false named_root true (f_attrs f) by_kind type_paths) (s_fields s)
         | DEnum e => mapM (fun v => validate_member true false false (v_attrs v) by_kind type_paths) (e_variants e)
         end) ;;
  let m7 := match input with
            | DStruct s => validate_fields order_tp s by_kind type_paths
            | DEnum e => flat_map (fun v => validate_variant_fields v d) (e_variants e)
            end in
  Ok (m0 ++ m1 ++ m2 ++ m3 ++ m4 ++ m5 ++ List.concat m6 ++ m7).

(* ---- the map keyed by message text, emitted in sorted order ---- *)
Fixpoint str_leb (a b : string) : bool :=
  match a, b with
  | EmptyString, _ => true
  | String _ _, EmptyString => false
  | String x a', String y b' =>
      let nx := nat_of_ascii x in let ny := nat_of_ascii y in
      if Nat.ltb nx ny then true else if Nat.ltb ny nx then false else str_leb a' b'
  end.
Fixpoint insert_sorted (s : string) (l : list string) : list string :=
  match l with
  | [] => [s]
  | x :: r => if str_leb s x then s :: l else x :: insert_sorted s r
  end.
Definition sort_strs (l : list string) : list string := fold_right insert_sorted [] l.
Fixpoint dedup (l : list string) : list string :=
  match l with
  | [] => []
  | x :: r => if str_in x r then dedup r else x :: dedup r
  end.

Section Emit.
  (* the iteration order of the HashMap: an arbitrary permutation of its keys (C19) *)
  Variable order : list string -> list string.
  Definition emit_errors (msgs : list string) : list string := sort_strs (order (dedup msgs)).
End Emit.
