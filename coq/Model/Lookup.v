(* L4: the lookup functions of attr.rs (dedicated-then-default, the applicable_attr chain). *)
From Coq Require Import List String Ascii Bool Arith.
From O2o.Model Require Import Tok Syn Attr Ast.
Import ListNotations.
Open Scope string_scope.
Open Scope list_scope.

Definition ty_is (o : option type_path) (ty : type_path) : bool :=
  match o with Some t => tp_eqb t ty | None => false end.
Definition ty_none (o : option type_path) : bool := match o with Some _ => false | None => true end.

(* find dedicated-to-ty among the entries passing `ok`, else the first default one passing `ok` *)
Definition find_for {A} (ty_of : A -> option type_path) (ok : A -> bool) (l : list A) (ty : type_path) : option A :=
  match find (fun x => ok x && ty_is (ty_of x) ty) l with
  | Some x => Some x
  | None => find (fun x => ok x && ty_none (ty_of x)) l
  end.

(* DataTypeAttrs *)
Definition iter_for_kind (d : dt_attrs) (k : kind) (fallible : bool) : list trait_attr :=
  filter (fun x => Bool.eqb (ta_fallible x) fallible && appl_get (ta_appl x) k) (d_attrs d).
Definition ghosts_attr_for (d : dt_attrs) (ty : type_path) (k : kind) : option ghosts_core :=
  option_map ga_core (find_for (fun x => sg_ty (ga_core x)) (fun x => appl_get (ga_appl x) k) (d_ghosts d) ty).
Definition where_attr_for (d : dt_attrs) (ty : type_path) : option where_attr :=
  find_for wa_ty (fun _ => true) (d_where d) ty.
Definition child_parents_attr_for (d : dt_attrs) (ty : type_path) : option child_parents_attr :=
  find_for ca_ty (fun _ => true) (d_child_parents d) ty.

(* MemberAttrs *)
Definition m_child_for (m : member_attrs) (ty : type_path) : option child_attr :=
  find_for ch_ty (fun _ => true) (m_child m) ty.
Definition m_ghost_for (m : member_attrs) (ty : type_path) (k : kind) : option fghost_core :=
  option_map gh_core (find_for (fun x => fg_ty (gh_core x)) (fun x => appl_get (gh_appl x) k) (m_ghost m) ty).
Definition m_lit_for (m : member_attrs) (ty : type_path) : option lit_attr :=
  find_for lp_ty (fun _ => true) (m_lit m) ty.
Definition m_pat_for (m : member_attrs) (ty : type_path) : option lit_attr :=
  find_for lp_ty (fun _ => true) (m_pat m) ty.
Definition m_hint_for (m : member_attrs) (ty : type_path) : option hint_attr :=
  find_for th_ty (fun _ => true) (m_hint m) ty.
Definition has_parent_attr (m : member_attrs) (ty : type_path) : bool :=
  existsb (fun x => ty_none (pa_ty x) || ty_is (pa_ty x) ty) (m_parent m).
Definition has_parameterless_parent_attr (m : member_attrs) (ty : type_path) : bool :=
  existsb (fun x => negb (is_some (pa_children x)) && (ty_none (pa_ty x) || ty_is (pa_ty x) ty)) (m_parent m).
Definition parameterized_parent_attr (m : member_attrs) (ty : type_path) : option parent_attr :=
  find_for pa_ty (fun x => is_some (pa_children x)) (m_parent m) ty.

Definition ma_ok (k : kind) (fallible : bool) (x : member_attr) : bool :=
  Bool.eqb (ma_fallible x) fallible && appl_get (ma_appl x) k.
Definition field_attr (m : member_attrs) (k : kind) (fallible : bool) (ty : type_path) : option member_attr :=
  find_for (fun x => mc_ty (ma_core x)) (ma_ok k fallible) (m_attrs m) ty.
Definition field_attr_core (m : member_attrs) (k : kind) (fallible : bool) (ty : type_path) : option member_core :=
  option_map ma_core (field_attr m k fallible ty).

Definition or_else {A} (a : option A) (b : option A) : option A := match a with Some _ => a | None => b end.

Inductive applicable :=
| AField (c : member_core)
| AGhost (g : fghost_core)
| AParentChild (p : parent_child_field) (k : kind).

(* MemberAttrs::applicable_attr *)
Definition field_chain (m : member_attrs) (k : kind) (fallible : bool) (ty : type_path) : option member_core :=
  or_else (field_attr_core m k fallible ty)
  (or_else (if fallible then field_attr_core m k false ty else None)
  (or_else (if kind_eqb k OwnedIntoExisting then field_attr_core m OwnedInto fallible ty else None)
  (or_else (if kind_eqb k OwnedIntoExisting && fallible then field_attr_core m OwnedInto false ty else None)
  (or_else (if kind_eqb k RefIntoExisting then field_attr_core m RefInto fallible ty else None)
           (if kind_eqb k RefIntoExisting && fallible then field_attr_core m RefInto false ty else None))))).

Definition applicable_attr (m : member_attrs) (k : kind) (fallible : bool) (ty : type_path) : option applicable :=
  match m_ghost_for m ty k with
  | Some g => Some (AGhost g)
  | None => option_map AField (field_chain m k fallible ty)
  end.

(* MemberAttrs::applicable_field_attr (validation's copy of the chain) *)
Definition applicable_field_attr (m : member_attrs) (k : kind) (fallible : bool) (ty : type_path) : option member_attr :=
  or_else (field_attr m k fallible ty)
  (or_else (if kind_eqb k OwnedIntoExisting then field_attr m OwnedInto fallible ty else None)
           (if kind_eqb k RefIntoExisting then field_attr m RefInto fallible ty else None)).

(* ParentChildField::get_for_kind *)
Definition pcf_find (p : parent_child_field) (k : kind) : option pcf_attr :=
  find (fun x => appl_get (pf_appl x) k) (pc_attrs p).
Definition get_for_kind (p : parent_child_field) (k : kind) : option pcf_attr :=
  or_else (pcf_find p k)
  (or_else (if kind_eqb k OwnedIntoExisting then pcf_find p OwnedInto else None)
           (if kind_eqb k RefIntoExisting then pcf_find p RefInto else None)).

Definition pcf_named (p : parent_child_field) : bool :=
  match pc_this p with MNamed _ => true | MIndex _ => false end.
