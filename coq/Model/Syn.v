(* Library layer: the parts of syn's parsing/printing that o2o's attribute grammar goes
   through (Ident, Member, Index, Path, lifetimes, where-predicates, Punctuated loops).
   This is modelled library behaviour (trusted base), exercised by the correspondence run. *)
From Coq Require Import List String Ascii Bool Arith.
From O2o.Model Require Import Tok.
Import ListNotations.
Open Scope string_scope.
Open Scope list_scope.

Inductive backend := S1 | S2.

(* diagnostics: library wording is erased, o2o's own wording is kept *)
Inductive emsg := MLib | MO2o (s : string).

Inductive res (A : Type) :=
| Ok (a : A)
| Err (m : emsg)
| Panic (site : string)
| Oom (why : string).
Arguments Ok {A} a.
Arguments Err {A} m.
Arguments Panic {A} site.
Arguments Oom {A} why.

Definition bind {A B} (r : res A) (f : A -> res B) : res B :=
  match r with
  | Ok a => f a
  | Err m => Err m
  | Panic s => Panic s
  | Oom w => Oom w
  end.
Notation "x <- e ;; f" := (bind e (fun x => f)) (at level 61, e at next level, right associativity).
Notation "' p <- e ;; f" := (bind e (fun x => let p := x in f)) (at level 61, p pattern, e at next level, right associativity).

Definition pres (A : Type) := res (A * list tok).
Definition parser (A : Type) := list tok -> pres A.

Definition lib_err {A} : res A := Err MLib.

Fixpoint mapM {A B} (f : A -> res B) (l : list A) : res (list B) :=
  match l with
  | [] => Ok []
  | x :: xs => y <- f x ;; ys <- mapM f xs ;; Ok (y :: ys)
  end.

(* ---------- keywords ---------- *)
Definition str_in (s : string) (l : list string) : bool := existsb (String.eqb s) l.

Definition keywords_common : list string :=
  ["_"; "abstract"; "as"; "become"; "box"; "break"; "const"; "continue"; "crate"; "do"; "else";
   "enum"; "extern"; "false"; "final"; "fn"; "for"; "if"; "impl"; "in"; "let"; "loop"; "macro";
   "match"; "mod"; "move"; "mut"; "override"; "priv"; "pub"; "ref"; "return"; "Self"; "self";
   "static"; "struct"; "super"; "trait"; "true"; "type"; "typeof"; "unsafe"; "unsized"; "use";
   "virtual"; "where"; "while"; "yield"].
Definition keywords_s2_only : list string := ["async"; "await"; "dyn"; "try"].

(* accept_as_ident *)
Definition is_plain_ident (be : backend) (s : string) : bool :=
  negb (str_in s keywords_common) &&
  match be with S1 => true | S2 => negb (str_in s keywords_s2_only) end.

(* ---------- primitive peeks / parses ---------- *)
Definition is_empty (ts : list tok) : bool := match ts with [] => true | _ => false end.

(* parse2's "the whole stream must be consumed" *)
Definition finish {A} (r : pres A) : res A :=
  '(a, rest) <- r ;; if is_empty rest then Ok a else lib_err.

Definition peek_ident (be : backend) (ts : list tok) : bool :=
  match ts with TIdent s :: _ => is_plain_ident be s | _ => false end.

Definition parse_ident (be : backend) : parser string := fun ts =>
  match ts with
  | TIdent s :: rest => if is_plain_ident be s then Ok (s, rest) else lib_err
  | _ => lib_err
  end.

(* custom keyword / reserved word at the head *)
Definition peek_kw (k : string) (ts : list tok) : bool :=
  match ts with TIdent s :: _ => String.eqb s k | _ => false end.
Definition parse_kw (k : string) : parser unit := fun ts =>
  match ts with
  | TIdent s :: rest => if String.eqb s k then Ok (tt, rest) else lib_err
  | _ => lib_err
  end.

Definition peek_punct (c : ascii) (ts : list tok) : bool :=
  match ts with TPunct c' _ :: _ => Ascii.eqb c c' | _ => false end.
Definition parse_punct (c : ascii) : parser unit := fun ts =>
  match ts with
  | TPunct c' _ :: rest => if Ascii.eqb c c' then Ok (tt, rest) else lib_err
  | _ => lib_err
  end.
(* two-character operators: the first character must be Joint *)
Definition peek_punct2 (c1 c2 : ascii) (ts : list tok) : bool :=
  match ts with
  | TPunct a true :: TPunct b _ :: _ => Ascii.eqb a c1 && Ascii.eqb b c2
  | _ => false
  end.
Definition parse_punct2 (c1 c2 : ascii) : parser unit := fun ts =>
  match ts with
  | TPunct a true :: TPunct b _ :: rest =>
      if Ascii.eqb a c1 && Ascii.eqb b c2 then Ok (tt, rest) else lib_err
  | _ => lib_err
  end.
Definition peek_colon2 := peek_punct2 ":" ":".
Definition peek_dotdot := peek_punct2 "." ".".

Definition peek_group (d : delim) (ts : list tok) : bool :=
  match ts with TGroup d' _ :: _ => delim_eqb d d' | _ => false end.
Definition parse_group (d : delim) : parser (list tok) := fun ts =>
  match ts with
  | TGroup d' inner :: rest => if delim_eqb d d' then Ok (inner, rest) else lib_err
  | _ => lib_err
  end.

(* second token (peek2) *)
Definition tl1 (ts : list tok) : list tok := match ts with _ :: r => r | [] => [] end.

Fixpoint tok_has_none (t : tok) : bool :=
  match t with
  | TGroup d inner =>
      delim_eqb d DNone ||
      (fix go (l : list tok) : bool :=
         match l with [] => false | x :: r => tok_has_none x || go r end) inner
  | _ => false
  end.
Definition has_none_group (ts : list tok) : bool := existsb tok_has_none ts.

(* ---------- members ---------- *)
Inductive member := MNamed (s : string) | MIndex (n : nat).

Definition member_eqb (a b : member) : bool :=
  match a, b with
  | MNamed x, MNamed y => String.eqb x y
  | MIndex x, MIndex y => Nat.eqb x y
  | _, _ => false
  end.

Definition member_tok (m : member) : tok :=
  match m with MNamed s => TIdent s | MIndex n => TLit (nat_to_string n) end.
Definition member_str (m : member) : string :=
  match m with MNamed s => s | MIndex n => nat_to_string n end.
(* format_ident!("f{}", n) *)
Definition f_ident (n : nat) : string := "f" ^^ nat_to_string n.

(* Index::parse on the head literal.  Ok (Some n): an unsuffixed u32; Ok None: not an index. *)
Fixpoint has_char (c : ascii) (s : string) : bool :=
  match s with EmptyString => false | String x r => Ascii.eqb x c || has_char c r end.
Definition radix_prefix (s : string) : bool :=
  match s with
  | String "0" (String c _) => Ascii.eqb c "x" || Ascii.eqb c "o" || Ascii.eqb c "b"
  | _ => false
  end.
Definition lit_index (s : string) : res (option nat) :=
  if starts_with_digit s then
    if all_digits s then
      match canonical_index s with
      | Some n => Ok (Some n)
      | None => Oom "non-canonical numeric literal in member position"
      end
    else if has_char "_" s || radix_prefix s then Oom "non-canonical numeric literal in member position"
    else Ok None   (* float, or integer with a suffix: not an Index *)
  else Ok None.

(* peek_member: Ident, or a fork parses as Index *)
Definition peek_member (be : backend) (ts : list tok) : res bool :=
  match ts with
  | TIdent s :: _ => Ok (is_plain_ident be s)
  | TLit s :: _ => o <- lit_index s ;; Ok (match o with Some _ => true | None => false end)
  | _ => Ok false
  end.

Definition parse_member (be : backend) : parser member := fun ts =>
  match ts with
  | TIdent s :: rest => if is_plain_ident be s then Ok (MNamed s, rest) else lib_err
  | TLit s :: rest =>
      o <- lit_index s ;;
      match o with Some n => Ok (MIndex n, rest) | None => lib_err end
  | _ => lib_err
  end.

(* ---------- lifetimes ---------- *)
Definition peek_lifetime (ts : list tok) : bool :=
  match ts with TPunct "'" true :: TIdent _ :: _ => true | _ => false end.

(* ---------- paths and (a fragment of) types ---------- *)
Inductive garg := GLt (name : string) | GOther (printed : list tok).
Record angle := { a_colon2 : bool; a_args : list (garg * bool) }.   (* bool: followed by a comma *)
Record pseg := { s_ident : string; s_args : option angle }.
Record path := { p_lead : bool; p_segs : list pseg }.

Definition print_garg (g : garg) : list tok :=
  match g with GLt n => lifetime n | GOther ts => ts end.

(* AngleBracketedGenericArguments::to_tokens: lifetimes first *)
Definition is_lt (g : garg) : bool := match g with GLt _ => true | _ => false end.
Fixpoint print_args_lts (l : list (garg * bool)) (trailing : bool) : list tok * bool :=
  match l with
  | [] => ([], trailing)
  | (g, p) :: r =>
      if is_lt g then
        let '(ts, tr) := print_args_lts r p in
        (print_garg g ++ (if p then [comma] else []) ++ ts, tr)
      else print_args_lts r trailing
  end.
Fixpoint print_args_others (l : list (garg * bool)) (trailing : bool) : list tok :=
  match l with
  | [] => []
  | (g, p) :: r =>
      if is_lt g then print_args_others r trailing
      else (if trailing then [] else [comma]) ++ print_garg g ++ (if p then [comma] else [])
             ++ print_args_others r p
  end.
Definition print_angle (a : angle) : list tok :=
  let '(lts, tr) := print_args_lts (a_args a) true in
  (if a_colon2 a then colon2 else []) ++ [P1 "<"] ++ lts ++ print_args_others (a_args a) tr ++ [P1 ">"].

Definition print_seg (s : pseg) : list tok :=
  TIdent (s_ident s) :: match s_args s with Some a => print_angle a | None => [] end.
Fixpoint print_segs (l : list pseg) : list tok :=
  match l with
  | [] => []
  | [s] => print_seg s
  | s :: r => print_seg s ++ colon2 ++ print_segs r
  end.
Definition print_path (p : path) : list tok :=
  (if p_lead p then colon2 else []) ++ print_segs (p_segs p).

(* the path with the arguments of its last segment removed, and those arguments *)
Fixpoint strip_last_args (l : list pseg) : list pseg * option angle :=
  match l with
  | [] => ([], None)
  | [s] => ([{| s_ident := s_ident s; s_args := None |}], s_args s)
  | s :: r => let '(r', a) := strip_last_args r in (s :: r', a)
  end.

Definition path_seg_kw (be : backend) (s : string) : bool :=
  str_in s ["super"; "self"; "crate"] || match be with S1 => false | S2 => false end.

Section PathParser.
  Variable be : backend.

  (* type := & ['lt] [mut] type | path | literal ; returns the tokens syn prints for it *)
  Fixpoint parse_type (fuel : nat) (ts : list tok) {struct fuel} : pres (list tok) :=
    match fuel with
    | 0 => Oom "fuel"
    | S f =>
        match ts with
        | TPunct "&" _ :: rest =>
            let '(lt, rest1) :=
              match rest with
              | TPunct "'" true :: TIdent n :: r => (lifetime n, r)
              | _ => ([], rest)
              end in
            let '(mu, rest2) :=
              match rest1 with
              | TIdent "mut" :: r => ([TIdent "mut"], r)
              | _ => ([], rest1)
              end in
            '(t, rest3) <- parse_type f rest2 ;;
            Ok (P1 "&" :: lt ++ mu ++ t, rest3)
        | TIdent s :: _ =>
            if str_in s ["dyn"; "impl"; "fn"; "for"; "unsafe"; "extern"; "_"; "typeof"; "macro"] then Oom "type form"
            else '(p, rest) <- parse_path_f f ts ;;
                 if peek_group DParen rest || peek_punct "!" rest || peek_punct "+" rest then Oom "type form (after path)"
                 else Ok (print_path p, rest)
        | TPunct ":" true :: _ =>
            '(p, rest) <- parse_path_f f ts ;;
            if peek_group DParen rest || peek_punct "!" rest || peek_punct "+" rest then Oom "type form (after path)"
            else Ok (print_path p, rest)
        | TGroup _ _ :: _ => Oom "type form (group)"
        | TPunct _ _ :: _ => Oom "type form (punct)"
        | TLit _ :: _ => lib_err
        | [] => lib_err
        end
    end
  with parse_gargs (fuel : nat) (ts : list tok) {struct fuel} : pres (list (garg * bool)) :=
    match fuel with
    | 0 => Oom "fuel"
    | S f =>
        if peek_punct ">" ts then Ok ([], ts) else
        '(g, rest) <-
          match ts with
          | TPunct "'" true :: TIdent n :: r =>
              if peek_punct "+" r then Oom "generic argument form" else Ok (GLt n, r)
          | TLit s :: r => Ok (GOther [TLit s], r)
          | TGroup DBrace _ :: _ => Oom "const block argument"
          | TIdent _ :: TPunct "=" _ :: _ => Oom "binding argument"
          | TIdent _ :: TPunct ":" false :: _ => Oom "constraint argument"
          | _ => '(t, r) <- parse_type f ts ;;
                 if peek_punct "=" r || (peek_punct ":" r && negb (peek_colon2 r)) then Oom "binding argument"
                 else Ok (GOther t, r)
          end ;;
        if peek_punct ">" rest then Ok ([(g, false)], rest) else
        '(_, rest1) <- parse_punct "," rest ;;
        '(gs, rest2) <- parse_gargs f rest1 ;;
        Ok ((g, true) :: gs, rest2)
    end
  with parse_seg (fuel : nat) (ts : list tok) {struct fuel} : pres pseg :=
    match fuel with
    | 0 => Oom "fuel"
    | S f =>
        match ts with
        | TIdent s :: rest =>
            if str_in s ["super"; "self"; "crate"] then Ok ({| s_ident := s; s_args := None |}, rest)
            else if str_in s keywords_s2_only then Oom "back-end dependent keyword"
            else if String.eqb s "Self" || is_plain_ident be s then
              (* `<` (not `<=`) directly, or `::<` *)
              let direct := peek_punct "<" rest && negb (peek_punct2 "<" "=" rest) in
              let turbo := peek_colon2 rest && peek_punct "<" (tl1 (tl1 rest)) in
              if direct || turbo then
                let rest0 := if direct then rest else tl1 (tl1 rest) in
                '(_, rest1) <- parse_punct "<" rest0 ;;
                '(gs, rest2) <- parse_gargs f rest1 ;;
                '(_, rest3) <- parse_punct ">" rest2 ;;
                Ok ({| s_ident := s; s_args := Some {| a_colon2 := negb direct; a_args := gs |} |}, rest3)
              else Ok ({| s_ident := s; s_args := None |}, rest)
            else lib_err
        | _ => lib_err
        end
    end
  with parse_segs (fuel : nat) (ts : list tok) {struct fuel} : pres (list pseg) :=
    match fuel with
    | 0 => Oom "fuel"
    | S f =>
        '(s, rest) <- parse_seg f ts ;;
        (* while peek(::) && !peek3(Paren) *)
        if peek_colon2 rest && negb (peek_group DParen (tl1 (tl1 rest))) then
          '(ss, rest2) <- parse_segs f (tl1 (tl1 rest)) ;;
          Ok (s :: ss, rest2)
        else Ok ([s], rest)
    end
  with parse_path_f (fuel : nat) (ts : list tok) {struct fuel} : pres path :=
    match fuel with
    | 0 => Oom "fuel"
    | S f =>
        match ts with
        | TPunct "<" _ :: _ => lib_err
        | _ =>
            let lead := peek_colon2 ts in
            let ts1 := if lead then tl1 (tl1 ts) else ts in
            '(segs, rest) <- parse_segs f ts1 ;;
            Ok ({| p_lead := lead; p_segs := segs |}, rest)
        end
    end.

  Definition path_fuel (ts : list tok) : nat := 4 * List.length ts + 8.
  Definition parse_path : parser path := fun ts => parse_path_f (path_fuel ts) ts.
End PathParser.

(* ---------- where predicates (restricted form, printed back normalised) ---------- *)
Section Where.
  Variable be : backend.
  (* bound := 'lt | [?] path *)
  Definition parse_bound : parser (list tok) := fun ts =>
    match ts with
    | TPunct "'" true :: TIdent n :: r => Ok (lifetime n, r)
    | TPunct "?" _ :: r =>
        '(p, r2) <- parse_path be r ;;
        if peek_group DParen r2 then Oom "where bound form" else Ok (P1 "?" :: print_path p, r2)
    | TGroup _ _ :: _ => Oom "where bound form"
    | TIdent "for" :: _ => Oom "where bound form"
    | _ =>
        '(p, r2) <- parse_path be ts ;;
        if peek_group DParen r2 then Oom "where bound form" else Ok (print_path p, r2)
    end.
  Fixpoint parse_bounds (fuel : nat) (ts : list tok) : pres (list tok) :=
    match fuel with
    | 0 => Oom "fuel"
    | S f =>
        (* syn stops at `,` `>` `{` `=` or end *)
        if is_empty ts || peek_punct "," ts then Ok ([], ts) else
        '(b, r) <- parse_bound ts ;;
        if peek_punct "+" r then
          '(bs, r2) <- parse_bounds f (tl1 r) ;; Ok (b ++ [P1 "+"] ++ bs, r2)
        else Ok (b, r)
    end.
  Fixpoint parse_lt_bounds (fuel : nat) (ts : list tok) : pres (list tok) :=
    match fuel with
    | 0 => Oom "fuel"
    | S f =>
        if is_empty ts || peek_punct "," ts then Ok ([], ts) else
        match ts with
        | TPunct "'" true :: TIdent n :: r =>
            if peek_punct "+" r then
              '(bs, r2) <- parse_lt_bounds f (tl1 r) ;; Ok (lifetime n ++ [P1 "+"] ++ bs, r2)
            else Ok (lifetime n, r)
        | _ => Oom "lifetime predicate form"
        end
    end.
  Definition parse_where_pred : parser (list tok) := fun ts =>
    match ts with
    | TPunct "'" true :: TIdent n :: r =>
        '(_, r1) <- parse_punct ":" r ;;
        if peek_colon2 r then lib_err else
        '(bs, r2) <- parse_lt_bounds (S (List.length r1)) r1 ;;
        Ok (lifetime n ++ [P1 ":"] ++ bs, r2)
    | TIdent "for" :: _ => Oom "where predicate form"
    | _ =>
        '(t, r) <- parse_type be (path_fuel ts) ts ;;
        if peek_colon2 r then lib_err else
        '(_, r1) <- parse_punct ":" r ;;
        '(bs, r2) <- parse_bounds (S (List.length r1)) r1 ;;
        Ok (t ++ [P1 ":"] ++ bs, r2)
    end.
End Where.

(* ---------- Punctuated loops ---------- *)
Section Punctuated.
  Context {A : Type}.
  Variable elem : parser A.

  (* parse_terminated_with: values separated by `,`, optional trailing `,`, until the buffer is empty *)
  Fixpoint parse_terminated (fuel : nat) (ts : list tok) : res (list A) :=
    match fuel with
    | 0 => Oom "fuel"
    | S f =>
        if is_empty ts then Ok [] else
        '(v, rest) <- elem ts ;;
        if is_empty rest then Ok [v] else
        '(_, rest1) <- parse_punct "," rest ;;
        vs <- parse_terminated f rest1 ;;
        Ok (v :: vs)
    end.

  (* parse_separated_nonempty with separator character c *)
  Fixpoint parse_separated_nonempty (c : ascii) (fuel : nat) (ts : list tok) : pres (list A) :=
    match fuel with
    | 0 => Oom "fuel"
    | S f =>
        '(v, rest) <- elem ts ;;
        if peek_punct c rest then
          '(vs, rest2) <- parse_separated_nonempty c f (tl1 rest) ;;
          Ok (v :: vs, rest2)
        else Ok ([v], rest)
    end.
End Punctuated.

Definition fuel_of (ts : list tok) : nat := S (List.length ts).
Definition is_empty_list {A} (l : list A) : bool := match l with [] => true | _ => false end.
