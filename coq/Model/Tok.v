(* L0: proc_macro2 token trees with spans erased. *)
From Coq Require Import List String Ascii Bool Arith.
Import ListNotations.
Open Scope string_scope.
Open Scope list_scope.
Notation "a ^^ b" := (String.append a b) (at level 60, right associativity).

Inductive delim := DParen | DBrace | DBracket | DNone.

Inductive tok :=
| TIdent (s : string)
| TPunct (c : ascii) (joint : bool)
| TLit (s : string)
| TGroup (d : delim) (ts : list tok).

Definition toks := list tok.

(* Nested induction principle (tok contains list tok). *)
Section tok_ind2.
  Variable P : tok -> Prop.
  Variable Q : list tok -> Prop.
  Hypothesis Hi : forall s, P (TIdent s).
  Hypothesis Hp : forall c j, P (TPunct c j).
  Hypothesis Hl : forall s, P (TLit s).
  Hypothesis Hg : forall d ts, Q ts -> P (TGroup d ts).
  Hypothesis Hnil : Q [].
  Hypothesis Hcons : forall t ts, P t -> Q ts -> Q (t :: ts).
  Fixpoint tok_ind2 (t : tok) : P t :=
    match t with
    | TIdent s => Hi s
    | TPunct c j => Hp c j
    | TLit s => Hl s
    | TGroup d ts =>
        Hg d ts ((fix go (l : list tok) : Q l :=
                    match l with
                    | [] => Hnil
                    | x :: xs => Hcons x xs (tok_ind2 x) (go xs)
                    end) ts)
    end.
  Definition toks_ind2 (l : list tok) : Q l :=
    (fix go (l : list tok) : Q l :=
       match l with
       | [] => Hnil
       | x :: xs => Hcons x xs (tok_ind2 x) (go xs)
       end) l.
End tok_ind2.

Definition delim_eqb (a b : delim) : bool :=
  match a, b with
  | DParen, DParen | DBrace, DBrace | DBracket, DBracket | DNone, DNone => true
  | _, _ => false
  end.

Fixpoint tok_eqb (a b : tok) {struct a} : bool :=
  match a, b with
  | TIdent x, TIdent y => String.eqb x y
  | TPunct c j, TPunct c' j' => Ascii.eqb c c' && Bool.eqb j j'
  | TLit x, TLit y => String.eqb x y
  | TGroup d xs, TGroup d' ys =>
      delim_eqb d d' &&
      (fix go (l1 l2 : list tok) {struct l1} : bool :=
         match l1, l2 with
         | [], [] => true
         | x :: l1', y :: l2' => tok_eqb x y && go l1' l2'
         | _, _ => false
         end) xs ys
  | _, _ => false
  end.

(* depth of nesting; used as fuel for recursive-descent parsers over groups *)
Fixpoint tok_depth (t : tok) : nat :=
  match t with
  | TGroup _ ts => S (fold_right (fun x acc => Nat.max (tok_depth x) acc) 0 ts)
  | _ => 0
  end.
Definition toks_depth (ts : list tok) : nat :=
  fold_right (fun x acc => Nat.max (tok_depth x) acc) 0 ts.

(* --- convenience constructors with the spacing quote! produces --- *)
Definition P1 (c : ascii) : tok := TPunct c false.
Definition PJ (c : ascii) : tok := TPunct c true.
Definition I (s : string) : tok := TIdent s.
Definition colon2 : list tok := [PJ ":"; P1 ":"].
Definition arrow : list tok := [PJ "-"; P1 ">"].
Definition fatarrow : list tok := [PJ "="; P1 ">"].
Definition dotdot : list tok := [PJ "."; P1 "."].
Definition dot : tok := P1 ".".
Definition comma : tok := P1 ",".
Definition semi : tok := P1 ";".
Definition lifetime (name : string) : list tok := [PJ "'"; TIdent name].
Definition paren (ts : list tok) : tok := TGroup DParen ts.
Definition brace (ts : list tok) : tok := TGroup DBrace ts.
Definition bracket (ts : list tok) : tok := TGroup DBracket ts.

(* --- proc_macro2 fallback Display (TokenStream::to_string) --- *)
Definition str1 (c : ascii) : string := String c EmptyString.

Fixpoint tok_to_string (t : tok) : string :=
  match t with
  | TIdent s => s
  | TPunct c _ => str1 c
  | TLit s => s
  | TGroup d ts =>
      let inner :=
        (fix go (first : bool) (joint : bool) (l : list tok) : string :=
           match l with
           | [] => ""
           | x :: xs =>
               let sep := if first then "" else if joint then "" else " " in
               let j := match x with TPunct _ true => true | _ => false end in
               sep ^^ tok_to_string x ^^ go false j xs
           end) true false ts in
      match d with
      | DParen => "(" ^^ inner ^^ ")"
      | DBracket => "[" ^^ inner ^^ "]"
      | DNone => inner
      | DBrace => match ts with [] => "{ }" | _ => "{ " ^^ inner ^^ " }" end
      end
  end.

Fixpoint toks_to_string_aux (first joint : bool) (l : list tok) : string :=
  match l with
  | [] => ""
  | x :: xs =>
      let sep := if first then "" else if joint then "" else " " in
      let j := match x with TPunct _ true => true | _ => false end in
      sep ^^ tok_to_string x ^^ toks_to_string_aux false j xs
  end.
Definition toks_to_string (l : list tok) : string := toks_to_string_aux true false l.

(* remove every space: `.replace(' ', "")` and `.chars().filter(|c| !c.is_whitespace())` *)
Fixpoint strip_spaces (s : string) : string :=
  match s with
  | EmptyString => EmptyString
  | String c r => if Ascii.eqb c " " then strip_spaces r else String c (strip_spaces r)
  end.

(* decimal printing of small naturals (field indices) *)
Definition digit_of (n : nat) : ascii :=
  match n with
  | 0 => "0" | 1 => "1" | 2 => "2" | 3 => "3" | 4 => "4"
  | 5 => "5" | 6 => "6" | 7 => "7" | 8 => "8" | _ => "9"
  end%char.
Fixpoint nat_to_string_aux (fuel n : nat) (acc : string) : string :=
  match fuel with
  | 0 => acc
  | S f =>
      let acc' := String (digit_of (n mod 10)) acc in
      if Nat.ltb n 10 then acc' else nat_to_string_aux f (n / 10) acc'
  end.
Definition nat_to_string (n : nat) : string := nat_to_string_aux (S n) n "".

(* parse canonical decimal: digits only, no leading zero (except "0"), at most 9 digits *)
Definition is_digit (c : ascii) : bool :=
  let n := nat_of_ascii c in Nat.leb 48 n && Nat.leb n 57.
Fixpoint all_digits (s : string) : bool :=
  match s with EmptyString => true | String c r => is_digit c && all_digits r end.
Fixpoint dec_value (s : string) (acc : nat) : nat :=
  match s with
  | EmptyString => acc
  | String c r => dec_value r (acc * 10 + (nat_of_ascii c - 48))
  end.
Definition canonical_index (s : string) : option nat :=
  match s with
  | EmptyString => None
  | String c r =>
      if all_digits s && Nat.leb (String.length s) 6 &&
         (negb (Ascii.eqb c "0") || match r with EmptyString => true | _ => false end)
      then Some (dec_value s 0) else None
  end.
Definition starts_with_digit (s : string) : bool :=
  match s with String c _ => is_digit c | _ => false end.
