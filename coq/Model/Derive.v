(* The whole pipeline: expand.rs `derive`. *)
From Coq Require Import List String Ascii Bool Arith.
From O2o.Model Require Import Tok Syn Attr Ast Lookup Validate Expand.
Import ListNotations.
Open Scope string_scope.
Open Scope list_scope.

Inductive outcome :=
| OOk (ts : list tok)
| OErr (msgs : list emsg)
| OPanic (site : string)
| OOom (why : string).

Definition raw_attr_has_none (a : raw_attr) : bool := has_none_group (ra_toks a).
Definition raw_field_has_none (f : raw_field) : bool := existsb raw_attr_has_none (rf_attrs f).
Definition raw_has_none (x : raw_input) : bool :=
  existsb raw_attr_has_none (ri_attrs x) ||
  match ri_data x with
  | RStruct _ fs => existsb raw_field_has_none fs
  | REnum vs => existsb (fun v => existsb raw_attr_has_none (rv_attrs v) || existsb raw_field_has_none (rv_fields v)) vs
  | RUnion => false
  end.

Definition root_error : string := "Cannot expand o2o macro".

Section Derive.
  Variable be : backend.
  Variable order : list string -> list string.
  Variable order_tp : list type_path -> list type_path.

  Definition parse_input (x : raw_input) : res data_type :=
    match ri_data x with
    | RUnion => Err (MO2o "#[derive(o2o)] only supports structs and enums.")
    | RStruct sh fs => s <- struct_from_syn be x sh fs ;; Ok (DStruct s)
    | REnum vs => e <- enum_from_syn be x vs ;; Ok (DEnum e)
    end.

  Definition validate (d : data_type) : res (list string) :=
    msgs <- validate_msgs order_tp d ;; Ok (emit_errors order msgs).

  Definition derive_res (x : raw_input) : res (list tok + list string) :=
    d <- parse_input x ;;
    errs <- validate d ;;
    match errs with
    | [] => ts <- data_type_impl d ;; Ok (inl ts)
    | _ => Ok (inr errs)
    end.

  Definition derive_model (x : raw_input) : outcome :=
    if raw_has_none x then OOom "None-delimited group" else
    match derive_res x with
    | Ok (inl ts) => OOk ts
    | Ok (inr errs) => OErr (MO2o root_error :: map MO2o errs)
    | Err m => OErr [m]
    | Panic s => OPanic s
    | Oom w => OOom w
    end.
End Derive.

Definition id_order {A} (l : list A) : list A := l.
Definition derive1 := derive_model S1 id_order id_order.
Definition derive2 := derive_model S2 id_order id_order.
