(* L3: ast.rs (Struct / Enum / Field / Variant construction, member-level repeat threading) and the
   second loops of get_data_type_attrs / get_member_attrs (trait-level repeat, as_type expansion). *)
From Coq Require Import List String Ascii Bool Arith.
From O2o.Model Require Import Tok Syn Attr.
From O2o.Gen Require Import Tables.
Import ListNotations.
Open Scope string_scope.
Open Scope list_scope.

Record member_attrs := {
  m_attrs : list member_attr; m_child : list child_attr; m_parent : list parent_attr;
  m_ghost : list ghost_attr; m_ghosts : list ghosts_attr; m_lit : list lit_attr; m_pat : list lit_attr;
  m_repeat : option mrepeat_attr; m_skip : bool; m_stop : bool; m_hint : list hint_attr;
  m_errs : list mb_instr }.

Definition empty_member_attrs : member_attrs :=
  {| m_attrs := []; m_child := []; m_parent := []; m_ghost := []; m_ghosts := []; m_lit := []; m_pat := [];
     m_repeat := None; m_skip := false; m_stop := false; m_hint := []; m_errs := [] |}.

Record dt_attrs := {
  d_attrs : list trait_attr; d_ghosts : list ghosts_attr; d_where : list where_attr;
  d_child_parents : list child_parents_attr; d_errs : list dt_instr }.

Record field := { f_attrs : member_attrs; f_idx : nat; f_member : member; f_member_str : string;
                  f_ty : option (list tok) }.
Record variant := { v_attrs : member_attrs; v_ident : string; v_fields : list field; v_named : bool; v_unit : bool }.
Record struct_ := { s_attrs : dt_attrs; s_ident : string; s_generics : list gparam; s_fields : list field;
                    s_named : bool; s_unit : bool; s_where : list (list tok) (* the item's own where-predicates *) }.
Record enum_ := { e_attrs : dt_attrs; e_ident : string; e_generics : list gparam; e_variants : list variant; e_where : list (list tok) }.
Inductive data_type := DStruct (s : struct_) | DEnum (e : enum_).

Definition dt_ident (d : data_type) := match d with DStruct s => s_ident s | DEnum e => e_ident e end.
Definition dt_get_attrs (d : data_type) := match d with DStruct s => s_attrs s | DEnum e => e_attrs e end.
Definition dt_generics (d : data_type) := match d with DStruct s => s_generics s | DEnum e => e_generics e end.
Definition dt_where (d : data_type) := match d with DStruct s => s_where s | DEnum e => e_where e end.

(* ---------------- member attrs: second loop of get_member_attrs ---------------- *)
Definition as_type_attrs (this_ty : list tok) (a : as_attr) : list member_attr :=
  [ {| ma_core := {| mc_ty := as_ty a; mc_member := as_member a;
                     mc_action := Some ([P1 "~"; TIdent "as"] ++ this_ty) |};
       ma_fallible := false; ma_instr := "as_type"; ma_appl := as_type_appl_from |};
    {| ma_core := {| mc_ty := as_ty a; mc_member := as_member a;
                     mc_action := Some ([P1 "~"; TIdent "as"] ++ as_toks a) |};
       ma_fallible := false; ma_instr := "as_type"; ma_appl := as_type_appl_into |} ].

(* field_ty = Some ty for a field, None for a variant *)
Fixpoint collect_member_attrs (field_ty : option (list tok)) (instrs : list mb_instr) (acc : member_attrs)
  : res member_attrs :=
  match instrs with
  | [] => Ok acc
  | i :: rest =>
      let upd (f : member_attrs) := collect_member_attrs field_ty rest f in
      match i with
      | MMap a => upd {| m_attrs := m_attrs acc ++ [a]; m_child := m_child acc; m_parent := m_parent acc; m_ghost := m_ghost acc;
                         m_ghosts := m_ghosts acc; m_lit := m_lit acc; m_pat := m_pat acc; m_repeat := m_repeat acc;
                         m_skip := m_skip acc; m_stop := m_stop acc; m_hint := m_hint acc; m_errs := m_errs acc |}
      | MChild a => upd {| m_attrs := m_attrs acc; m_child := m_child acc ++ [a]; m_parent := m_parent acc; m_ghost := m_ghost acc;
                         m_ghosts := m_ghosts acc; m_lit := m_lit acc; m_pat := m_pat acc; m_repeat := m_repeat acc;
                         m_skip := m_skip acc; m_stop := m_stop acc; m_hint := m_hint acc; m_errs := m_errs acc |}
      | MGhost a => upd {| m_attrs := m_attrs acc; m_child := m_child acc; m_parent := m_parent acc; m_ghost := m_ghost acc ++ [a];
                         m_ghosts := m_ghosts acc; m_lit := m_lit acc; m_pat := m_pat acc; m_repeat := m_repeat acc;
                         m_skip := m_skip acc; m_stop := m_stop acc; m_hint := m_hint acc; m_errs := m_errs acc |}
      | MGhosts a => upd {| m_attrs := m_attrs acc; m_child := m_child acc; m_parent := m_parent acc; m_ghost := m_ghost acc;
                         m_ghosts := m_ghosts acc ++ [a]; m_lit := m_lit acc; m_pat := m_pat acc; m_repeat := m_repeat acc;
                         m_skip := m_skip acc; m_stop := m_stop acc; m_hint := m_hint acc; m_errs := m_errs acc |}
      | MParent a => upd {| m_attrs := m_attrs acc; m_child := m_child acc; m_parent := m_parent acc ++ [a]; m_ghost := m_ghost acc;
                         m_ghosts := m_ghosts acc; m_lit := m_lit acc; m_pat := m_pat acc; m_repeat := m_repeat acc;
                         m_skip := m_skip acc; m_stop := m_stop acc; m_hint := m_hint acc; m_errs := m_errs acc |}
      | MAs a =>
          match field_ty with
          | Some ty => upd {| m_attrs := m_attrs acc ++ as_type_attrs ty a; m_child := m_child acc; m_parent := m_parent acc;
                         m_ghost := m_ghost acc; m_ghosts := m_ghosts acc; m_lit := m_lit acc; m_pat := m_pat acc;
                         m_repeat := m_repeat acc; m_skip := m_skip acc; m_stop := m_stop acc; m_hint := m_hint acc;
                         m_errs := m_errs acc |}
          | None => Panic "1"
          end
      | MLit a => upd {| m_attrs := m_attrs acc; m_child := m_child acc; m_parent := m_parent acc; m_ghost := m_ghost acc;
                         m_ghosts := m_ghosts acc; m_lit := m_lit acc ++ [a]; m_pat := m_pat acc; m_repeat := m_repeat acc;
                         m_skip := m_skip acc; m_stop := m_stop acc; m_hint := m_hint acc; m_errs := m_errs acc |}
      | MPat a => upd {| m_attrs := m_attrs acc; m_child := m_child acc; m_parent := m_parent acc; m_ghost := m_ghost acc;
                         m_ghosts := m_ghosts acc; m_lit := m_lit acc; m_pat := m_pat acc ++ [a]; m_repeat := m_repeat acc;
                         m_skip := m_skip acc; m_stop := m_stop acc; m_hint := m_hint acc; m_errs := m_errs acc |}
      | MRepeat a => upd {| m_attrs := m_attrs acc; m_child := m_child acc; m_parent := m_parent acc; m_ghost := m_ghost acc;
                         m_ghosts := m_ghosts acc; m_lit := m_lit acc; m_pat := m_pat acc; m_repeat := Some a;
                         m_skip := m_skip acc; m_stop := m_stop acc; m_hint := m_hint acc; m_errs := m_errs acc |}
      | MSkipRepeat => upd {| m_attrs := m_attrs acc; m_child := m_child acc; m_parent := m_parent acc; m_ghost := m_ghost acc;
                         m_ghosts := m_ghosts acc; m_lit := m_lit acc; m_pat := m_pat acc; m_repeat := m_repeat acc;
                         m_skip := true; m_stop := m_stop acc; m_hint := m_hint acc; m_errs := m_errs acc |}
      | MStopRepeat => upd {| m_attrs := m_attrs acc; m_child := m_child acc; m_parent := m_parent acc; m_ghost := m_ghost acc;
                         m_ghosts := m_ghosts acc; m_lit := m_lit acc; m_pat := m_pat acc; m_repeat := m_repeat acc;
                         m_skip := m_skip acc; m_stop := true; m_hint := m_hint acc; m_errs := m_errs acc |}
      | MTypeHint a => upd {| m_attrs := m_attrs acc; m_child := m_child acc; m_parent := m_parent acc; m_ghost := m_ghost acc;
                         m_ghosts := m_ghosts acc; m_lit := m_lit acc; m_pat := m_pat acc; m_repeat := m_repeat acc;
                         m_skip := m_skip acc; m_stop := m_stop acc; m_hint := m_hint acc ++ [a]; m_errs := m_errs acc |}
      | MUnrec => upd acc
      | MMisplaced _ _ | MMisnamed _ _ _ | MUnrecErr _ =>
          upd {| m_attrs := m_attrs acc; m_child := m_child acc; m_parent := m_parent acc; m_ghost := m_ghost acc;
                 m_ghosts := m_ghosts acc; m_lit := m_lit acc; m_pat := m_pat acc; m_repeat := m_repeat acc;
                 m_skip := m_skip acc; m_stop := m_stop acc; m_hint := m_hint acc; m_errs := m_errs acc ++ [i] |}
      end
  end.

Definition get_member_attrs (be : backend) (field_ty : option (list tok)) (attrs : list raw_attr) (bark : bool)
  : res member_attrs :=
  instrs <- mb_instrs be attrs bark ;;
  collect_member_attrs field_ty instrs empty_member_attrs.

(* MemberAttrs::merge *)
Definition rep_flag (a : mrepeat_attr) (i : nat) : bool := nth i (mr_for a) false.
Definition merge_member_attrs (self other : member_attrs) : member_attrs :=
  if m_skip self then self else
  match m_repeat other with
  | None => self
  | Some r =>
      {| m_attrs := m_attrs self ++ (if rep_flag r 0 then m_attrs other else []);
         m_child := m_child self ++ (if rep_flag r 1 then m_child other else []);
         m_parent := m_parent self ++ (if rep_flag r 2 then m_parent other else []);
         m_ghost := m_ghost self ++ (if rep_flag r 3 then m_ghost other else []);
         m_ghosts := m_ghosts self; m_lit := m_lit self; m_pat := m_pat self; m_repeat := m_repeat self;
         m_skip := m_skip self; m_stop := m_stop self;
         m_hint := m_hint self ++ (if rep_flag r 4 then m_hint other else []);
         m_errs := m_errs self |}
  end.

Definition unterminated_repeat : emsg :=
  MO2o "Previous #[repeat] instruction must be terminated with #[stop_repeat]".

(* one step of the repeat threading shared by fields and variants:
   ctx = the active block, attrs = the member's own attrs; returns (ctx', attrs') *)
Definition thread_repeat {C} (mk : member_attrs -> mrepeat_attr -> C) (get : C -> member_attrs)
  (ctx : option C) (attrs : member_attrs) : res (option C * member_attrs) :=
  let ctx1 := if m_stop attrs then None else ctx in
  match m_repeat attrs with
  | Some r =>
      match ctx1 with
      | Some _ => if negb (m_stop attrs) then Err unterminated_repeat else Ok (Some (mk attrs r), attrs)
      | None => Ok (Some (mk attrs r), attrs)
      end
  | None =>
      match ctx1 with
      | Some c => Ok (ctx1, merge_member_attrs attrs (get c))
      | None => Ok (ctx1, attrs)
      end
  end.

Definition field_ctx := option (member_attrs * bool).

(* Field::multiple_from_syn *)
Fixpoint fields_from_syn (be : backend) (bark : bool) (ctx : field_ctx) (i : nat) (fs : list raw_field)
  : res (list field * field_ctx) :=
  match fs with
  | [] => Ok ([], ctx)
  | rf :: rest =>
      attrs <- get_member_attrs be (Some (rf_ty rf)) (rf_attrs rf) bark ;;
      '(ctx', attrs') <- thread_repeat (fun a r => (a, mr_permeate r)) fst ctx attrs ;;
      let f := {| f_attrs := attrs'; f_idx := i; f_member := rf_member rf;
                  f_member_str := member_str (rf_member rf); f_ty := rf_typath rf |} in
      '(more, ctx'') <- fields_from_syn be bark ctx' (S i) rest ;;
      Ok (f :: more, ctx'')
  end.

Definition shape_named (sh : shape) := match sh with ShNamed => true | _ => false end.
Definition shape_unit (sh : shape) := match sh with ShUnit => true | _ => false end.

(* Variant::multiple_from_syn *)
Fixpoint variants_from_syn (be : backend) (bark : bool) (vctx : option member_attrs) (fctx : field_ctx)
  (vs : list raw_variant) : res (list variant) :=
  match vs with
  | [] => Ok []
  | rv :: rest =>
      '(fields, fctx1) <- fields_from_syn be bark fctx 0 (rv_fields rv) ;;
      attrs <- get_member_attrs be None (rv_attrs rv) bark ;;
      let fctx2 := match fctx1 with Some (_, false) => None | _ => fctx1 end in
      '(vctx', attrs') <- thread_repeat (fun a _ => a) (fun a => a) vctx attrs ;;
      let v := {| v_attrs := attrs'; v_ident := rv_ident rv; v_fields := fields;
                  v_named := shape_named (rv_shape rv); v_unit := shape_unit (rv_shape rv) |} in
      more <- variants_from_syn be bark vctx' fctx2 rest ;;
      Ok (v :: more)
  end.

(* ---------------- type-level attrs: second loop of get_data_type_attrs ---------------- *)
Definition rflag (l : list bool) (i : nat) : bool := nth i l false.

(* TraitAttrCore::merge *)
Definition merge_trait_core (self other : trait_core) : res trait_core :=
  if tc_skip self then Ok self else
  match tc_repeat other with
  | None => Ok self
  | Some fl =>
      init <- (if rflag fl 0 then
                 match tc_init self with
                 | Some _ => Err (MO2o "Vars will be overriden. Did you forget to use 'skip_repeat'?")
                 | None => Ok (tc_init other)
                 end
               else Ok (tc_init self)) ;;
      upd <- (if rflag fl 1 then
                match tc_update self with
                | Some _ => Err (MO2o "Update statement will be overriden. Did you forget to use 'skip_repeat'?")
                | None => Ok (tc_update other)
                end
              else Ok (tc_update self)) ;;
      qr <- (if rflag fl 2 then
               match tc_qret self with
               | Some _ => Err (MO2o "Quick Return statement will be overriden. Did you forget to use 'skip_repeat'?")
               | None => Ok (tc_qret other)
               end
             else Ok (tc_qret self)) ;;
      dc <- (if rflag fl 3 then
               match tc_default self with
               | Some _ => Err (MO2o "Default Case statement will be overriden. Did you forget to use 'skip_repeat'?")
               | None => Ok (tc_default other)
               end
             else Ok (tc_default self)) ;;
      Ok {| tc_ty := tc_ty self; tc_err := tc_err self; tc_hint := tc_hint self; tc_init := init; tc_update := upd;
            tc_qret := qr; tc_default := dc; tc_repeat := tc_repeat self; tc_skip := tc_skip self; tc_stop := tc_stop self;
            tc_attr := tc_attr self; tc_impl_attr := tc_impl_attr self; tc_inner_attr := tc_inner_attr self |}
  end.

Definition rkey := (appl * bool)%type.
Definition rkey_eqb (a b : rkey) : bool := appl_eqb (fst a) (fst b) && Bool.eqb (snd a) (snd b).
Definition rmap := list (rkey * trait_attr).
Fixpoint rmap_get (m : rmap) (k : rkey) : option trait_attr :=
  match m with
  | [] => None
  | (k', v) :: r => if rkey_eqb k k' then Some v else rmap_get r k
  end.
Fixpoint rmap_remove (m : rmap) (k : rkey) : rmap :=
  match m with
  | [] => []
  | (k', v) :: r => if rkey_eqb k k' then rmap_remove r k else (k', v) :: rmap_remove r k
  end.
Definition rmap_insert (m : rmap) (k : rkey) (v : trait_attr) : rmap := (k, v) :: rmap_remove m k.

Definition is_some {A} (o : option A) : bool := match o with Some _ => true | None => false end.

Fixpoint collect_dt_attrs (instrs : list dt_instr) (m : rmap) (acc : dt_attrs) : res dt_attrs :=
  match instrs with
  | [] => Ok acc
  | i :: rest =>
      match i with
      | DMap ta =>
          let k := (ta_appl ta, ta_fallible ta) in
          let m1 := if tc_stop (ta_core ta) then rmap_remove m k else m in
          let to_repeat := rmap_get m1 k in
          '(m2, ta') <-
            (if is_some (tc_repeat (ta_core ta)) then
               if is_some to_repeat && negb (tc_stop (ta_core ta))
               then Err (MO2o "Previous repeat() instruction must be terminated with 'stop_repeat'")
               else Ok (rmap_insert m1 k ta, ta)
             else
               match to_repeat with
               | Some tr =>
                   core <- merge_trait_core (ta_core ta) (ta_core tr) ;;
                   Ok (m1, {| ta_core := core; ta_fallible := ta_fallible ta; ta_appl := ta_appl ta |})
               | None => Ok (m1, ta)
               end) ;;
          collect_dt_attrs rest m2 {| d_attrs := d_attrs acc ++ [ta']; d_ghosts := d_ghosts acc; d_where := d_where acc;
                                      d_child_parents := d_child_parents acc; d_errs := d_errs acc |}
      | DGhosts a => collect_dt_attrs rest m {| d_attrs := d_attrs acc; d_ghosts := d_ghosts acc ++ [a]; d_where := d_where acc;
                                      d_child_parents := d_child_parents acc; d_errs := d_errs acc |}
      | DWhere a => collect_dt_attrs rest m {| d_attrs := d_attrs acc; d_ghosts := d_ghosts acc; d_where := d_where acc ++ [a];
                                      d_child_parents := d_child_parents acc; d_errs := d_errs acc |}
      | DChildParents a => collect_dt_attrs rest m {| d_attrs := d_attrs acc; d_ghosts := d_ghosts acc; d_where := d_where acc;
                                      d_child_parents := d_child_parents acc ++ [a]; d_errs := d_errs acc |}
      | DAllowUnknown | DUnrec => collect_dt_attrs rest m acc
      | DMisplaced _ _ | DMisnamed _ _ _ | DUnrecErr _ =>
          collect_dt_attrs rest m {| d_attrs := d_attrs acc; d_ghosts := d_ghosts acc; d_where := d_where acc;
                                     d_child_parents := d_child_parents acc; d_errs := d_errs acc ++ [i] |}
      end
  end.

Definition empty_dt_attrs : dt_attrs :=
  {| d_attrs := []; d_ghosts := []; d_where := []; d_child_parents := []; d_errs := [] |}.

Definition get_data_type_attrs (be : backend) (attrs : list raw_attr) : res (dt_attrs * bool) :=
  '(instrs, bark) <- dt_instrs be attrs true ;;
  d <- collect_dt_attrs instrs [] empty_dt_attrs ;;
  Ok (d, bark).

(* Struct::from_syn / Enum::from_syn *)
Definition struct_from_syn (be : backend) (x : raw_input) (sh : shape) (fs : list raw_field) : res struct_ :=
  '(attrs, bark) <- get_data_type_attrs be (ri_attrs x) ;;
  '(fields, _) <- fields_from_syn be bark None 0 fs ;;
  Ok {| s_attrs := attrs; s_ident := ri_ident x; s_generics := ri_generics x; s_fields := fields;
        s_named := shape_named sh; s_unit := shape_unit sh; s_where := ri_where x |}.

Definition enum_from_syn (be : backend) (x : raw_input) (vs : list raw_variant) : res enum_ :=
  '(attrs, bark) <- get_data_type_attrs be (ri_attrs x) ;;
  variants <- variants_from_syn be bark None None vs ;;
  Ok {| e_attrs := attrs; e_ident := ri_ident x; e_generics := ri_generics x; e_variants := variants; e_where := ri_where x |}.
