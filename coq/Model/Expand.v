(* L6: expand.rs.  Resolve-then-render: every lookup an impl context makes is computed into a
   view first (fview / vview / tview); rendering reads the views only. *)
From Coq Require Import List String Ascii Bool Arith.
From O2o.Model Require Import Tok Syn Attr Ast Lookup.
From O2o.Gen Require Import Tables Skeleton.
Import ListNotations.
Open Scope string_scope.
Open Scope list_scope.

(* ---------------- views ---------------- *)
Record fview := {
  fv_member : member; fv_idx : nat; fv_str : string; fv_ty : option (list tok);
  fv_child : option (list member);
  fv_ghost : option fghost_core;
  fv_has_parent : bool; fv_has_pl_parent : bool;
  fv_pparent : option (list parent_child_field);
  fv_attr : option applicable }.

Definition view_field (k : kind) (fallible : bool) (ty : type_path) (f : field) : fview :=
  {| fv_member := f_member f; fv_idx := f_idx f; fv_str := f_member_str f; fv_ty := f_ty f;
     fv_child := option_map ch_path (m_child_for (f_attrs f) ty);
     fv_ghost := m_ghost_for (f_attrs f) ty k;
     fv_has_parent := has_parent_attr (f_attrs f) ty;
     fv_has_pl_parent := has_parameterless_parent_attr (f_attrs f) ty;
     fv_pparent := match parameterized_parent_attr (f_attrs f) ty with
                   | Some p => pa_children p | None => None end;
     fv_attr := applicable_attr (f_attrs f) k fallible ty |}.

(* a struct, or the synthetic struct of a variant *)
Record sview := {
  sv_fields : list fview; sv_named : bool; sv_unit : bool;
  sv_ghosts : option ghosts_core; sv_child_parents : option child_parents_attr }.

Record vview := {
  vv_ident : string; vv_struct : sview;
  vv_ghost : option fghost_core; vv_attr : option applicable;
  vv_lit : option lit_attr; vv_pat : option lit_attr; vv_hint : option hint_attr;
  vv_has_pl_parent : bool }.

Definition view_struct (k : kind) (fallible : bool) (ty : type_path) (s : struct_) : sview :=
  {| sv_fields := map (view_field k fallible ty) (s_fields s); sv_named := s_named s; sv_unit := s_unit s;
     sv_ghosts := ghosts_attr_for (s_attrs s) ty k;
     sv_child_parents := child_parents_attr_for (s_attrs s) ty |}.

Definition variant_ghosts (v : variant) (ty : type_path) (k : kind) : option ghosts_core :=
  option_map ga_core (find_for (fun x => sg_ty (ga_core x)) (fun x => appl_get (ga_appl x) k) (m_ghosts (v_attrs v)) ty).

Definition view_variant (k : kind) (fallible : bool) (ty : type_path) (v : variant) : vview :=
  {| vv_ident := v_ident v;
     vv_struct := {| sv_fields := map (view_field k fallible ty) (v_fields v); sv_named := v_named v; sv_unit := v_unit v;
                     sv_ghosts := variant_ghosts v ty k; sv_child_parents := None |};
     vv_ghost := m_ghost_for (v_attrs v) ty k;
     vv_attr := applicable_attr (v_attrs v) k fallible ty;
     vv_lit := m_lit_for (v_attrs v) ty; vv_pat := m_pat_for (v_attrs v) ty; vv_hint := m_hint_for (v_attrs v) ty;
     vv_has_pl_parent := has_parameterless_parent_attr (v_attrs v) ty |}.

Inductive dview := VStruct (s : sview) | VEnum (vs : list vview) (ghosts : option ghosts_core).

Record tview := {
  tv_ident : string; tv_generics : list gparam; tv_data : dview; tv_where : option where_attr;
  tv_own_where : list (list tok) }.

Definition view_type (k : kind) (fallible : bool) (ty : type_path) (d : data_type) : tview :=
  {| tv_ident := dt_ident d; tv_generics := dt_generics d;
     tv_data := match d with
                | DStruct s => VStruct (view_struct k fallible ty s)
                | DEnum e => VEnum (map (view_variant k fallible ty) (e_variants e)) (ghosts_attr_for (e_attrs e) ty k)
                end;
     tv_where := where_attr_for (dt_get_attrs d) ty;
     tv_own_where := dt_where d |}.

(* ---------------- impl context ---------------- *)
Inductive impl_type := ITStruct | ITEnum | ITVariant.
Record ictx := {
  c_kind : kind; c_fallible : bool; c_core : trait_core; c_hint : type_hint;
  c_impl_type : impl_type; c_dst : list tok; c_src : list tok; c_post_init : bool;
  c_named : bool (* ctx.input.named_fields() *) }.
Definition c_ty (c : ictx) := tc_ty (c_core c).
Definition is_variant (c : ictx) := match c_impl_type c with ITVariant => true | _ => false end.

(* ---------------- @ / ~ substitution ---------------- *)
Fixpoint subst_tok (at_ tilde : list tok) (t : tok) : list tok :=
  match t with
  | TGroup d inner =>
      let inner' := (fix go (l : list tok) : list tok :=
                       match l with [] => [] | x :: r => subst_tok at_ tilde x ++ go r end) inner in
      match d with DNone => inner' | _ => [TGroup d inner'] end
  | TPunct c j =>
      if Ascii.eqb c "~" then tilde else if Ascii.eqb c "@" then at_ else [t]
  | _ => [t]
  end.
Definition subst (at_ tilde : list tok) (ts : list tok) : list tok := flat_map (subst_tok at_ tilde) ts.

Definition src_ident (c : ictx) : list tok := if is_from (c_kind c) then [TIdent "value"] else [TIdent "self"].

Definition quote_action (action : list tok) (tilde_postfix : option (list tok)) (c : ictx) : list tok :=
  let post := match tilde_postfix with Some p => p | None => [] end in
  let path := match c_impl_type c with
              | ITStruct => src_ident c ++ [dot] ++ post
              | ITEnum => c_dst c ++ colon2 ++ post
              | ITVariant => post
              end in
  subst (src_ident c) path action.

(* ---------------- ApplicableAttr helpers ---------------- *)
Definition get_ident (a : applicable) : res member :=
  match a with
  | AField mc => match mc_member mc with Some v => Ok v | None => Panic "8" end
  | AParentChild p k =>
      match get_for_kind p k with
      | Some at_ => match pf_member at_ with Some v => Ok v | None => Panic "18" end
      | None => Panic "19"
      end
  | AGhost _ => Panic "9"
  end.

Definition has_action (a : applicable) : bool :=
  match a with
  | AField f => is_some (mc_action f)
  | AGhost g => is_some (fg_action g)
  | AParentChild p k => match get_for_kind p k with Some x => is_some (pf_action x) | None => false end
  end.

Definition get_field_name_or (a : applicable) (field : member) : res member :=
  match a with
  | AField mc => Ok (match mc_member mc with Some v => v | None => field end)
  | AGhost _ => Panic "10"
  | AParentChild p k =>
      match get_for_kind p k with
      | Some at_ => Ok (match pf_member at_ with Some v => v | None => pc_this p end)
      | None => Ok (pc_this p)
      end
  end.

Definition get_action_or (a : applicable) (field_path : option (list tok)) (c : ictx) (or_ : list tok) : res (list tok) :=
  match a with
  | AField mc => Ok (match mc_action mc with Some v => quote_action v field_path c | None => or_ end)
  | AParentChild p k =>
      match get_for_kind p k with
      | Some at_ => Ok (match pf_action at_ with Some v => quote_action v field_path c | None => or_ end)
      | None => Ok or_
      end
  | AGhost _ => Panic "11"
  end.

Definition get_stuff (a : applicable) (obj : list tok) (field_path : member -> list tok) (c : ictx) (or_ : member)
  : res (list tok) :=
  let inner (m : option member) (act : option (list tok)) : res (list tok) :=
    match m, act with
    | Some ident, Some action =>
        match ident with
        | MIndex n => if is_variant c then Ok (quote_action action (Some (field_path (MNamed (f_ident n)))) c)
                      else Ok (quote_action action (Some (field_path ident)) c)
        | _ => Ok (quote_action action (Some (field_path ident)) c)
        end
    | Some ident, None =>
        match ident with
        | MIndex n => if is_variant c then Ok (obj ++ field_path (MNamed (f_ident n))) else Ok (obj ++ field_path ident)
        | _ => Ok (obj ++ field_path ident)
        end
    | None, Some action => Ok (quote_action action (Some (field_path or_)) c)
    | None, None => Panic "12"
    end in
  match a with
  | AField mc => inner (mc_member mc) (mc_action mc)
  | AParentChild p k =>
      match get_for_kind p k with
      | Some at_ =>
          match pf_member at_ with
          | Some _ => inner (pf_member at_) (pf_action at_)
          | None => inner (Some (pc_this p)) (pf_action at_)
          end
      | None => inner (Some (pc_this p)) None
      end
  | AGhost g =>
      match fg_action g with
      | Some act => Ok (quote_action act None c)
      | None => Panic "ghost-action-unwrap"
      end
  end.

(* ---------------- render_struct_line ---------------- *)
Definition is_intoish (k : kind) := match k with OwnedInto | RefInto => true | _ => false end.
Definition hint_su (h : type_hint) := match h with HStruct | HUnspecified => true | _ => false end.
Definition hint_tu (h : type_hint) := match h with HTuple | HUnspecified => true | _ => false end.

Definition parent_conv (c : ictx) : list tok :=
  match is_ref (c_kind c), c_fallible c with
  | true, true => [TIdent "value"; dot; TIdent "try_into"; paren []; P1 "?"]
  | true, false => [TIdent "value"; dot; TIdent "into"; paren []]
  | false, true => [paren [P1 "&"; TIdent "value"]; dot; TIdent "try_into"; paren []; P1 "?"]
  | false, false => [paren [P1 "&"; TIdent "value"]; dot; TIdent "into"; paren []]
  end.

Definition render_struct_line (f : fview) (c : ictx) (hint : type_hint) (idx : nat) (pc : option parent_child_field)
  : res (list tok) :=
  let mem := match pc with Some p => pc_this p | None => fv_member f end in
  let attr := match pc with Some p => Some (AParentChild p (c_kind c)) | None => fv_attr f end in
  let get_field_path (x : member) : list tok :=
    match fv_child f with
    | Some ch => print_member_path ch ++ [dot; member_tok x]
    | None => [member_tok x]
    end in
  let get_child_field_path (x : member) : list tok :=
    match pc with
    | Some p => [member_tok x] ++ pc_sub_toks p ++ [dot; member_tok mem]
    | None => [member_tok x]
    end in
  let obj := if is_variant c then [] else
             if is_from (c_kind c) then [TIdent "value"; dot] else [TIdent "self"; dot] in
  let k := c_kind c in
  let fm := fv_member f in
  match mem, attr with
  | MNamed ident, None =>
      if is_intoish k && hint_su hint then
        Ok (if c_post_init c then [TIdent "obj"; dot; TIdent ident; P1 "="] ++ obj ++ [TIdent ident; semi]
            else [TIdent ident; P1 ":"] ++ obj ++ [TIdent ident; comma])
      else if is_into_existing k && hint_su hint then
        Ok ([TIdent "other"; dot] ++ get_field_path fm ++ [P1 "="] ++ obj ++ [TIdent ident; semi])
      else if is_intoish k && hint_eqb hint HTuple then
        Ok (if c_post_init c then [TIdent "obj"; dot; member_tok (MIndex idx); P1 "="] ++ obj ++ [TIdent ident; semi]
            else obj ++ [TIdent ident; comma])
      else if is_into_existing k && hint_eqb hint HTuple then
        Ok ([TIdent "other"; dot] ++ get_field_path (MIndex idx) ++ [P1 "="] ++ obj ++ [TIdent ident; semi])
      else if is_from k && negb (hint_eqb hint HTuple) then
        if fv_has_parent f then Ok ([TIdent ident; P1 ":"] ++ parent_conv c ++ [comma])
        else Ok ([TIdent ident; P1 ":"] ++ obj ++ get_field_path fm ++ [comma])
      else if is_from k then
        let fp := if is_variant c then get_field_path (MNamed (f_ident (fv_idx f))) else get_field_path (MIndex (fv_idx f)) in
        Ok ([TIdent ident; P1 ":"] ++ obj ++ fp ++ [comma])
      else Ok []   (* Into / IntoExisting with Unit hint *)
  | MIndex index, None =>
      if is_intoish k && hint_tu hint then
        if c_post_init c then Ok ([TIdent "obj"; dot; member_tok (MIndex idx); P1 "="] ++ obj ++ [member_tok (MIndex index); semi])
        else Ok (obj ++ [if is_variant c then TIdent (f_ident index) else member_tok (MIndex index); comma])
      else if is_into_existing k && hint_tu hint then
        Ok ([TIdent "other"; dot] ++ get_field_path (MIndex idx) ++ [P1 "="] ++ obj ++ [member_tok (MIndex index); semi])
      else if is_from k && negb (hint_eqb hint HStruct) then
        if fv_has_parent f then Ok (parent_conv c ++ [comma])
        else
          let fp := if is_variant c then get_field_path (MNamed (f_ident index)) else get_field_path fm in
          Ok (obj ++ fp ++ [comma])
      else if hint_eqb hint HStruct then
        if fv_has_parent f then Ok (parent_conv c ++ [comma]) else Panic "6"
      else Ok []
  | MNamed ident, Some a =>
      if is_intoish k && hint_su hint then
        field_name <- get_field_name_or a fm ;;
        let field_path := get_child_field_path fm in
        right <- get_action_or a (Some field_path) c (obj ++ field_path) ;;
        Ok (if c_post_init c then [TIdent "obj"; dot; member_tok field_name; P1 "="] ++ right ++ [semi]
            else [member_tok field_name; P1 ":"] ++ right ++ [comma])
      else if is_into_existing k && hint_su hint then
        n <- get_field_name_or a fm ;;
        let left := get_field_path n in
        let rfp := get_child_field_path fm in
        right <- get_action_or a (Some rfp) c (obj ++ rfp) ;;
        Ok ([TIdent "other"; dot] ++ left ++ [P1 "="] ++ right ++ [semi])
      else if is_intoish k && hint_eqb hint HTuple then
        let rfp := get_child_field_path fm in
        right <- get_action_or a (Some rfp) c (obj ++ rfp) ;;
        Ok (if c_post_init c then [TIdent "obj"; dot; member_tok (MIndex idx); P1 "="] ++ right ++ [semi] else right ++ [comma])
      else if is_into_existing k && hint_eqb hint HTuple then
        let left := get_field_path (MIndex idx) in
        let rfp := get_child_field_path fm in
        right <- get_action_or a (Some rfp) c (obj ++ rfp) ;;
        Ok ([TIdent "other"; dot] ++ left ++ [P1 "="] ++ right ++ [semi])
      else if is_from k && negb (hint_eqb hint HTuple) then
        right <- get_stuff a obj get_field_path c fm ;;
        let idnt := match pc with Some g => pc_this g | None => fm end in
        Ok ([member_tok idnt; P1 ":"] ++ right ++ [comma])
      else if is_from k then
        let or_ := MNamed (f_ident (fv_idx f)) in
        right <- get_stuff a obj get_field_path c (if is_variant c then or_ else MIndex (fv_idx f)) ;;
        Ok ([TIdent ident; P1 ":"] ++ right ++ [comma])
      else Ok []
  | MIndex index, Some a =>
      if is_intoish k && hint_tu hint then
        let index' := if is_variant c then MNamed (f_ident index) else fm in
        let field_path := get_child_field_path index' in
        right <- get_action_or a (Some field_path) c (obj ++ field_path) ;;
        Ok (if c_post_init c then [TIdent "obj"; dot; member_tok (MIndex idx); P1 "="] ++ right ++ [semi] else right ++ [comma])
      else if is_into_existing k && hint_tu hint then
        n <- get_field_name_or a (MIndex idx) ;;
        let left := get_field_path n in
        let rfp := get_child_field_path fm in
        right <- get_action_or a (Some rfp) c (obj ++ rfp) ;;
        Ok ([TIdent "other"; dot] ++ left ++ [P1 "="] ++ right ++ [semi])
      else if is_intoish k && hint_eqb hint HStruct then
        field_name <- get_ident a ;;
        let field_path := get_child_field_path fm in
        let or_ := if is_variant c then [TIdent (f_ident index)] else field_path in
        right <- get_action_or a (Some or_) c (obj ++ or_) ;;
        Ok (if c_post_init c then [TIdent "obj"; dot; member_tok field_name; P1 "="] ++ right ++ [semi]
            else [member_tok field_name; P1 ":"] ++ right ++ [comma])
      else if is_into_existing k && hint_eqb hint HStruct then
        n <- get_ident a ;;
        let left := get_field_path n in
        let rfp := get_child_field_path fm in
        right <- get_action_or a (Some rfp) c (obj ++ rfp) ;;
        Ok ([TIdent "other"; dot] ++ left ++ [P1 "="] ++ right ++ [semi])
      else if is_from k then
        let or_ := MNamed (f_ident index) in
        right <- get_stuff a obj get_field_path c (if is_variant c then or_ else fm) ;;
        Ok (right ++ [comma])
      else Ok []
  end.

(* ---------------- ghost lines ---------------- *)
Definition render_ghost_line (g : ghost_data) (c : ictx) : res (list tok) :=
  let ch := match gd_path g with Some p => print_member_path p ++ [dot] | None => [] end in
  let right := quote_action (gd_action g) None c in
  match gd_ident g with
  | GDestr _ => Panic "16"
  | GMember m =>
      if is_intoish (c_kind c) then
        (* the assignment-style body a bare #[parent] forces (finding F-17e, repaired in /repo): `obj.<path>.<member> = value;` *)
        if c_post_init c then Ok ([TIdent "obj"; dot] ++ ch ++ [member_tok m; P1 "="] ++ right ++ [semi]) else
        match m with
        | MNamed ident => Ok ([TIdent ident; P1 ":"] ++ right ++ [comma])
        | MIndex _ => Ok (right ++ [comma])
        end
      else if is_into_existing (c_kind c) then
        Ok ([TIdent "other"; dot] ++ ch ++ [member_tok m; P1 "="] ++ right ++ [semi])
      else Panic "7"
  end.

Definition render_enum_ghost_line (g : ghost_data) (c : ictx) : res (list tok) :=
  let right := quote_action (gd_action g) None c in
  match gd_ident g with
  | GMember (MIndex _) => Panic "17"
  | GMember (MNamed ident) =>
      if is_from (c_kind c) then Ok (c_src c ++ colon2 ++ [TIdent ident] ++ fatarrow ++ right ++ [comma]) else Ok []
  | GDestr destr =>
      if is_from (c_kind c) then Ok (c_src c ++ colon2 ++ destr ++ fatarrow ++ right ++ [comma]) else Ok []
  end.

(* ---------------- struct_init_block ---------------- *)
Inductive field_data :=
| FdField (f : fview)
| FdGhost (g : ghost_data)
| FdParentChild (f : fview) (p : parent_child_field).
Record container := { fc_gr : nat; fc_path : string; fc_data : field_data }.

Definition group_of (groups : list string) (path : string) : option nat := position path groups.

(* make_tuple over a list of (path, data); groups are numbered by first appearance *)
Fixpoint assign_groups (items : list (string * field_data)) (groups : list string) (only_new : bool)
  : list container * list string :=
  match items with
  | [] => ([], groups)
  | (p, d) :: r =>
      match group_of groups p with
      | Some g =>
          let '(cs, gs) := assign_groups r groups only_new in
          ((if only_new then [] else [{| fc_gr := g; fc_path := p; fc_data := d |}]) ++ cs, gs)
      | None =>
          let g := List.length groups in
          let '(cs, gs) := assign_groups r (groups ++ [p]) only_new in
          ({| fc_gr := g; fc_path := p; fc_data := d |} :: cs, gs)
      end
  end.

Definition field_items (s : sview) : list (string * field_data) :=
  flat_map (fun f =>
    match fv_pparent f with
    | Some ps => map (fun p => (fv_str f ^^ strip_spaces (toks_to_string (pc_sub_toks p)), FdParentChild f p)) ps
    | None =>
        let path := match fv_child f with Some ch => child_path_last ch | None => fv_str f end in
        [(path, FdField f)]
    end) (sv_fields s).

Definition ghost_items (s : sview) : list (string * field_data) :=
  match sv_ghosts s with
  | Some g => map (fun x => (match gd_path x with Some p => child_path_last p | None => "" end, FdGhost x)) (sg_data g)
  | None => []
  end.

Definition sorted_containers (s : sview) : list container :=
  let '(c1, g1) := assign_groups (field_items s) [""] false in
  let '(c2, g2) := assign_groups (ghost_items s) g1 true in
  let all := c1 ++ c2 in
  flat_map (fun g => filter (fun c => Nat.eqb (fc_gr c) g) all) (seq 0 (List.length g2)).

Definition starts_with (s pre : string) : bool := String.prefix pre s.

Definition child_render := (list tok * type_hint)%type.   (* ChildRenderContext: ty, type_hint *)

Definition find_child_data (cp : option child_parents_attr) (path : string) : option child_parent_data :=
  match cp with
  | Some a => find (fun x => String.eqb (cd_str x) path) (ca_data a)
  | None => None
  end.

Definition nth_str (l : list string) (n : nat) : res string :=
  match nth_error l n with Some s => Ok s | None => Panic "child_path_str-index" end.

Definition wrap_struct (c : ictx) (hint : type_hint) (named : bool) (frags : list tok) : res (list tok) :=
  if c_post_init c || is_into_existing (c_kind c) then Ok frags else
  if is_from (c_kind c) then Ok [if named then brace frags else paren frags] else
  match hint with
  | HStruct => Ok [brace frags]
  | HTuple => Ok [paren frags]
  | HUnspecified => Ok [if named then brace frags else paren frags]
  | HUnit => Panic "2"
  end.

(* field_ctx: (child path, optional ChildRenderContext, depth) *)
Definition fctx := (list member * option child_render * nat)%type.

Section Inner.
  Variable s : sview.     (* the struct (or variant struct) whose ghosts / child_parents are consulted *)
  Variable c : ictx.

  (* the `while let Some(member) = members.peek()` loop of struct_init_block_inner, with the three
     recursive callees abstracted (it calls them only for members with a child path / nested parent) *)
  Section Loop.
    Variable fc : option fctx.
    Variable hint : type_hint.
    Variable child_frag : list member -> list container -> res (list tok) -> res (list tok * list container).
    Variable ghost_frag : list member -> list container -> res (list tok * list container).
    Variable pc_frag : fview -> parent_child_field -> list container -> res (list tok) -> res (list tok * list container).

    Fixpoint member_loop (n : nat) (members : list container) (idx : nat) (acc : list tok) {struct n}
      : res (list tok * list container) :=
      match n with
      | 0 => Oom "fuel"
      | S n' =>
          match members with
          | [] => Ok (acc, [])
          | m :: rest =>
              brk <- (match fc with
                      | Some (cp, _, depth) =>
                          p <- nth_str (child_path_strs cp) depth ;;
                          Ok (negb (String.eqb (fc_path m) p) && negb (starts_with (fc_path m) (p ^^ ".")))
                      | None => Ok false
                      end) ;;
              if (brk : bool) then Ok (acc, members) else
              match fc_data m with
              | FdField f =>
                  if negb (is_from (c_kind c)) && (is_some (fv_ghost f) || fv_has_parent f) then member_loop n' rest idx acc
                  else if is_from (c_kind c) && match fv_ghost f with Some g => negb (is_some (fg_action g)) | None => false end
                  then member_loop n' rest idx acc
                  else
                    '(frag, rest') <-
                      (match fv_child f with
                       | Some ch => child_frag ch members (render_struct_line f c hint idx None)
                       | None => line <- render_struct_line f c hint idx None ;; Ok (line, rest)
                       end) ;;
                    member_loop n' rest' (S idx) (acc ++ frag)
              | FdGhost g =>
                  match gd_path g with
                  | None => Panic "ghost-child-path-unwrap"
                  | Some cp =>
                      '(frag, rest') <- ghost_frag cp members ;;
                      member_loop n' rest' (S idx) (acc ++ frag)
                  end
              | FdParentChild f p =>
                  let hint' := if hint_eqb hint HUnspecified then (if c_named c then HStruct else HTuple) else hint in
                  '(frag, rest') <- pc_frag f p members (render_struct_line f c hint' idx (Some p)) ;;
                  member_loop n' rest' (S idx) (acc ++ frag)
              end
          end
      end.
  End Loop.

  (* struct_init_block_inner; returns the tokens and the members not consumed *)
  Fixpoint init_inner (fuel : nat) (members : list container) (named : bool) (fc : option fctx)
    {struct fuel} : res (list tok * list container) :=
    match fuel with
    | 0 => Oom "fuel"
    | S fuel' =>
        let hint0 := c_hint c in
        let hint := match fc with Some (_, Some (_, h), _) => h | _ => hint0 end in
        let depth_opt := option_map (fun x => snd x) fc in
        (* the while loop *)
        '(frags, rest) <-
          member_loop fc hint
            (fun ch ms line => child_fragment fuel' ch ms depth_opt hint line)
            (fun cp ms => child_fragment fuel' cp ms depth_opt hint (Ok []))
            (fun f p ms line => parent_child_fragment fuel' f p ms (pcf_named p) depth_opt line)
            (S (List.length members)) members 0 [] ;;
        ghosts <-
          (if negb (is_from (c_kind c)) then
             match sv_ghosts s with
             | Some ga =>
                 mapM (fun x =>
                   match gd_path x, fc with
                   | Some gp, Some (cp, _, depth) =>
                       p <- nth_str (child_path_strs cp) depth ;;
                       if String.eqb (child_path_last gp) p then render_ghost_line x c else Ok []
                   | None, None => render_ghost_line x c
                   | _, _ => Ok []
                   end) (sg_data ga)
             | None => Ok []
             end
           else Ok []) ;;
        let upd := match tc_update (c_core c) with
                   | Some u => dotdot ++ quote_action u None c
                   | None => []
                   end in
        toks <- wrap_struct c hint named (frags ++ List.concat ghosts ++ upd) ;;
        Ok (toks, rest)
    end
  (* render_child_fragment; `line` is the (eagerly computed) result of render_line() *)
  with child_fragment (fuel : nat) (cp : list member) (members : list container) (depth : option nat)
         (hint : type_hint) (line : res (list tok)) {struct fuel} : res (list tok * list container) :=
    match fuel with
    | 0 => Oom "fuel"
    | S fuel' =>
        let len := List.length (child_path_strs cp) in
        let descend := match depth with None => true | Some d => Nat.ltb d (len - 1) end in
        if descend then
          let new_depth := match depth with None => 0 | Some d => S d end in
          if is_intoish (c_kind c) then
            match sv_child_parents s with
            | None => Panic "child_parents-unwrap"
            | Some cpa =>
                p <- nth_str (child_path_strs cp) new_depth ;;
                match find (fun x => String.eqb (cd_str x) p) (ca_data cpa) with
                | None => Panic "child_data-unwrap"
                | Some cd => render_child fuel' (cd_ty cd, cd_hint cd) members (c_named c) cp new_depth hint
                end
            end
          else if is_into_existing (c_kind c) then
            p <- nth_str (child_path_strs cp) new_depth ;;
            let cd := find_child_data (sv_child_parents s) p in
            init_inner fuel' members (c_named c) (Some (cp, option_map (fun x => (cd_ty x, cd_hint x)) cd, new_depth))
          else
            l <- line ;; Ok (l, tl members)
        else l <- line ;; Ok (l, tl members)
    end
  (* render_child *)
  with render_child (fuel : nat) (cd : child_render) (members : list container) (named : bool)
         (cp : list member) (depth : nat) (hint : type_hint) {struct fuel} : res (list tok * list container) :=
    match fuel with
    | 0 => Oom "fuel"
    | S fuel' =>
        match nth_error cp depth with
        | None => Panic "child_path-index"
        | Some name =>
            '(init, rest) <- init_inner fuel' members named (Some (cp, Some cd, depth)) ;;
            let with_name := [member_tok name; P1 ":"] ++ fst cd ++ init ++ [comma] in
            let without := fst cd ++ init ++ [comma] in
            match c_named c, hint with
            | true, (HStruct | HUnspecified) => Ok (with_name, rest)
            | true, HTuple => Ok (without, rest)
            | false, (HTuple | HUnspecified) => Ok (without, rest)
            | false, HStruct => Ok (with_name, rest)
            | _, HUnit => Panic "15"
            end
        end
    end
  (* render_parent_child_fragment *)
  with parent_child_fragment (fuel : nat) (f : fview) (p : parent_child_field) (members : list container)
         (named : bool) (depth : option nat) (line : res (list tok)) {struct fuel} : res (list tok * list container) :=
    match fuel with
    | 0 => Oom "fuel"
    | S fuel' =>
        let descend := match depth with None => true | Some d => Nat.ltb d (List.length (pc_sub p)) end in
        if descend then
          let new_depth := match depth with None => 0 | Some d => S d end in
          if is_from (c_kind c) then
            ty <- (match depth with
                   | Some d => match nth_error (pc_sub p) d with
                               | Some (_, Some t) => Ok t
                               | Some (_, None) => Panic "sub_path-type-unwrap"
                               | None => Panic "sub_path-index"
                               end
                   | None => match fv_ty f with Some t => Ok t | None => Panic "field-ty-unwrap" end
                   end) ;;
            let cp := fv_member f :: map fst (pc_sub p) in
            render_child fuel' (ty, c_hint c) members named cp new_depth (if c_named c then HStruct else HTuple)
          else l <- line ;; Ok (l, tl members)
        else l <- line ;; Ok (l, tl members)
    end.
End Inner.

Definition max_path_len (cs : list container) : nat :=
  fold_right (fun c acc => Nat.max (String.length (fc_path c)) acc) 0 cs.

Definition struct_init_block (s : sview) (c : ictx) : res (list tok) :=
  if (negb (is_from (c_kind c)) && hint_eqb (c_hint c) HUnit) || (is_from (c_kind c) && sv_unit s) then Ok [] else
  let cs := sorted_containers s in
  let fuel := 4 * (List.length cs + 2) * (max_path_len cs + 2) in
  '(toks, _) <- init_inner s c fuel cs (sv_named s) None ;;
  Ok toks.

(* ---------------- enums ---------------- *)
Definition variant_destruct_block (s : sview) (c : ictx) : res (list tok) :=
  let k := c_kind c in
  let live := filter (fun x => negb (is_from k) || negb (is_some (fv_ghost x))) (sv_fields s) in
  let struct_form := (sv_named s && negb (is_from k)) ||
                     (sv_named s && hint_su (c_hint c)) ||
                     (negb (sv_named s) && is_from k && hint_eqb (c_hint c) HStruct) in
  '(idents, th) <-
    (if struct_form then
       ids <- mapM (fun x =>
                if negb (is_from k) then Ok [member_tok (fv_member x); comma] else
                match fv_attr x with
                | None => Ok [member_tok (fv_member x); comma]
                | Some a => n <- get_field_name_or a (fv_member x) ;; Ok [member_tok n; comma]
                end) live ;;
       Ok (List.concat ids, HStruct)
     else if is_from k && hint_eqb (c_hint c) HUnit then Ok ([], HUnit)
     else Ok (flat_map (fun x => [TIdent (f_ident (fv_idx x)); comma]) live, HTuple)) ;;
  ghost_ids <-
    (if is_from k then
       match sv_ghosts s with
       | Some g =>
           mapM (fun x =>
             match gd_ident x with
             | GMember (MNamed i) => Ok [TIdent i; comma]
             | GMember (MIndex n) => Ok [TIdent (f_ident n); comma]
             | GDestr _ => Panic "16"
             end) (sg_data g)
       | None => Ok []
       end
     else Ok []) ;;
  let all := idents ++ List.concat ghost_ids in
  match th with
  | HStruct => Ok [brace all]
  | HTuple => Ok [paren all]
  | HUnit => Ok []
  | HUnspecified => Panic "4"
  end.

Definition render_enum_line (v : vview) (c : ictx) : res (list tok) :=
  let src := c_src c in
  let dst := c_dst c in
  let ident := vv_ident v in
  let hint := match vv_hint v with Some h => th_hint h | None => HUnspecified end in
  let s := vv_struct v in
  let nc := {| c_kind := c_kind c; c_fallible := c_fallible c; c_core := c_core c; c_hint := hint;
               c_impl_type := ITVariant; c_dst := c_dst c; c_src := c_src c; c_post_init := c_post_init c;
               c_named := sv_named s |} in
  let k := c_kind c in
  let empty_fields := is_empty_list (sv_fields s) in
  destr <-
    (if empty_fields && (negb (is_from k) || hint_maybe hint HUnit) then Ok []
     else if empty_fields && is_from k && hint_eqb hint HTuple then Ok [paren dotdot]
     else if empty_fields && is_from k && hint_eqb hint HStruct then Ok [brace dotdot]
     else variant_destruct_block s nc) ;;
  init <-
    (if match vv_attr v with Some a => has_action a | None => false end || (empty_fields && hint_maybe hint HUnit)
     then Ok []
     else struct_init_block s nc) ;;
  let src_v := src ++ colon2 ++ [TIdent ident] in
  let dst_v := dst ++ colon2 ++ [TIdent ident] in
  match vv_attr v, vv_lit v, vv_pat v with
  | None, None, None => Ok (src_v ++ destr ++ fatarrow ++ dst_v ++ init ++ [comma])
  | Some a, None, None =>
      if is_from k then
        right <- get_action_or a (Some [TIdent ident]) c (dst_v ++ init) ;;
        ident2 <- get_field_name_or a (MNamed ident) ;;
        Ok (src ++ colon2 ++ [member_tok ident2] ++ destr ++ fatarrow ++ right ++ [comma])
      else if is_intoish k then
        right <- get_stuff a (dst ++ colon2) (fun x => member_tok x :: init) c (MNamed ident) ;;
        Ok (src_v ++ destr ++ fatarrow ++ right ++ [comma])
      else Panic "todo"
  | None, Some lit, None =>
      if is_from k then Ok (lp_toks lit ++ fatarrow ++ dst_v ++ init ++ [comma])
      else if is_intoish k then Ok (src_v ++ destr ++ fatarrow ++ lp_toks lit ++ [comma])
      else Panic "todo"
  | None, None, Some pat =>
      if is_from k then Ok (lp_toks pat ++ fatarrow ++ dst_v ++ init ++ [comma]) else Panic "todo"
  | Some a, None, Some _ =>
      if is_intoish k then
        right <- get_action_or a None c [] ;;
        Ok (src_v ++ destr ++ fatarrow ++ right ++ [comma])
      else Panic "todo"
  | _, _, _ => Panic "todo"
  end.

Definition enum_init_block (vs : list vview) (ghosts : option ghosts_core) (c : ictx) : res (list tok) :=
  let k := c_kind c in
  vfrags <- mapM (fun v =>
              if is_from k && is_some (vv_ghost v) then Ok []
              else if negb (is_from k) && match vv_ghost v with Some g => negb (is_some (fg_action g)) | None => false end
              then Ok []
              else render_enum_line v c) vs ;;
  gfrags <- (match ghosts with
             | Some g => mapM (fun x => render_enum_ghost_line x c) (sg_data g)
             | None => Ok []
             end) ;;
  let dflt :=
    match tc_default (c_core c) with
    | Some dc =>
        if (is_from k && (existsb (fun v => is_some (vv_lit v) || is_some (vv_pat v)) vs || is_some ghosts))
           || (negb (is_from k) && existsb (fun v => is_some (vv_ghost v)) vs)
        then TIdent "_" :: quote_action dc None c else []
    | None => []
    end in
  Ok [brace (List.concat vfrags ++ List.concat gfrags ++ dflt)].

(* ---------------- main code blocks ---------------- *)
Definition struct_main_code_block (s : sview) (c : ictx) : res (list tok) :=
  init <- struct_init_block s c ;;
  if is_from (c_kind c) then Ok (c_dst c ++ init)
  else if is_intoish (c_kind c) then
    Ok ((if tp_nameless (c_ty c) || c_post_init c then [] else c_dst c) ++ init)
  else Ok init.

Definition enum_main_code_block (vs : list vview) (ghosts : option ghosts_core) (c : ictx) : res (list tok) :=
  init <- enum_init_block vs ghosts c ;;
  if is_from (c_kind c) then Ok ([TIdent "match"; TIdent "value"] ++ init)
  else if is_intoish (c_kind c) then Ok ([TIdent "match"; TIdent "self"] ++ init)
  else Ok init.

Definition data_main_code_block (d : dview) (c : ictx) : res (list tok) :=
  match d with
  | VStruct s => struct_main_code_block s c
  | VEnum vs g => enum_main_code_block vs g c
  end.

Definition quick_return_block (qr : list tok) (c : ictx) : list tok :=
  if is_into_existing (c_kind c)
  then [P1 "*"; TIdent "other"; P1 "="] ++ quote_action qr None c ++ [semi]
  else quote_action qr None c.

Definition main_code_block (d : dview) (c : ictx) : res (list tok) :=
  match tc_qret (c_core c) with
  | Some qr => Ok (quick_return_block qr c)
  | None => data_main_code_block d c
  end.

Definition main_code_block_ok (d : dview) (c : ictx) : res (list tok) :=
  match tc_qret (c_core c) with
  | Some qr => Ok (quick_return_block qr c)
  | None =>
      inner <- data_main_code_block d c ;;
      if c_post_init c then Ok inner else Ok [TIdent "Ok"; paren inner]
  end.

Definition struct_pre_init (c : ictx) : option (list tok) :=
  match tc_init (c_core c) with
  | Some l => Some (flat_map (fun x => [TIdent "let"; TIdent (id_ident x); P1 "="] ++ quote_action (id_action x) None c ++ [semi]) l)
  | None => None
  end.

(* ---------------- skeleton instantiation ---------------- *)
Definition env := list (string * list tok).
Fixpoint inst_stok (e : env) (t : stok) : list tok :=
  match t with
  | SI s => [TIdent s]
  | SP ch j => [TPunct ch j]
  | SL s => [TLit s]
  | SH h => match assoc_str h e with Some ts => ts | None => [] end
  | SG d l => [TGroup d ((fix go (l : list stok) : list tok :=
                            match l with [] => [] | x :: r => inst_stok e x ++ go r end) l)]
  end.
Definition inst (e : env) (l : list stok) : list tok := flat_map (inst_stok e) l.

Definition render_parent (f : fview) (c : ictx) : res (list tok) :=
  match find (fun e => String.eqb (fst (fst e)) (kind_name (c_kind c)) && Bool.eqb (snd (fst e)) (c_fallible c)) sk_render_parent with
  | Some e => Ok (inst [("member", [member_tok (fv_member f)])] (snd e))
  | None => Panic "5"
  end.

Definition struct_post_init (d : dview) (c : ictx) : res (option (list tok)) :=
  if is_from (c_kind c) then Ok None else
  frags <-
    (match d with
     | VStruct s => mapM (fun f => if fv_has_pl_parent f then render_parent f c else Ok []) (sv_fields s)
     | VEnum vs _ => mapM (fun v => if vv_has_pl_parent v then Panic "todo-variant-parent" else Ok []) vs
     end) ;;
  if forallb is_empty_list frags then Ok None else Ok (Some (List.concat frags)).

(* ---------------- generics (get_quote_trait_params) ---------------- *)
Definition gp_is_lt (g : gparam) := match gp_k g with GPLt => true | _ => false end.

(* Punctuated::push: the previous last element gets a comma *)
Definition push_param (l : list gparam) (g : gparam) : list gparam :=
  map (fun x => {| gp_k := gp_k x; gp_name := gp_name x; gp_punct := true; gp_decl := gp_decl x |}) l ++ [g].

(* ImplGenerics::to_tokens *)
Fixpoint print_impl_lts (l : list gparam) (trailing : bool) : list tok * bool :=
  match l with
  | [] => ([], trailing)
  | g :: r =>
      if gp_is_lt g then
        let '(ts, tr) := print_impl_lts r (gp_punct g) in
        (gp_decl g ++ (if gp_punct g then [comma] else []) ++ ts, tr)
      else print_impl_lts r trailing
  end.
Fixpoint print_impl_others (l : list gparam) (trailing : bool) : list tok :=
  match l with
  | [] => []
  | g :: r =>
      if gp_is_lt g then print_impl_others r trailing
      else (if trailing then [] else [comma]) ++ gp_decl g ++ (if gp_punct g then [comma] else [])
             ++ print_impl_others r (gp_punct g)
  end.
Definition print_impl_generics (l : list gparam) : list tok :=
  match l with
  | [] => []
  | _ => let '(lts, tr) := print_impl_lts l true in
         [P1 "<"] ++ lts ++ print_impl_others l tr ++ [P1 ">"]
  end.
(* TypeGenerics::to_tokens: names only *)
Definition gp_name_toks (g : gparam) : list tok :=
  match gp_k g with GPLt => lifetime (gp_name g) | _ => [TIdent (gp_name g)] end.
Fixpoint print_ty_lts (l : list gparam) (trailing : bool) : list tok * bool :=
  match l with
  | [] => ([], trailing)
  | g :: r =>
      if gp_is_lt g then
        let '(ts, tr) := print_ty_lts r (gp_punct g) in
        (gp_name_toks g ++ (if gp_punct g then [comma] else []) ++ ts, tr)
      else print_ty_lts r trailing
  end.
Fixpoint print_ty_others (l : list gparam) (trailing : bool) : list tok :=
  match l with
  | [] => []
  | g :: r =>
      if gp_is_lt g then print_ty_others r trailing
      else (if trailing then [] else [comma]) ++ gp_name_toks g ++ (if gp_punct g then [comma] else [])
             ++ print_ty_others r (gp_punct g)
  end.
Definition print_type_generics (l : list gparam) : list tok :=
  match l with
  | [] => []
  | _ => let '(lts, tr) := print_ty_lts l true in
         [P1 "<"] ++ lts ++ print_ty_others l tr ++ [P1 ">"]
  end.

Definition angle_lts (a : option angle) : list string :=
  match a with
  | Some g => flat_map (fun x => match fst x with GLt n => [n] | _ => [] end) (a_args g)
  | None => []
  end.

Fixpoint join_plus (l : list string) : list tok :=
  match l with
  | [] => []
  | [x] => lifetime x
  | x :: r => lifetime x ++ [P1 "+"] ++ join_plus r
  end.

Fixpoint add_missing_lts (gens : list gparam) (lts : list string) : list gparam :=
  match lts with
  | [] => gens
  | lt :: r =>
      let missing := forallb (fun g => if gp_is_lt g then negb (String.eqb (gp_name g) lt) else true) gens in
      add_missing_lts (if missing then push_param gens {| gp_k := GPLt; gp_name := lt; gp_punct := false; gp_decl := lifetime lt |}
                       else gens) r
  end.

Definition print_where (w : option where_attr) : list tok :=
  match w with
  | Some a =>
      TIdent "where" ::
      (fix go (l : list (list tok)) : list tok :=
         match l with [] => [] | [p] => p | p :: r => p ++ [comma] ++ go r end) (wa_preds a)
  | None => []
  end.

(* `where #own, #instr`: the item's own predicates first, then those of the applicable #[where_clause] *)
Fixpoint join_preds (l : list (list tok)) : list tok :=
  match l with [] => [] | [p] => p | p :: r => p ++ [comma] ++ join_preds r end.
Definition print_where_all (own : list (list tok)) (w : option where_attr) : list tok :=
  match own, w with
  | [], _ => print_where w
  | _, None => TIdent "where" :: join_preds own
  | _, Some a => TIdent "where" :: join_preds own ++ [comma] ++ join_preds (wa_preds a)
  end.

Definition declarable_lts (l : list string) : list string :=
  filter (fun x => negb (String.eqb x "static") && negb (String.eqb x "_")) l.

Definition trait_env (t : tview) (c : ictx) : env :=
  let these_lts := flat_map (fun g => if gp_is_lt g then [gp_name g] else []) (tv_generics t) in
  (* 'static and '_ are not lifetime parameters: they are neither declared nor bound (finding F-11d, repaired in /repo) *)
  let those_lts := declarable_lts (angle_lts (tp_generics (c_ty c))) in
  let ref_lts := if is_ref (c_kind c) then (if is_from (c_kind c) then these_lts else those_lts) else [] in
  let gens1 := add_missing_lts (tv_generics t) those_lts in
  let gens2 := match ref_lts with
               | [] => gens1
               | _ => push_param gens1 {| gp_k := GPLt; gp_name := "o2o"; gp_punct := false;
                                          gp_decl := lifetime "o2o" ++ [P1 ":"] ++ join_plus ref_lts |}
               end in
  [("attr", match tc_attr (c_core c) with Some a => a | None => [] end);
   ("impl_attr", match tc_impl_attr (c_core c) with Some a => a | None => [] end);
   ("inner_attr", match tc_inner_attr (c_core c) with Some a => a | None => [] end);
   ("dst", c_dst c); ("src", c_src c);
   ("these_gens", print_type_generics (tv_generics t));
   ("those_gens", match tp_generics (c_ty c) with Some a => print_angle a | None => [] end);
   ("impl_gens", print_impl_generics gens2);
   ("where_clause", print_where_all (tv_own_where t) (tv_where t));
   ("r", if is_ref (c_kind c) then (match ref_lts with [] => [P1 "&"] | _ => P1 "&" :: lifetime "o2o" end) else [])].

Definition err_env (c : ictx) : res env :=
  match tc_err (c_core c) with
  | Some e => Ok [("err_ty", tp_path e); ("err_gens", match tp_generics e with Some a => print_angle a | None => [] end)]
  | None => Panic "err_ty-unwrap"
  end.

Definition opt_toks (o : option (list tok)) : list tok := match o with Some x => x | None => [] end.

(* quote_trait *)
Definition quote_trait (t : tview) (c0 : ictx) : res (list tok) :=
  let pre_init := struct_pre_init c0 in
  (* `return expr` replaces the whole body: no post-init statements either (finding F-08b / F-17b, repaired in /repo) *)
  post_init <- (if is_some (tc_qret (c_core c0)) then Ok None else struct_post_init (tv_data t) c0) ;;
  let c := {| c_kind := c_kind c0; c_fallible := c_fallible c0; c_core := c_core c0; c_hint := c_hint c0;
              c_impl_type := c_impl_type c0; c_dst := c_dst c0; c_src := c_src c0;
              c_post_init := is_some post_init; c_named := c_named c0 |} in
  let base := trait_env t c in
  let k := c_kind c in
  if is_from k then
    if c_fallible c then
      init <- main_code_block_ok (tv_data t) c ;;
      ee <- err_env c ;;
      Ok (inst (("pre_init", opt_toks pre_init) :: ("init", init) :: ee ++ base) sk_try_from)
    else
      init <- main_code_block (tv_data t) c ;;
      Ok (inst (("pre_init", opt_toks pre_init) :: ("init", init) :: base) sk_from)
  else if is_intoish k then
    if c_fallible c then
      init <- main_code_block_ok (tv_data t) c ;;
      ee <- err_env c ;;
      let e1 := ("pre_init", opt_toks pre_init) :: ("init", init) :: ("post_init", opt_toks post_init) :: ee ++ base in
      let body := match post_init with Some _ => inst e1 sk_try_into_body_post | None => inst e1 sk_try_into_body_plain end in
      Ok (inst (("body", body) :: e1) sk_try_into)
    else
      init <- main_code_block (tv_data t) c ;;
      let e1 := ("pre_init", opt_toks pre_init) :: ("init", init) :: ("post_init", opt_toks post_init) :: base in
      let body := match post_init with Some _ => inst e1 sk_into_body_post | None => inst e1 sk_into_body_plain end in
      Ok (inst (("body", body) :: e1) sk_into)
  else
    init <- main_code_block (tv_data t) c ;;
    if c_fallible c then
      ee <- err_env c ;;
      Ok (inst (("pre_init", opt_toks pre_init) :: ("init", init) :: ("post_init", opt_toks post_init) :: ee ++ base)
               sk_try_into_existing)
    else
      Ok (inst (("pre_init", opt_toks pre_init) :: ("init", init) :: ("post_init", opt_toks post_init) :: base)
               sk_into_existing).

(* data_type_impl: the twelve flavours in the order of expand.rs 98-182 *)
Definition flavours_expand_order : list (kind * bool) :=
  [(FromOwned, false); (FromOwned, true); (FromRef, false); (FromRef, true);
   (OwnedInto, false); (OwnedInto, true); (RefInto, false); (RefInto, true);
   (OwnedIntoExisting, false); (OwnedIntoExisting, true); (RefIntoExisting, false); (RefIntoExisting, true)].

Definition impl_contexts (d : data_type) : list ictx :=
  let ty := [TIdent (dt_ident d)] in
  let it := match d with DStruct _ => ITStruct | DEnum _ => ITEnum end in
  let named := match d with DStruct s => s_named s | DEnum _ => false end in
  flat_map (fun kf =>
    map (fun a =>
      let core := ta_core a in
      {| c_kind := fst kf; c_fallible := snd kf; c_core := core; c_hint := tc_hint core; c_impl_type := it;
         c_dst := if is_from (fst kf) then ty else tp_path (tc_ty core);
         c_src := if is_from (fst kf) then tp_path (tc_ty core) else ty;
         c_post_init := false; c_named := named |})
      (iter_for_kind (dt_get_attrs d) (fst kf) (snd kf))) flavours_expand_order.

Definition expand_impl (d : data_type) (c : ictx) : res (list tok) :=
  quote_trait (view_type (c_kind c) (c_fallible c) (c_ty c) d) c.

Definition data_type_impl (d : data_type) : res (list tok) :=
  impls <- mapM (expand_impl d) (impl_contexts d) ;;
  Ok (List.concat impls).
