(* L1 + L2: o2o's attribute grammar (every `impl Parse` of attr.rs) and the classification of
   instructions (driven by the regenerated tables of Gen/Tables.v). *)
From Coq Require Import List String Ascii Bool Arith.
From O2o.Model Require Import Tok Syn.
From O2o.Gen Require Import Tables.
Import ListNotations.
Open Scope string_scope.
Open Scope list_scope.

(* ---------------- raw input (what syn hands to o2o) ---------------- *)
Record raw_attr := { ra_path : option string; ra_toks : list tok }.
Inductive shape := ShNamed | ShTuple | ShUnit.
Record raw_field := { rf_member : member; rf_typath : option (list tok); rf_ty : list tok; rf_attrs : list raw_attr }.
Record raw_variant := { rv_ident : string; rv_shape : shape; rv_attrs : list raw_attr; rv_fields : list raw_field }.
Inductive gp_kind := GPLt | GPTy | GPConst.
Record gparam := { gp_k : gp_kind; gp_name : string; gp_punct : bool; gp_decl : list tok }.
Inductive raw_data := RStruct (sh : shape) (fs : list raw_field) | REnum (vs : list raw_variant) | RUnion.
Record raw_input := { ri_ident : string; ri_generics : list gparam; ri_where : list (list tok); ri_attrs : list raw_attr; ri_data : raw_data }.

(* ---------------- kinds and applicability ---------------- *)
Inductive kind := OwnedInto | RefInto | FromOwned | FromRef | OwnedIntoExisting | RefIntoExisting.

Definition kind_eqb (a b : kind) : bool :=
  match a, b with
  | OwnedInto, OwnedInto | RefInto, RefInto | FromOwned, FromOwned | FromRef, FromRef
  | OwnedIntoExisting, OwnedIntoExisting | RefIntoExisting, RefIntoExisting => true
  | _, _ => false
  end.
Definition kind_name (k : kind) : string :=
  match k with
  | OwnedInto => "OwnedInto" | RefInto => "RefInto" | FromOwned => "FromOwned" | FromRef => "FromRef"
  | OwnedIntoExisting => "OwnedIntoExisting" | RefIntoExisting => "RefIntoExisting"
  end.
Definition is_ref (k : kind) := match k with FromRef | RefInto | RefIntoExisting => true | _ => false end.
Definition is_from (k : kind) := match k with FromOwned | FromRef => true | _ => false end.
Definition is_into_existing (k : kind) := match k with OwnedIntoExisting | RefIntoExisting => true | _ => false end.

Definition all_kinds : list kind := [OwnedInto; RefInto; FromOwned; FromRef; OwnedIntoExisting; RefIntoExisting].

(* ApplicableTo = [bool; 6], indexed through the (regenerated) Index<&Kind> table *)
Definition appl := list bool.
Fixpoint assoc_str {A} (k : string) (l : list (string * A)) : option A :=
  match l with
  | [] => None
  | (k', v) :: r => if String.eqb k k' then Some v else assoc_str k r
  end.
Definition slot_of (k : kind) : nat :=
  match assoc_str (kind_name k) kind_slot with Some n => n | None => 6 end.
Definition appl_get (a : appl) (k : kind) : bool := nth (slot_of k) a false.
Definition appl_eqb (a b : appl) : bool :=
  (fix go (x y : list bool) : bool :=
     match x, y with
     | [], [] => true
     | p :: x', q :: y' => Bool.eqb p q && go x' y'
     | _, _ => false
     end) a b.

Definition appl_fn (fname instr : string) : bool :=
  match assoc_str fname appl_fns with Some l => str_in instr l | None => false end.
Definition appl_of_slots (slots : list string) (instr : string) : appl :=
  map (fun f => appl_fn f instr) slots.

(* ---------------- parsed attribute structures ---------------- *)
Inductive type_hint := HUnit | HStruct | HTuple | HUnspecified.
Definition hint_eqb (a b : type_hint) : bool :=
  match a, b with
  | HUnit, HUnit | HStruct, HStruct | HTuple, HTuple | HUnspecified, HUnspecified => true
  | _, _ => false
  end.
Definition hint_maybe (h m : type_hint) : bool := hint_eqb h m || hint_eqb h HUnspecified.

Record type_path := { tp_path : list tok; tp_str : string; tp_generics : option angle; tp_nameless : bool }.
Definition tp_eqb (a b : type_path) : bool := String.eqb (tp_str a) (tp_str b).

Definition type_path_of_path (p : path) : type_path :=
  let '(segs', a) := strip_last_args (p_segs p) in
  match a with
  | Some g => {| tp_path := print_path {| p_lead := p_lead p; p_segs := segs' |};
                 tp_str := toks_to_string (print_path p); tp_generics := Some g; tp_nameless := false |}
  | None => {| tp_path := print_path p; tp_str := toks_to_string (print_path p);
               tp_generics := None; tp_nameless := false |}
  end.
Definition type_path_of_tuple (content : list tok) : type_path :=
  {| tp_path := [paren content]; tp_str := toks_to_string [paren content];
     tp_generics := None; tp_nameless := true |}.

Record init_data := { id_ident : string; id_action : list tok }.

Record trait_core := {
  tc_ty : type_path; tc_err : option type_path; tc_hint : type_hint;
  tc_init : option (list init_data); tc_update : option (list tok);
  tc_qret : option (list tok); tc_default : option (list tok);
  tc_repeat : option (list bool); tc_skip : bool; tc_stop : bool;
  tc_attr : option (list tok); tc_impl_attr : option (list tok); tc_inner_attr : option (list tok) }.
Record trait_attr := { ta_core : trait_core; ta_fallible : bool; ta_appl : appl }.

Inductive ghost_ident := GMember (m : member) | GDestr (ts : list tok).
Record ghost_data := { gd_path : option (list member); gd_ident : ghost_ident; gd_action : list tok }.
Record ghosts_core := { sg_ty : option type_path; sg_data : list ghost_data }.
Record ghosts_attr := { ga_core : ghosts_core; ga_appl : appl }.
Record where_attr := { wa_ty : option type_path; wa_preds : list (list tok) }.
Record child_parent_data := { cd_ty : list tok; cd_hint : type_hint; cd_path : list member; cd_str : string }.
Record child_parents_attr := { ca_ty : option type_path; ca_data : list child_parent_data }.
Record member_core := { mc_ty : option type_path; mc_member : option member; mc_action : option (list tok) }.
Record member_attr := { ma_core : member_core; ma_fallible : bool; ma_instr : string; ma_appl : appl }.
Record pcf_attr := { pf_member : option member; pf_action : option (list tok); pf_appl : appl }.
Record parent_child_field := {
  pc_this : member; pc_attrs : list pcf_attr;
  pc_sub : list (member * option (list tok)); pc_sub_toks : list tok }.
Record parent_attr := { pa_ty : option type_path; pa_children : option (list parent_child_field) }.
Record fghost_core := { fg_ty : option type_path; fg_action : option (list tok) }.
Record ghost_attr := { gh_core : fghost_core; gh_appl : appl }.
Record child_attr := { ch_ty : option type_path; ch_path : list member }.
Record as_attr := { as_ty : option type_path; as_member : option member; as_toks : list tok }.
Record lit_attr := { lp_ty : option type_path; lp_toks : list tok }.
Record hint_attr := { th_ty : option type_path; th_hint : type_hint }.
Record mrepeat_attr := { mr_permeate : bool; mr_for : list bool }.

Inductive dt_instr :=
| DMap (a : trait_attr) | DGhosts (a : ghosts_attr) | DWhere (a : where_attr)
| DChildParents (a : child_parents_attr) | DAllowUnknown
| DMisplaced (instr : string) (own : bool) | DMisnamed (instr guess : string) (own : bool)
| DUnrecErr (instr : string) | DUnrec.

Inductive mb_instr :=
| MMap (a : member_attr) | MGhost (a : ghost_attr) | MGhosts (a : ghosts_attr) | MChild (a : child_attr)
| MParent (a : parent_attr) | MAs (a : as_attr) | MLit (a : lit_attr) | MPat (a : lit_attr)
| MTypeHint (a : hint_attr) | MRepeat (a : mrepeat_attr) | MSkipRepeat | MStopRepeat
| MMisplaced (instr : string) (own : bool) | MMisnamed (instr guess : string) (own : bool)
| MUnrecErr (instr : string) | MUnrec.

(* build_child_path_str: ["a"; "a.b"; "a.b.c"] *)
Fixpoint child_path_strs_aux (prefix : string) (first : bool) (l : list member) : list string :=
  match l with
  | [] => []
  | m :: r =>
      let s := if first then member_str m else prefix ^^ "." ^^ member_str m in
      s :: child_path_strs_aux s false r
  end.
Definition child_path_strs (l : list member) : list string := child_path_strs_aux "" true l.
Definition last_str (l : list string) : string := last l "".
(* ChildPath::get_child_path_str(None) *)
Definition child_path_last (l : list member) : string := last_str (child_path_strs l).
(* Punctuated<Member, Token![.]>::to_token_stream *)
Fixpoint print_member_path (l : list member) : list tok :=
  match l with
  | [] => []
  | [m] => [member_tok m]
  | m :: r => member_tok m :: dot :: print_member_path r
  end.

Section Parsers.
  Variable be : backend.

  (* a group was entered and its buffer must be fully consumed (syn reports the leftover when the
     buffer is dropped; the wording is the library's) *)
  Definition all_consumed {A} (r : pres A) : res A := finish r.

  Definition take_rest : parser (list tok) := fun ts => Ok (ts, []).

  Definition try_parse_type_hint : parser type_hint := fun ts =>
    if negb (peek_kw "as" ts) then Ok (HUnspecified, ts) else
    let ts1 := tl1 ts in
    match ts1 with
    | TGroup DBrace inner :: r => if is_empty inner then Ok (HStruct, r) else lib_err
    | TGroup DParen inner :: r => if is_empty inner then Ok (HTuple, r) else lib_err
    | TIdent "Unit" :: r => Ok (HUnit, r)
    | [] => Err (MO2o "unexpected end of input, Only '()', '{}', and 'Unit' are supported type hints.")
    | _ => Err (MO2o "Only '()', '{}', and 'Unit' are supported type hints.")
    end.

  (* peek_container_path + try_parse_container_ident *)
  Definition try_parse_container_ident (can_be_empty_after : bool) : parser (option type_path) := fun ts =>
    match parse_path be ts with
    | Ok (p, rest) =>
        if (can_be_empty_after && is_empty rest) || peek_punct "|" rest then
          let rest' := if peek_punct "|" rest then tl1 rest else rest in
          Ok (Some (type_path_of_path p), rest')
        else Ok (None, ts)
    | Err _ => Ok (None, ts)
    | Panic s => Panic s
    | Oom w => Oom w
    end.

  Definition try_parse_optional_ident : parser (option member) := fun ts =>
    pm <- peek_member be ts ;;
    if pm && peek_punct "," (tl1 ts) then
      '(m, rest) <- parse_member be ts ;;
      Ok (Some m, tl1 rest)
    else if pm && is_empty (tl1 ts) then
      '(m, rest) <- parse_member be ts ;; Ok (Some m, rest)
    else Ok (None, ts).

  Definition try_parse_action : parser (option (list tok)) := fun ts =>
    match ts with
    | [] => Ok (None, [])
    | TGroup DBrace inner :: rest => Ok (Some inner, rest)
    | _ => Ok (Some ts, [])
    end.

  Definition try_parse_braced_action : parser (list tok) := parse_group DBrace.

  Definition parse_init_data : parser init_data := fun ts =>
    '(i, r1) <- parse_ident be ts ;;
    '(_, r2) <- parse_punct ":" r1 ;;
    '(a, r3) <- try_parse_braced_action r2 ;;
    Ok ({| id_ident := i; id_action := a |}, r3).

  Fixpoint position (s : string) (l : list string) : option nat :=
    match l with
    | [] => None
    | x :: r => if String.eqb x s then Some 0 else option_map S (position s r)
    end.
  Fixpoint set_nth (n : nat) (l : list bool) : list bool :=
    match n, l with
    | 0, _ :: r => true :: r
    | S n', x :: r => x :: set_nth n' r
    | _, [] => []
    end.
  Fixpoint join_comma (l : list string) : string :=
    match l with
    | [] => ""
    | [x] => x
    | x :: r => x ^^ ", " ^^ join_comma r
    end.
  (* TraitRepeatForWrap / the category list of MemberRepeatAttr *)
  Fixpoint repeat_flags (types : list string) (names : list string) (acc : list bool) : res (list bool) :=
    match names with
    | [] => Ok acc
    | n :: r =>
        match position n types with
        | Some i => repeat_flags types r (set_nth i acc)
        | None => Err (MO2o ("#[repeat] of instruction type '" ^^ n ^^ "' is not supported. Supported types are: " ^^ join_comma types))
        end
    end.
  Definition parse_repeat_for (types : list string) (ts : list tok) : res (list bool) :=
    names <- parse_terminated (parse_ident be) (fuel_of ts) ts ;;
    match names with
    | [] => Ok (map (fun _ => true) types)
    | _ => repeat_flags types names (map (fun _ => false) types)
    end.

  Definition already_set {A} (name : string) : res A :=
    Err (MO2o ("Instruction parameter '" ^^ name ^^ "' was already set.")).

  Definition skip_comma (ts : list tok) : list tok := if peek_punct "," ts then tl1 ts else ts.

  (* parse_trait_instruction_param: Ok (attr', continue?, rest) *)
  Definition parse_trait_param (a : trait_core) (ts : list tok) : res (trait_core * bool * list tok) :=
    if peek_kw "stop_repeat" ts then
      let r := skip_comma (tl1 ts) in
      if tc_stop a then already_set "stop_repeat"
      else Ok ({| tc_ty := tc_ty a; tc_err := tc_err a; tc_hint := tc_hint a; tc_init := tc_init a; tc_update := tc_update a;
                  tc_qret := tc_qret a; tc_default := tc_default a; tc_repeat := tc_repeat a; tc_skip := tc_skip a; tc_stop := true;
                  tc_attr := tc_attr a; tc_impl_attr := tc_impl_attr a; tc_inner_attr := tc_inner_attr a |}, true, r)
    else if peek_kw "skip_repeat" ts then
      let r := skip_comma (tl1 ts) in
      if tc_skip a then already_set "skip_repeat"
      else Ok ({| tc_ty := tc_ty a; tc_err := tc_err a; tc_hint := tc_hint a; tc_init := tc_init a; tc_update := tc_update a;
                  tc_qret := tc_qret a; tc_default := tc_default a; tc_repeat := tc_repeat a; tc_skip := true; tc_stop := tc_stop a;
                  tc_attr := tc_attr a; tc_impl_attr := tc_impl_attr a; tc_inner_attr := tc_inner_attr a |}, true, r)
    else if peek_kw "repeat" ts then
      '(content, r0) <- parse_group DParen (tl1 ts) ;;
      flags <- parse_repeat_for trait_repeat_types content ;;
      let r := skip_comma r0 in
      match tc_repeat a with
      | Some _ => already_set "repeat"
      | None => Ok ({| tc_ty := tc_ty a; tc_err := tc_err a; tc_hint := tc_hint a; tc_init := tc_init a; tc_update := tc_update a;
                  tc_qret := tc_qret a; tc_default := tc_default a; tc_repeat := Some flags; tc_skip := tc_skip a; tc_stop := tc_stop a;
                  tc_attr := tc_attr a; tc_impl_attr := tc_impl_attr a; tc_inner_attr := tc_inner_attr a |}, true, r)
      end
    else if peek_kw "vars" ts then
      '(content, r0) <- parse_group DParen (tl1 ts) ;;
      vars <- all_consumed (parse_separated_nonempty parse_init_data "," (fuel_of content) content) ;;
      let r := skip_comma r0 in
      match tc_init a with
      | Some _ => already_set "vars"
      | None => Ok ({| tc_ty := tc_ty a; tc_err := tc_err a; tc_hint := tc_hint a; tc_init := Some vars; tc_update := tc_update a;
                  tc_qret := tc_qret a; tc_default := tc_default a; tc_repeat := tc_repeat a; tc_skip := tc_skip a; tc_stop := tc_stop a;
                  tc_attr := tc_attr a; tc_impl_attr := tc_impl_attr a; tc_inner_attr := tc_inner_attr a |}, true, r)
      end
    else if peek_dotdot ts then
      '(act, r) <- try_parse_action (tl1 (tl1 ts)) ;;
      Ok ({| tc_ty := tc_ty a; tc_err := tc_err a; tc_hint := tc_hint a; tc_init := tc_init a; tc_update := act;
             tc_qret := tc_qret a; tc_default := tc_default a; tc_repeat := tc_repeat a; tc_skip := tc_skip a; tc_stop := tc_stop a;
             tc_attr := tc_attr a; tc_impl_attr := tc_impl_attr a; tc_inner_attr := tc_inner_attr a |}, false, r)
    else if peek_kw "return" ts then
      '(act, r) <- try_parse_action (tl1 ts) ;;
      Ok ({| tc_ty := tc_ty a; tc_err := tc_err a; tc_hint := tc_hint a; tc_init := tc_init a; tc_update := tc_update a;
             tc_qret := act; tc_default := tc_default a; tc_repeat := tc_repeat a; tc_skip := tc_skip a; tc_stop := tc_stop a;
             tc_attr := tc_attr a; tc_impl_attr := tc_impl_attr a; tc_inner_attr := tc_inner_attr a |}, false, r)
    else if peek_kw "_" ts then
      '(act, r) <- try_parse_action (tl1 ts) ;;
      Ok ({| tc_ty := tc_ty a; tc_err := tc_err a; tc_hint := tc_hint a; tc_init := tc_init a; tc_update := tc_update a;
             tc_qret := tc_qret a; tc_default := act; tc_repeat := tc_repeat a; tc_skip := tc_skip a; tc_stop := tc_stop a;
             tc_attr := tc_attr a; tc_impl_attr := tc_impl_attr a; tc_inner_attr := tc_inner_attr a |}, false, r)
    else if peek_kw "attribute" ts then
      '(content, r0) <- parse_group DParen (tl1 ts) ;;
      let r := skip_comma r0 in
      match tc_attr a with
      | Some _ => already_set "attribute"
      | None => Ok ({| tc_ty := tc_ty a; tc_err := tc_err a; tc_hint := tc_hint a; tc_init := tc_init a; tc_update := tc_update a;
                  tc_qret := tc_qret a; tc_default := tc_default a; tc_repeat := tc_repeat a; tc_skip := tc_skip a; tc_stop := tc_stop a;
                  tc_attr := Some [P1 "#"; bracket content]; tc_impl_attr := tc_impl_attr a; tc_inner_attr := tc_inner_attr a |}, true, r)
      end
    else if peek_kw "impl_attribute" ts then
      '(content, r0) <- parse_group DParen (tl1 ts) ;;
      let r := skip_comma r0 in
      match tc_impl_attr a with
      | Some _ => already_set "impl_attribute"
      | None => Ok ({| tc_ty := tc_ty a; tc_err := tc_err a; tc_hint := tc_hint a; tc_init := tc_init a; tc_update := tc_update a;
                  tc_qret := tc_qret a; tc_default := tc_default a; tc_repeat := tc_repeat a; tc_skip := tc_skip a; tc_stop := tc_stop a;
                  tc_attr := tc_attr a; tc_impl_attr := Some [P1 "#"; bracket content]; tc_inner_attr := tc_inner_attr a |}, true, r)
      end
    else if peek_kw "inner_attribute" ts then
      '(content, r0) <- parse_group DParen (tl1 ts) ;;
      let r := skip_comma r0 in
      match tc_inner_attr a with
      | Some _ => already_set "inner_attribute"
      | None => Ok ({| tc_ty := tc_ty a; tc_err := tc_err a; tc_hint := tc_hint a; tc_init := tc_init a; tc_update := tc_update a;
                  tc_qret := tc_qret a; tc_default := tc_default a; tc_repeat := tc_repeat a; tc_skip := tc_skip a; tc_stop := tc_stop a;
                  tc_attr := tc_attr a; tc_impl_attr := tc_impl_attr a; tc_inner_attr := Some [P1 "#"; P1 "!"; bracket content] |}, true, r)
      end
    else Ok (a, false, ts).

  Fixpoint parse_trait_params (fuel : nat) (a : trait_core) (ts : list tok) : pres trait_core :=
    match fuel with
    | 0 => Oom "fuel"
    | S f =>
        '(a', cont, rest) <- parse_trait_param a ts ;;
        if cont then parse_trait_params f a' rest else Ok (a', rest)
    end.

  (* impl Parse for TraitAttrCore *)
  Definition parse_trait_core : parser trait_core := fun ts =>
    '(ty, r1) <-
      match ts with
      | TGroup DParen content :: r => Ok (type_path_of_tuple content, r)
      | _ => '(p, r) <- parse_path be ts ;; Ok (type_path_of_path p, r)
      end ;;
    '(hint, r2) <- (if tp_nameless ty then Ok (HTuple, r1) else try_parse_type_hint r1) ;;
    '(err, r3) <-
      (if peek_punct "," r2 then
         '(p, r) <- parse_path be (tl1 r2) ;; Ok (Some (type_path_of_path p), r)
       else Ok (None, r2)) ;;
    let a := {| tc_ty := ty; tc_err := err; tc_hint := hint; tc_init := None; tc_update := None; tc_qret := None;
                tc_default := None; tc_repeat := None; tc_skip := false; tc_stop := false;
                tc_attr := None; tc_impl_attr := None; tc_inner_attr := None |} in
    if negb (peek_punct "|" r3) then Ok (a, r3) else
    parse_trait_params (fuel_of r3) a (tl1 r3).

  (* impl Parse for GhostData *)
  Definition parse_ghost_data : parser ghost_data := fun ts =>
    pm <- peek_member be ts ;;
    let t2 := tl1 ts in
    let field_name := pm && (peek_punct ":" t2 || peek_group DBrace t2 || peek_group DParen t2) in
    '(cp, r1) <-
      (if negb field_name then
         '(p, r) <- parse_separated_nonempty (parse_member be) "." (fuel_of ts) ts ;;
         '(_, r') <- parse_punct "@" r ;;
         Ok (Some p, r')
       else Ok (None, ts)) ;;
    '(gi, r2) <-
      (let t2 := tl1 r1 in
       if peek_punct ":" t2 then
         '(m, r) <- parse_member be r1 ;; Ok (GMember m, r)
       else if peek_group DBrace t2 then
         '(i, r) <- parse_ident be r1 ;;
         '(inner, r') <- parse_group DBrace r ;;
         Ok (GDestr [TIdent i; brace inner], r')
       else
         '(i, r) <- parse_ident be r1 ;;
         '(inner, r') <- parse_group DParen r ;;
         Ok (GDestr [TIdent i; paren inner], r')) ;;
    '(_, r3) <- parse_punct ":" r2 ;;
    '(act, r4) <- try_parse_braced_action r3 ;;
    Ok ({| gd_path := cp; gd_ident := gi; gd_action := act |}, r4).

  Definition parse_ghosts_core (ts : list tok) : res ghosts_core :=
    '(ty, r) <- try_parse_container_ident false ts ;;
    data <- parse_terminated parse_ghost_data (fuel_of r) r ;;
    Ok {| sg_ty := ty; sg_data := data |}.

  Definition parse_where_attr (ts : list tok) : res where_attr :=
    '(ty, r) <- try_parse_container_ident false ts ;;
    preds <- finish (parse_separated_nonempty (parse_where_pred be) "," (fuel_of r) r) ;;
    Ok {| wa_ty := ty; wa_preds := preds |}.

  Definition parse_child_parent_data : parser child_parent_data := fun ts =>
    '(p, r1) <- parse_separated_nonempty (parse_member be) "." (fuel_of ts) ts ;;
    '(_, r2) <- parse_punct ":" r1 ;;
    '(ty, r3) <- parse_path be r2 ;;
    '(h, r4) <- try_parse_type_hint r3 ;;
    Ok ({| cd_ty := print_path ty; cd_hint := h; cd_path := p;
           cd_str := strip_spaces (toks_to_string (print_member_path p)) |}, r4).

  Definition parse_child_parents_attr (ts : list tok) : res child_parents_attr :=
    '(ty, r) <- try_parse_container_ident false ts ;;
    data <- parse_terminated parse_child_parent_data (fuel_of r) r ;;
    Ok {| ca_ty := ty; ca_data := data |}.

  Definition parse_member_core (ts : list tok) : res member_core :=
    '(ty, r1) <- try_parse_container_ident false ts ;;
    '(m, r2) <- try_parse_optional_ident r1 ;;
    '(a, r3) <- try_parse_action r2 ;;
    if is_empty r3 then Ok {| mc_ty := ty; mc_member := m; mc_action := a |} else lib_err.

  (* ParentChildFieldAsParsed *)
  Inductive pcf_parsed :=
  | PcfParsed (this : member) (ty : option (list tok)) (attrs : list pcf_attr) (parent : option (list pcf_parsed)).

  (* the loop over the leading [instr(...)] groups of one entry; `rec` parses a nested entry *)
  Fixpoint pcf_brackets (rec : parser pcf_parsed) (n : nat) (attrs : list pcf_attr) (par : option (list pcf_parsed)) (ts : list tok)
    {struct n} : pres pcf_parsed :=
    match n with
    | 0 => Oom "fuel"
    | S n' =>
        match ts with
        | TGroup DBracket content :: rest =>
            '(instr, c1) <- parse_ident be content ;;
            '(inner, c2) <- parse_group DParen c1 ;;
            if str_in instr nested_map_names then
              '(m, i1) <- try_parse_optional_ident inner ;;
              '(a, i2) <- try_parse_action i1 ;;
              if negb (is_empty i2) then lib_err else
              if negb (is_empty c2) then lib_err else
              pcf_brackets rec n' (attrs ++ [{| pf_member := m; pf_action := a;
                                               pf_appl := appl_of_slots nested_map_slots instr |}]) par rest
            else if String.eqb instr "parent" then
              match par with
              | None =>
                  kids <- parse_terminated rec (fuel_of inner) inner ;;
                  if negb (is_empty c2) then lib_err else
                  pcf_brackets rec n' attrs (Some kids) rest
              | Some _ => Err (MO2o "Cannot have more than one [parent(...)] instruction here")
              end
            else Err (MO2o ("Instruction '" ^^ instr ^^ "' is not recognized in this context"))
        | _ =>
            '(this, r1) <- parse_member be ts ;;
            '(ty, r2) <-
              (if peek_punct ":" r1 then
                 '(p, r) <- parse_path be (tl1 r1) ;; Ok (Some (print_path p), r)
               else Ok (None, r1)) ;;
            Ok (PcfParsed this ty attrs par, r2)
        end
    end.

  Fixpoint parse_pcf (fuel : nat) (ts : list tok) {struct fuel} : pres pcf_parsed :=
    match fuel with
    | 0 => Oom "fuel"
    | S f => pcf_brackets (parse_pcf f) (fuel_of ts) [] None ts
    end.

  (* convert_parent_child_field *)
  Fixpoint sub_path_tokens (sub : list (member * option (list tok))) : list tok :=
    match sub with
    | [] => []
    | (m, _) :: r => dot :: member_tok m :: sub_path_tokens r
    end.
  Fixpoint convert_pcf (fuel : nat) (l : list pcf_parsed) (sub : list (member * option (list tok)))
    : list parent_child_field :=
    match fuel with
    | 0 => []
    | S f =>
        flat_map (fun p =>
          match p with
          | PcfParsed this ty attrs (Some kids) => convert_pcf f kids (sub ++ [(this, ty)])
          | PcfParsed this ty attrs None =>
              [{| pc_this := this; pc_attrs := attrs; pc_sub := sub; pc_sub_toks := sub_path_tokens sub |}]
          end) l
    end.

  Definition parse_parent_attr (ts : list tok) : res parent_attr :=
    '(ty, r) <- try_parse_container_ident true ts ;;
    if is_empty r then Ok {| pa_ty := ty; pa_children := None |} else
    let fuel := S (toks_depth r) in
    kids <- parse_terminated (parse_pcf (2 * fuel + 2)) (fuel_of r) r ;;
    Ok {| pa_ty := ty; pa_children := Some (convert_pcf (2 * fuel + 2) kids []) |}.

  Definition parse_fghost_core (ts : list tok) : res fghost_core :=
    '(ty, r1) <- try_parse_container_ident true ts ;;
    '(a, r2) <- try_parse_action r1 ;;
    if is_empty r2 then Ok {| fg_ty := ty; fg_action := a |} else lib_err.

  Definition parse_child_attr (ts : list tok) : res child_attr :=
    '(ty, r1) <- try_parse_container_ident false ts ;;
    p <- finish (parse_separated_nonempty (parse_member be) "." (fuel_of r1) r1) ;;
    Ok {| ch_ty := ty; ch_path := p |}.

  Definition parse_as_attr (ts : list tok) : res as_attr :=
    '(ty, r1) <- try_parse_container_ident false ts ;;
    pm <- peek_member be r1 ;;
    if pm && peek_punct "," (tl1 r1) then
      '(m, r2) <- parse_member be r1 ;;
      Ok {| as_ty := ty; as_member := Some m; as_toks := tl1 r2 |}
    else Ok {| as_ty := ty; as_member := None; as_toks := r1 |}.

  Definition parse_lit_attr (ts : list tok) : res lit_attr :=
    '(ty, r1) <- try_parse_container_ident false ts ;;
    Ok {| lp_ty := ty; lp_toks := r1 |}.

  Definition parse_hint_attr (ts : list tok) : res hint_attr :=
    '(ty, r1) <- try_parse_container_ident false ts ;;
    h <- finish (try_parse_type_hint r1) ;;
    Ok {| th_ty := ty; th_hint := h |}.

  Definition parse_mrepeat_attr (ts : list tok) : res mrepeat_attr :=
    let permeate := peek_kw "permeate" ts in
    r1 <- (if permeate then
             '(content, r) <- parse_group DParen (tl1 ts) ;;
             if is_empty content then Ok r else lib_err
           else Ok ts) ;;
    r2 <- (if permeate && negb (is_empty r1) then '(_, r) <- parse_punct "," r1 ;; Ok r else Ok r1) ;;
    flags <- parse_repeat_for member_repeat_types r2 ;;
    Ok {| mr_permeate := permeate; mr_for := flags |}.

  (* ---------------- instruction classification ---------------- *)
  Definition guard_ok (g : guard) (own bark : bool) : bool :=
    match g with GNone => true | GOwn => own | GBark => bark end.

  Definition is_empty_names (l : list string) : bool := match l with [] => true | _ => false end.
  Fixpoint find_arm {C} (arms : list (list string * guard * C * list string)) (instr : string) (own bark : bool)
    : option (C * list string) :=
    match arms with
    | [] => None
    | (names, g, c, slots) :: r =>
        if (is_empty_names names || str_in instr names) && guard_ok g own bark then Some (c, slots)
        else find_arm r instr own bark
    end.

  Definition parse_data_type_instruction (instr : string) (ts : list tok) (own bark : bool) : res dt_instr :=
    match find_arm dt_arms instr own bark with
    | None => Oom "no match arm"
    | Some (c, slots) =>
        match c with
        | DcAllowUnknown => Ok DAllowUnknown
        | DcMap fallible =>
            core <- finish (parse_trait_core ts) ;;
            Ok (DMap {| ta_core := core; ta_fallible := fallible; ta_appl := appl_of_slots slots instr |})
        | DcGhosts => core <- parse_ghosts_core ts ;; Ok (DGhosts {| ga_core := core; ga_appl := appl_of_slots slots instr |})
        | DcChildParents => a <- parse_child_parents_attr ts ;; Ok (DChildParents a)
        | DcWhere => a <- parse_where_attr ts ;; Ok (DWhere a)
        | DcMisnamed guess => Ok (DMisnamed instr guess own)
        | DcMisplaced => Ok (DMisplaced instr own)
        | DcUnrecErr => Ok (DUnrecErr instr)
        | DcUnrec => Ok DUnrec
        end
    end.

  Definition parse_member_instruction (instr : string) (ts : list tok) (own bark : bool) : res mb_instr :=
    match find_arm mb_arms instr own bark with
    | None => Oom "no match arm"
    | Some (c, slots) =>
        match c with
        | McMap fallible =>
            core <- parse_member_core ts ;;
            Ok (MMap {| ma_core := core; ma_fallible := fallible; ma_instr := instr; ma_appl := appl_of_slots slots instr |})
        | McGhost => core <- parse_fghost_core ts ;; Ok (MGhost {| gh_core := core; gh_appl := appl_of_slots slots instr |})
        | McGhosts => core <- parse_ghosts_core ts ;; Ok (MGhosts {| ga_core := core; ga_appl := appl_of_slots slots instr |})
        | McChild => a <- parse_child_attr ts ;; Ok (MChild a)
        | McParent => a <- parse_parent_attr ts ;; Ok (MParent a)
        | McAs => a <- parse_as_attr ts ;; Ok (MAs a)
        | McLit => a <- parse_lit_attr ts ;; Ok (MLit a)
        | McPat => a <- parse_lit_attr ts ;; Ok (MPat a)
        | McRepeat => a <- parse_mrepeat_attr ts ;; Ok (MRepeat a)
        | McSkip => Ok MSkipRepeat
        | McStop => Ok MStopRepeat
        | McTypeHint => a <- parse_hint_attr ts ;; Ok (MTypeHint a)
        | McMisnamed guess => Ok (MMisnamed instr guess own)
        | McMisplaced => Ok (MMisplaced instr own)
        | McUnrecErr => Ok (MUnrecErr instr)
        | McUnrec => Ok MUnrec
        end
    end.

  (* ---------------- attribute lists -> instruction lists ---------------- *)
  (* OptionalParenthesizedTokenStream *)
  Definition optional_parenthesized : parser (list tok) := fun ts =>
    match ts with
    | TGroup DParen inner :: r => Ok (inner, r)
    | _ => Ok ([], ts)
    end.

  (* the cfg-split extraction of a bare attribute's argument tokens *)
  Definition bare_attr_tokens (a : raw_attr) : res (list tok) :=
    match be with
    | S1 => finish (optional_parenthesized (ra_toks a))
    | S2 =>
        match ra_toks a with
        | [] => Ok []
        | [TGroup DParen inner] => Ok inner
        | [TGroup _ _] => Err (MO2o "unexpected token")
        | TPunct "=" _ :: _ => Err (MO2o "#[name = ""Value""] syntax is not supported.")
        | _ => Oom "attribute shape syn 2 does not produce"
        end
    end.

  (* #[o2o(...)]: parse_args_with enters a group of any delimiter *)
  Definition o2o_list_content (a : raw_attr) : res (list tok) :=
    match ra_toks a with
    | [TGroup _ inner] => Ok inner
    | _ => lib_err
    end.

  Definition o2o_item {I} (pi : string -> list tok -> bool -> bool -> res I) : parser I := fun ts =>
    '(instr, r1) <- parse_ident be ts ;;
    '(content, r2) <- optional_parenthesized r1 ;;
    i <- pi instr content true true ;;
    Ok (i, r2).

  Definition is_allow_unknown (i : dt_instr) : bool := match i with DAllowUnknown => true | _ => false end.

  (* first loop of get_data_type_attrs: (instructions in order, bark) *)
  Fixpoint dt_instrs (attrs : list raw_attr) (bark : bool) : res (list dt_instr * bool) :=
    match attrs with
    | [] => Ok ([], bark)
    | a :: rest =>
        match ra_path a with
        | None => dt_instrs rest bark
        | Some p =>
            if String.eqb p "doc" then dt_instrs rest bark
            else if String.eqb p "o2o" then
              content <- o2o_list_content a ;;
              news <- parse_terminated (o2o_item parse_data_type_instruction) (fuel_of content) content ;;
              let bark' := if existsb is_allow_unknown news then false else bark in
              '(more, b) <- dt_instrs rest bark' ;;
              Ok (news ++ more, b)
            else
              toks <- bare_attr_tokens a ;;
              i <- parse_data_type_instruction p toks false bark ;;
              '(more, b) <- dt_instrs rest bark ;;
              Ok (i :: more, b)
        end
    end.

  Fixpoint mb_instrs (attrs : list raw_attr) (bark : bool) : res (list mb_instr) :=
    match attrs with
    | [] => Ok []
    | a :: rest =>
        match ra_path a with
        | None => mb_instrs rest bark
        | Some p =>
            if String.eqb p "doc" then mb_instrs rest bark
            else if String.eqb p "o2o" then
              content <- o2o_list_content a ;;
              news <- parse_terminated (o2o_item parse_member_instruction) (fuel_of content) content ;;
              more <- mb_instrs rest bark ;;
              Ok (news ++ more)
            else
              toks <- bare_attr_tokens a ;;
              i <- parse_member_instruction p toks false bark ;;
              more <- mb_instrs rest bark ;;
              Ok (i :: more)
        end
    end.
End Parsers.
