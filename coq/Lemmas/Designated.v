(* C01: each field's line delivers the designated value to the designated place, in every cell of
   render_struct_line (member kind x instruction form x kind x hint), for plain struct fields
   (no child path, no parent, not inside a variant, literal-building body). *)
From Coq Require Import List String Ascii Bool Arith Lia.
From O2o.Model Require Import Tok Syn Attr Ast Lookup Expand.
Import ListNotations.
Open Scope list_scope.

Definition obj_of (c : ictx) : list tok :=
  if is_from (c_kind c) then [TIdent "value"; dot] else [TIdent "self"; dot].

Definition is_named_member (m : member) : bool := match m with MNamed _ => true | MIndex _ => false end.

(* shape of the counterpart as seen from one member: Some true = named, Some false = positional, None = unit *)
Definition dest_named (m : member) (h : type_hint) : option bool :=
  match h with
  | HStruct => Some true
  | HTuple => Some false
  | HUnspecified => Some (is_named_member m)
  | HUnit => None
  end.

Definition own (f : fview) : list tok := [member_tok (fv_member f)].

(* the path of counterpart member x as seen from field f: prefixed by f's #[child(a.b)] path *)
Definition path_of (f : fview) (x : member) : list tok :=
  match fv_child f with
  | Some ch => print_member_path ch ++ [dot; member_tok x]
  | None => [member_tok x]
  end.

(* ---- Into / IntoExisting: the value read from the deriving struct ---- *)
(* no instruction: self.<member>; with an instruction: its expression with ~ = self.<member>, @ = self, else self.<member> *)
Definition value_out (f : fview) (c : ictx) : res (list tok) :=
  match fv_attr f with
  | None => Ok (obj_of c ++ own f)
  | Some a => get_action_or a (Some (own f)) c (obj_of c ++ own f)
  end.

(* the designated field of a named counterpart: the member the instruction names, else the own name;
   a positional member has no name to default to *)
Definition place_named (f : fview) : res member :=
  match fv_attr f, fv_member f with
  | None, MNamed _ => Ok (fv_member f)
  | None, MIndex _ => Panic "6"
  | Some a, MNamed _ => get_field_name_or a (fv_member f)
  | Some a, MIndex _ => get_ident a
  end.

(* the designated position of a positional counterpart for into_existing: the running position among
   the fields written, unless a positional member's instruction names one *)
Definition place_positional (f : fview) (idx : nat) : res member :=
  match fv_attr f, fv_member f with
  | Some a, MIndex _ => get_field_name_or a (MIndex idx)
  | _, _ => Ok (MIndex idx)
  end.

Definition spec_line_out (f : fview) (c : ictx) (hint : type_hint) (idx : nat) : res (list tok) :=
  match dest_named (fv_member f) hint with
  | None => Ok []
  | Some true =>
      p <- place_named f ;; v <- value_out f c ;;
      if is_into_existing (c_kind c) then Ok ([TIdent "other"; dot] ++ path_of f p ++ [P1 "="] ++ v ++ [semi])
      else Ok ([member_tok p; P1 ":"] ++ v ++ [comma])
  | Some false =>
      if is_into_existing (c_kind c) then
        p <- place_positional f idx ;; v <- value_out f c ;;
        Ok ([TIdent "other"; dot] ++ path_of f p ++ [P1 "="] ++ v ++ [semi])
      else v <- value_out f c ;; Ok (v ++ [comma])
  end.

(* ---- From: the value read from the counterpart ---- *)
(* the counterpart member read by default: the own name, or - from a positional counterpart - the own position *)
Definition default_source (f : fview) (hint : type_hint) : member :=
  match fv_member f, hint with
  | MNamed _, HTuple => MIndex (fv_idx f)
  | m, _ => m
  end.

Definition value_in (f : fview) (c : ictx) (hint : type_hint) : res (list tok) :=
  match fv_attr f with
  | None =>
      match fv_member f, hint with
      | MIndex _, HStruct => Panic "6"
      | _, _ => Ok (obj_of c ++ path_of f (default_source f hint))
      end
  | Some a => get_stuff a (obj_of c) (path_of f) c (default_source f hint)
  end.

Definition spec_line_in (f : fview) (c : ictx) (hint : type_hint) : res (list tok) :=
  v <- value_in f c hint ;;
  match fv_member f with
  | MNamed n => Ok ([TIdent n; P1 ":"] ++ v ++ [comma])
  | MIndex _ => Ok (v ++ [comma])
  end.

Definition plain_field (f : fview) (c : ictx) : Prop :=
  fv_has_parent f = false /\ is_variant c = false /\ c_post_init c = false.

(* (the cell where into_existing dropped the child path - finding F-03b: positional counterpart, field without instruction - was
   repaired in /repo; the theorem now covers every cell) *)
Theorem line_out : forall f c hint idx,
    plain_field f c -> is_from (c_kind c) = false ->
    render_struct_line f c hint idx None = spec_line_out f c hint idx.
Proof.
  intros f c hint idx [Hp [Hv Hpi]] Hk.
  unfold render_struct_line, spec_line_out, value_out, place_named, place_positional, own, obj_of, dest_named, path_of in *.
  rewrite Hv, Hpi, Hk.
  destruct (fv_child f) as [ch|];
  destruct (fv_member f) as [n|i]; destruct (fv_attr f) as [a|]; destruct hint; destruct (c_kind c);
    cbn [is_from] in Hk; try discriminate Hk;
    cbn [is_intoish is_into_existing is_from hint_su hint_tu hint_eqb andb orb negb is_named_member bind member_tok app] in *;
    try rewrite Hp; try reflexivity;
    repeat match goal with
           | |- context [get_field_name_or ?a ?m] => destruct (get_field_name_or a m); cbn [bind]; try reflexivity
           | |- context [get_ident ?a] => destruct (get_ident a); cbn [bind]; try reflexivity
           | |- context [get_action_or ?a ?p ?c ?o] => destruct (get_action_or a p c o); cbn [bind]; try reflexivity
           end.
Qed.

Theorem line_in : forall f c hint idx,
    plain_field f c -> is_from (c_kind c) = true ->
    render_struct_line f c hint idx None = spec_line_in f c hint.
Proof.
  intros f c hint idx [Hp [Hv Hpi]] Hk.
  unfold render_struct_line, spec_line_in, value_in, default_source, own, obj_of, path_of.
  rewrite Hv, Hpi, Hk, Hp.
  destruct (fv_child f) as [ch|];
  destruct (fv_member f) as [n|i]; destruct (fv_attr f) as [a|]; destruct hint; destruct (c_kind c);
    cbn [is_from] in Hk; try discriminate Hk;
    cbn [is_intoish is_into_existing is_from hint_su hint_tu hint_eqb andb orb negb bind member_tok app];
    try reflexivity;
    repeat match goal with
           | |- context [get_stuff ?a ?o ?p ?c ?m] => destruct (get_stuff a o p c m); cbn [bind]; try reflexivity
           end.
Qed.

(* ---- block level: the literal / assignment list of a struct without flattening is exactly the
   lines of its fields, in declaration order, with a running position that counts only the fields
   written; then the #[ghosts] entries; then the `..update` ---- *)
Definition skipped (f : fview) (c : ictx) : bool :=
  (negb (is_from (c_kind c)) && (is_some (fv_ghost f) || fv_has_parent f)) ||
  (is_from (c_kind c) && match fv_ghost f with Some g => negb (is_some (fg_action g)) | None => false end).

Fixpoint spec_lines (fs : list fview) (c : ictx) (hint : type_hint) (idx : nat) : res (list tok) :=
  match fs with
  | [] => Ok []
  | f :: r =>
      if skipped f c then spec_lines r c hint idx
      else l <- render_struct_line f c hint idx None ;; ls <- spec_lines r c hint (S idx) ;; Ok (l ++ ls)
  end.

Definition field_container (gr : nat) (f : fview) : container := {| fc_gr := gr; fc_path := fv_str f; fc_data := FdField f |}.

Lemma member_loop_plain : forall c hint cf gf pf fs n idx acc,
    Forall (fun f => fv_child f = None) fs -> List.length fs < n ->
    forall cs, Forall2 (fun x f => fc_data x = FdField f) cs fs ->
    member_loop c None hint cf gf pf n cs idx acc = (ls <- spec_lines fs c hint idx ;; Ok (acc ++ ls, [])).
Proof.
  intros c hint cf gf pf fs. induction fs as [|f fs IH]; intros n idx acc Hc Hn cs Hcs.
  - inversion Hcs; subst. destruct n; [cbn in Hn; lia|]. cbn [member_loop spec_lines bind]. rewrite app_nil_r. reflexivity.
  - inversion Hcs as [|x f' cs' fs' Hx Hrest]; subst. inversion Hc as [|f'' fs'' Hcf Hcr]; subst.
    destruct n; [cbn in Hn; lia|]. cbn [List.length] in Hn.
    cbn [member_loop bind spec_lines]. rewrite Hx. unfold skipped.
    destruct (negb (is_from (c_kind c)) && (is_some (fv_ghost f) || fv_has_parent f)) eqn:E1; cbn [orb].
    + apply IH; [assumption | lia | assumption].
    + destruct (is_from (c_kind c) && match fv_ghost f with Some g => negb (is_some (fg_action g)) | None => false end) eqn:E2.
      * apply IH; [assumption | lia | assumption].
      * rewrite Hcf. destruct (render_struct_line f c hint idx None) as [l| | |]; cbn [bind]; try reflexivity.
        rewrite (IH n (S idx) (acc ++ l) Hcr ltac:(lia) cs' Hrest).
        destruct (spec_lines fs c hint (S idx)) as [ls| | |]; cbn [bind]; try reflexivity. rewrite app_assoc. reflexivity.
Qed.

(* the #[ghosts] entries of the conversion (Into / IntoExisting only), none of them addressed by child path *)
Definition spec_ghosts (s : sview) (c : ictx) : res (list (list tok)) :=
  if negb (is_from (c_kind c)) then
    match sv_ghosts s with
    | Some ga => mapM (fun x => match gd_path x with None => render_ghost_line x c | Some _ => Ok [] end) (sg_data ga)
    | None => Ok []
    end
  else Ok [].

Definition spec_update (c : ictx) : list tok :=
  match tc_update (c_core c) with Some u => dotdot ++ quote_action u None c | None => [] end.

Theorem init_block_plain : forall s c fuel fs cs named,
    Forall (fun f => fv_child f = None) fs ->
    Forall2 (fun x f => fc_data x = FdField f) cs fs ->
    init_inner s c (S fuel) cs named None =
    (ls <- spec_lines fs c (c_hint c) 0 ;; gs <- spec_ghosts s c ;;
     toks <- wrap_struct c (c_hint c) named (ls ++ List.concat gs ++ spec_update c) ;; Ok (toks, [])).
Proof.
  intros s c fuel fs cs named Hc Hcs. cbn [init_inner option_map].
  assert (Hlen : List.length cs = List.length fs) by (clear Hc; induction Hcs as [|x y l l' Hxy Hl IHl]; cbn [List.length]; [reflexivity | rewrite IHl; reflexivity]).
  rewrite (member_loop_plain c (c_hint c) _ _ _ fs (S (List.length cs)) 0 [] Hc ltac:(lia) cs Hcs).
  destruct (spec_lines fs c (c_hint c) 0) as [ls| | |]; cbn [bind app]; try reflexivity.
Qed.

(* a concrete non-trivial instance of the hypotheses: two plain named fields, one of them renamed *)
Example plain_instance :
  let f1 := {| fv_member := MNamed "a"; fv_idx := 0; fv_str := "a"; fv_ty := None; fv_child := None; fv_ghost := None;
               fv_has_parent := false; fv_has_pl_parent := false; fv_pparent := None;
               fv_attr := Some (AField {| mc_ty := None; mc_member := Some (MNamed "x"); mc_action := None |}) |} in
  let f2 := {| fv_member := MNamed "b"; fv_idx := 1; fv_str := "b"; fv_ty := None; fv_child := None; fv_ghost := None;
               fv_has_parent := false; fv_has_pl_parent := false; fv_pparent := None; fv_attr := None |} in
  Forall (fun f => fv_child f = None) [f1; f2] /\ Forall2 (fun x f => fc_data x = FdField f) [field_container 1 f1; field_container 2 f2] [f1; f2].
Proof. cbn. split; repeat constructor. Qed.
