(* C17: the shape of the six (regenerated) trait skeletons. *)
From Coq Require Import List String Ascii Bool Arith.
From O2o.Model Require Import Tok Syn Attr Ast Lookup Expand.
From O2o.Gen Require Import Skeleton.
From O2o.Lemmas Require Import Contexts Params Flatten.
Import ListNotations.
Open Scope string_scope.
Open Scope list_scope.

Definition count_ident (s : string) (l : list stok) : nat := List.length (filter (is_ident s) l).

(* everything before the final brace group *)
Fixpoint before_last_group (l : list stok) : list stok :=
  match l with
  | [] => []
  | [SG DBrace _] => []
  | x :: r => x :: before_last_group r
  end.

(* the method: from `fn` to its block *)
Fixpoint from_fn (l : list stok) : list stok :=
  match l with
  | SI "fn" :: r => SI "fn" :: r
  | _ :: r => from_fn r
  | [] => []
  end.

Definition header_text (k : kind) (f : bool) : string := stoks_text_flat (before_last_group (skeleton_of k f)).
Definition signature_text (k : kind) (f : bool) : string := stoks_text_flat (before_last_group (from_fn (body_group (skeleton_of k f)))).
Definition before_fn_text (k : kind) (f : bool) : string :=
  stoks_text_flat (firstn (List.length (body_group (skeleton_of k f)) - List.length (from_fn (body_group (skeleton_of k f)))) (body_group (skeleton_of k f))).

(* header: `#impl_attr impl #impl_gens <trait><..> for <type> #where_clause`; body: [`type Error = ..;`] `#attr` then exactly one
   `fn` with the documented signature, ending with its block; nothing else *)
Definition documented_shapes : list (kind * bool * string * string * string) :=
  [(FromOwned, false, "#impl_attrimpl#impl_gens::core::convert::From<#r#src#those_gens>for#dst#these_gens#where_clause",
    "#attr", "fnfrom(value:#r#src#those_gens)->#dst#these_gens");
   (FromOwned, true, "#impl_attrimpl#impl_gens::core::convert::TryFrom<#r#src#those_gens>for#dst#these_gens#where_clause",
    "typeError=#err_ty#err_gens;#attr", "fntry_from(value:#r#src#those_gens)->::core::result::Result<#dst#these_gens,#err_ty#err_gens>");
   (OwnedInto, false, "#impl_attrimpl#impl_gens::core::convert::Into<#dst#those_gens>for#r#src#these_gens#where_clause",
    "#attr", "fninto(self)->#dst#those_gens");
   (OwnedInto, true, "#impl_attrimpl#impl_gens::core::convert::TryInto<#dst#those_gens>for#r#src#these_gens#where_clause",
    "typeError=#err_ty#err_gens;#attr", "fntry_into(self)->::core::result::Result<#dst#those_gens,#err_ty#err_gens>");
   (OwnedIntoExisting, false, "#impl_attrimpl#impl_genso2o::traits::IntoExisting<#dst#those_gens>for#r#src#these_gens#where_clause",
    "#attr", "fninto_existing(self,other:&mut#dst#those_gens)");
   (OwnedIntoExisting, true, "#impl_attrimpl#impl_genso2o::traits::TryIntoExisting<#dst#those_gens>for#r#src#these_gens#where_clause",
    "typeError=#err_ty#err_gens;#attr", "fntry_into_existing(self,other:&mut#dst#those_gens)->::core::result::Result<(),#err_ty#err_gens>")].

Definition skeleton_shapes : bool :=
  forallb (fun e => let '(k, f, h, b, s) := e in
                    String.eqb (header_text k f) h && String.eqb (before_fn_text k f) b && String.eqb (signature_text k f) s &&
                    match last (skeleton_of k f) (SI "") with SG DBrace _ => true | _ => false end &&
                    match last (body_group (skeleton_of k f)) (SI "") with SG DBrace _ => true | _ => false end &&
                    Nat.eqb (count_ident "fn" (body_group (skeleton_of k f))) 1 &&
                    Nat.eqb (count_ident "fn" (fn_body (skeleton_of k f))) 0)
          documented_shapes.

Lemma skeleton_shapes_ok : skeleton_shapes = true.
Proof. vm_compute. reflexivity. Qed.

(* the by-reference kinds share the skeleton of their owned kind (the `&` is the #r hole) *)
Lemma skeleton_by_class : forall k f, skeleton_of k f = skeleton_of (match k with FromRef => FromOwned | RefInto => OwnedInto | RefIntoExisting => OwnedIntoExisting | x => x end) f.
Proof. intros k f; destruct k; reflexivity. Qed.

(* an accepted input's output is a concatenation of such items, one per requested (kind, fallibility, instruction) *)
Lemma output_is_items : forall d ts,
    data_type_impl d = Ok ts ->
    exists items, ts = List.concat items /\ List.length items = List.length (impl_contexts d) /\
                  Forall2 (fun item c => exists e, item = inst e (skeleton_of (c_kind c) (c_fallible c))) items (impl_contexts d).
Proof.
  intros d ts H. unfold data_type_impl in H. destruct (mapM (expand_impl d) (impl_contexts d)) as [items| | |] eqn:E; cbn [bind] in H; try discriminate.
  apply Ok_inj in H. subst ts. exists items. split; [reflexivity|]. split; [apply (mapM_length _ _ _ E)|].
  revert items E. induction (impl_contexts d) as [|c l IH]; intros items E; cbn [mapM] in E.
  - apply Ok_inj in E. subst. constructor.
  - destruct (expand_impl d c) as [it| | |] eqn:Ec; cbn [bind] in E; try discriminate.
    destruct (mapM (expand_impl d) l) as [its| | |] eqn:El; cbn [bind] in E; try discriminate.
    apply Ok_inj in E. subst items. constructor; [|apply IH; reflexivity].
    unfold expand_impl in Ec. apply quote_trait_skeleton in Ec. exact Ec.
Qed.
