(* C04: the counterpart named in an impl header is the path the instruction names - leading `::`,
   every segment, the arguments of the last segment - split into `#dst` and `#those_gens` and
   printed back side by side. *)
From Coq Require Import List String Ascii Bool Arith.
From O2o.Model Require Import Tok Syn Attr Ast Lookup Expand.
From O2o.Lemmas Require Import Generics.
Import ListNotations.
Open Scope list_scope.

Definition angle_toks (a : option angle) : list tok :=
  match a with Some g => print_angle g | None => [] end.

Lemma strip_nonempty : forall l, l <> [] -> fst (strip_last_args l) <> [].
Proof.
  intros l Hl. destruct l as [|s r]; [contradiction|].
  destruct r as [|s2 r2]; [cbn; intro H; discriminate H|].
  change (strip_last_args (s :: s2 :: r2)) with (let '(r', a) := strip_last_args (s2 :: r2) in (s :: r', a)).
  destruct (strip_last_args (s2 :: r2)) as [r' a]. cbn [fst]. intro H; discriminate H.
Qed.

Lemma print_segs_cons : forall s r, r <> [] -> print_segs (s :: r) = print_seg s ++ colon2 ++ print_segs r.
Proof. intros s r Hr. destruct r as [|x y]; [contradiction|reflexivity]. Qed.

Lemma strip_cons : forall s r, r <> [] ->
    strip_last_args (s :: r) = (s :: fst (strip_last_args r), snd (strip_last_args r)).
Proof.
  intros s r Hr. destruct r as [|x y]; [contradiction|].
  change (strip_last_args (s :: x :: y)) with (let '(r', a) := strip_last_args (x :: y) in (s :: r', a)).
  destruct (strip_last_args (x :: y)) as [r' a]. reflexivity.
Qed.

Lemma print_segs_strip : forall l,
    print_segs (fst (strip_last_args l)) ++ angle_toks (snd (strip_last_args l)) = print_segs l.
Proof.
  induction l as [|s r IH]; [reflexivity|].
  destruct r as [|x y].
  - cbn [strip_last_args fst snd print_segs print_seg Syn.s_ident s_args angle_toks app].
    unfold print_seg. destruct (s_args s); reflexivity.
  - assert (Hr : x :: y <> []) by discriminate.
    rewrite (strip_cons s _ Hr). cbn [fst snd].
    rewrite (print_segs_cons s _ (strip_nonempty _ Hr)), (print_segs_cons s _ Hr).
    rewrite <- !app_assoc. rewrite IH. reflexivity.
Qed.

(* the counterpart as the header spells it: `#dst #those_gens` *)
Definition tp_written (t : type_path) : list tok := tp_path t ++ angle_toks (tp_generics t).

Theorem type_path_prints_back : forall p, tp_written (type_path_of_path p) = print_path p.
Proof.
  intro p. unfold tp_written, type_path_of_path.
  pose proof (print_segs_strip (p_segs p)) as H.
  destruct (strip_last_args (p_segs p)) as [segs' a]. cbn [fst snd] in H.
  destruct a as [g|]; cbn [tp_path tp_generics angle_toks].
  - unfold print_path. cbn [p_lead p_segs]. rewrite <- app_assoc. cbn [angle_toks] in H. rewrite H. reflexivity.
  - rewrite app_nil_r. reflexivity.
Qed.

(* in every requested impl the counterpart side of the header carries exactly these tokens *)
Theorem header_names_the_counterpart : forall d c,
    In c (impl_contexts d) ->
    (if is_from (c_kind c) then c_src c else c_dst c) = tp_path (c_ty c) /\
    (if is_from (c_kind c) then c_dst c else c_src c) = [TIdent (dt_ident d)].
Proof.
  intros d c Hc. unfold impl_contexts in Hc. apply in_flat_map in Hc. destruct Hc as [kf [_ Hc]].
  apply in_map_iff in Hc. destruct Hc as [a [Hc _]]. subst c. unfold c_ty. cbn [c_kind c_src c_dst c_core].
  destruct (is_from (fst kf)); split; reflexivity.
Qed.

Theorem header_counterpart_env : forall t c,
    env_get (trait_env t c) "dst" = c_dst c /\ env_get (trait_env t c) "src" = c_src c /\
    env_get (trait_env t c) "those_gens" = angle_toks (tp_generics (c_ty c)).
Proof. intros t c. repeat split. Qed.

(* `::x::y::A::<T>` keeps its leading `::` and its segments; the arguments follow *)
Example rooted_generic_counterpart :
  let p := {| p_lead := true;
              p_segs := [{| Syn.s_ident := "x"; s_args := None |};
                         {| Syn.s_ident := "A"; s_args := Some {| a_colon2 := false; a_args := [(GOther [TIdent "u8"], false)] |} |}] |} in
  tp_path (type_path_of_path p) = colon2 ++ [TIdent "x"] ++ colon2 ++ [TIdent "A"] /\
  tp_written (type_path_of_path p) = print_path p.
Proof. split; reflexivity. Qed.

(* the declared error type is carried the same way: `#err_ty #err_gens` *)
Theorem error_type_prints_back : forall c e en,
    tc_err (c_core c) = Some e -> err_env c = Ok en ->
    env_get en "err_ty" ++ env_get en "err_gens" = tp_written e.
Proof.
  intros c e en He H. unfold err_env in H. rewrite He in H. inversion H; subst en. reflexivity.
Qed.
