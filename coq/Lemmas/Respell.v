(* C13 end to end: respelling a run of type-level instructions (one #[o2o(..)] list <-> the directly written attributes), anywhere
   among the type's attributes, leaves the WHOLE outcome of the derive unchanged; the same for the attributes of any field. *)
From Coq Require Import List String Ascii Bool Arith Lia.
From O2o.Gen Require Import Tables.
From O2o.Model Require Import Tok Syn Attr Ast Lookup Validate Expand Derive.
From O2o.Lemmas Require Import TablesFacts Spelling Groups Foreign.
Import ListNotations.
Open Scope string_scope.
Open Scope list_scope.

Lemma dt_attrs_respelled be pre l trailing post :
  Forall (fun x => ordinary be (fst x) /\ dt_stable (fst x) = true) l ->
  get_data_type_attrs be (pre ++ o2o_attr (group_toks l trailing) :: post) = get_data_type_attrs be (pre ++ bares l ++ post).
Proof.
  intro Hf. unfold get_data_type_attrs. rewrite !(dt_instrs_app be pre).
  destruct (dt_instrs be pre true) as [[i1 b1]| | |]; cbn [bind]; try reflexivity.
  rewrite (dt_o2o_group_is_bare be l trailing post b1 Hf). reflexivity.
Qed.

Theorem respelling_whole_derive_type_level : forall be order order_tp x pre l trailing post,
    ri_attrs x = pre ++ o2o_attr (group_toks l trailing) :: post ->
    Forall (fun x => ordinary be (fst x) /\ dt_stable (fst x) = true) l ->
    raw_has_none x = false -> raw_has_none (with_attrs x (pre ++ bares l ++ post)) = false ->
    derive_model be order order_tp x = derive_model be order order_tp (with_attrs x (pre ++ bares l ++ post)).
Proof.
  intros be order order_tp x pre l trailing post Hx Hf Hn Hn'. unfold derive_model. rewrite Hn, Hn'.
  assert (Hparse : parse_input be x = parse_input be (with_attrs x (pre ++ bares l ++ post))).
  { unfold parse_input, with_attrs. cbn [ri_data]. destruct (ri_data x) as [sh fs|vs|]; [| |reflexivity].
    - unfold struct_from_syn. cbn [ri_attrs ri_ident ri_generics ri_where]. rewrite Hx, (dt_attrs_respelled be pre l trailing post Hf). reflexivity.
    - unfold enum_from_syn. cbn [ri_attrs ri_ident ri_generics ri_where]. rewrite Hx, (dt_attrs_respelled be pre l trailing post Hf). reflexivity. }
  unfold derive_res. rewrite Hparse. reflexivity.
Qed.

(* member level: the attributes of a field / variant *)
Lemma member_attrs_respelled be fty pre l trailing post bark :
  Forall (fun x => ordinary be (fst x) /\ mb_stable (fst x) = true) l ->
  get_member_attrs be fty (pre ++ o2o_attr (group_toks l trailing) :: post) bark = get_member_attrs be fty (pre ++ bares l ++ post) bark.
Proof.
  intro Hf. unfold get_member_attrs. rewrite !(mb_instrs_app be pre).
  destruct (mb_instrs be pre bark) as [i1| | |]; cbn [bind]; try reflexivity.
  rewrite (mb_o2o_group_is_bare be l trailing post bark Hf). reflexivity.
Qed.

(* respelling the attributes of any one field of a struct: whole outcome unchanged, whatever the bark flag *)
Theorem respelling_whole_derive_field : forall be order order_tp x sh fs1 f fs2 pre l trailing post attrs bark,
    ri_data x = RStruct sh (fs1 ++ f :: fs2) -> rf_attrs f = pre ++ o2o_attr (group_toks l trailing) :: post ->
    Forall (fun x => ordinary be (fst x) /\ mb_stable (fst x) = true) l ->
    get_data_type_attrs be (ri_attrs x) = Ok (attrs, bark) ->
    raw_has_none x = false ->
    let f' := {| rf_member := rf_member f; rf_typath := rf_typath f; rf_ty := rf_ty f; rf_attrs := pre ++ bares l ++ post |} in
    raw_has_none (with_data x (RStruct sh (fs1 ++ f' :: fs2))) = false ->
    derive_model be order order_tp x = derive_model be order order_tp (with_data x (RStruct sh (fs1 ++ f' :: fs2))).
Proof.
  intros be order order_tp x sh fs1 f fs2 pre l trailing post attrs bark Hd Hfa Hf Hg Hn f' Hn'.
  apply (equivalent_members_whole_derive be order order_tp x _ attrs bark Hg); [|exact Hn|exact Hn'].
  rewrite Hd. cbn [data_equiv]. split; [reflexivity|].
  apply Forall2_app; [apply field_equiv_refl|]. constructor; [|apply field_equiv_refl].
  unfold field_equiv, f'. cbn [rf_member rf_typath rf_ty rf_attrs]. repeat split. rewrite Hfa.
  exact (member_attrs_respelled be (Some (rf_ty f)) pre l trailing post bark Hf).
Qed.

Lemma variant_equiv_refl be bark : forall l, Forall2 (variant_equiv be bark) l l.
Proof. induction l; constructor; [repeat split; apply field_equiv_refl|assumption]. Qed.

(* respelling the attributes of any one variant of an enum, or of any one payload field of a variant: whole outcome unchanged *)
Theorem respelling_whole_derive_variant : forall be order order_tp x vs1 v vs2 pre l trailing post attrs bark,
    ri_data x = REnum (vs1 ++ v :: vs2) -> rv_attrs v = pre ++ o2o_attr (group_toks l trailing) :: post ->
    Forall (fun x => ordinary be (fst x) /\ mb_stable (fst x) = true) l ->
    get_data_type_attrs be (ri_attrs x) = Ok (attrs, bark) ->
    raw_has_none x = false ->
    let v' := {| rv_ident := rv_ident v; rv_shape := rv_shape v; rv_attrs := pre ++ bares l ++ post; rv_fields := rv_fields v |} in
    raw_has_none (with_data x (REnum (vs1 ++ v' :: vs2))) = false ->
    derive_model be order order_tp x = derive_model be order order_tp (with_data x (REnum (vs1 ++ v' :: vs2))).
Proof.
  intros be order order_tp x vs1 v vs2 pre l trailing post attrs bark Hd Hva Hf Hg Hn v' Hn'.
  apply (equivalent_members_whole_derive be order order_tp x _ attrs bark Hg); [|exact Hn|exact Hn'].
  rewrite Hd. cbn [data_equiv].
  apply Forall2_app; [apply variant_equiv_refl|]. constructor; [|apply variant_equiv_refl].
  unfold variant_equiv, v'. cbn [rv_ident rv_shape rv_fields rv_attrs]. repeat split; [apply field_equiv_refl|]. rewrite Hva.
  exact (member_attrs_respelled be None pre l trailing post bark Hf).
Qed.

Theorem respelling_whole_derive_payload_field : forall be order order_tp x vs1 v vs2 fs1 f fs2 pre l trailing post attrs bark,
    ri_data x = REnum (vs1 ++ v :: vs2) -> rv_fields v = fs1 ++ f :: fs2 -> rf_attrs f = pre ++ o2o_attr (group_toks l trailing) :: post ->
    Forall (fun x => ordinary be (fst x) /\ mb_stable (fst x) = true) l ->
    get_data_type_attrs be (ri_attrs x) = Ok (attrs, bark) ->
    raw_has_none x = false ->
    let f' := {| rf_member := rf_member f; rf_typath := rf_typath f; rf_ty := rf_ty f; rf_attrs := pre ++ bares l ++ post |} in
    let v' := {| rv_ident := rv_ident v; rv_shape := rv_shape v; rv_attrs := rv_attrs v; rv_fields := fs1 ++ f' :: fs2 |} in
    raw_has_none (with_data x (REnum (vs1 ++ v' :: vs2))) = false ->
    derive_model be order order_tp x = derive_model be order order_tp (with_data x (REnum (vs1 ++ v' :: vs2))).
Proof.
  intros be order order_tp x vs1 v vs2 fs1 f fs2 pre l trailing post attrs bark Hd Hvf Hfa Hf Hg Hn f' v' Hn'.
  apply (equivalent_members_whole_derive be order order_tp x _ attrs bark Hg); [|exact Hn|exact Hn'].
  rewrite Hd. cbn [data_equiv].
  apply Forall2_app; [apply variant_equiv_refl|]. constructor; [|apply variant_equiv_refl].
  unfold variant_equiv, v'. cbn [rv_ident rv_shape rv_fields rv_attrs]. repeat split. rewrite Hvf.
  apply Forall2_app; [apply field_equiv_refl|]. constructor; [|apply field_equiv_refl].
  unfold field_equiv, f'. cbn [rf_member rf_typath rf_ty rf_attrs]. repeat split. rewrite Hfa.
  exact (member_attrs_respelled be (Some (rf_ty f)) pre l trailing post bark Hf).
Qed.
