(* C14: the closure-threaded repeat context of ast.rs equals a declarative "written-out" form. *)
From Coq Require Import List String Ascii Bool Arith.
From O2o.Model Require Import Tok Syn Attr Ast.
Import ListNotations.
Open Scope list_scope.

Section Thread.
  Context {C : Type}.
  Variable mk : member_attrs -> mrepeat_attr -> C.
  Variable get : C -> member_attrs.
  Hypothesis get_mk : forall a r, get (mk a r) = a.

  (* the member sequence threaded as Field::multiple_from_syn / Variant::multiple_from_syn do *)
  Fixpoint thread_all (ctx : option C) (l : list member_attrs) : res (list member_attrs * option C) :=
    match l with
    | [] => Ok ([], ctx)
    | a :: r =>
        '(ctx', a') <- thread_repeat mk get ctx a ;;
        '(r', ctx'') <- thread_all ctx' r ;;
        Ok (a' :: r', ctx'')
    end.

  (* declaratively: the block active after a prefix (given in reverse) is opened by the last member
     carrying `repeat` and closed by a later `stop_repeat` *)
  Fixpoint active_rev (ctx0 : option C) (rev_prefix : list member_attrs) : option C :=
    match rev_prefix with
    | [] => ctx0
    | a :: r =>
        match m_repeat a with
        | Some rp => Some (mk a rp)
        | None => if m_stop a then None else active_rev ctx0 r
        end
    end.

  (* what a member becomes: itself when it opens a block; otherwise its own instructions followed by
     the block's instructions of the selected categories (merge), unless marked skip_repeat *)
  Definition written_out (ctx0 : option C) (rev_prefix : list member_attrs) (a : member_attrs) : member_attrs :=
    match m_repeat a with
    | Some _ => a
    | None =>
        match (if m_stop a then None else active_rev ctx0 rev_prefix) with
        | Some c => merge_member_attrs a (get c)
        | None => a
        end
    end.

  Fixpoint unroll (ctx0 : option C) (rev_prefix : list member_attrs) (l : list member_attrs) : list member_attrs :=
    match l with
    | [] => []
    | a :: r => written_out ctx0 rev_prefix a :: unroll ctx0 (a :: rev_prefix) r
    end.

  Lemma thread_step : forall ctx0 pre a ctx' a',
      thread_repeat mk get (active_rev ctx0 pre) a = Ok (ctx', a') ->
      a' = written_out ctx0 pre a /\ ctx' = active_rev ctx0 (a :: pre).
  Proof.
    intros ctx0 pre a ctx' a'. unfold thread_repeat, written_out. cbn [active_rev].
    destruct (m_repeat a) as [rp|]; destruct (m_stop a); cbn [negb];
      destruct (active_rev ctx0 pre) as [c|]; intro H; try discriminate; injection H as <- <-; auto.
  Qed.

  Theorem thread_is_unroll : forall l ctx0 pre l' ctxe,
      thread_all (active_rev ctx0 pre) l = Ok (l', ctxe) ->
      l' = unroll ctx0 pre l /\ ctxe = active_rev ctx0 (rev l ++ pre).
  Proof.
    induction l as [|a r IH]; intros ctx0 pre l' ctxe H; cbn [thread_all] in H.
    - injection H as <- <-. auto.
    - destruct (thread_repeat mk get (active_rev ctx0 pre) a) as [[ctx' a']| | |] eqn:E; cbn [bind] in H; try discriminate.
      destruct (thread_step _ _ _ _ _ E) as [-> ->].
      destruct (thread_all (active_rev ctx0 (a :: pre)) r) as [[r' ce]| | |] eqn:E2; cbn [bind] in H; try discriminate.
      injection H as <- <-. destruct (IH _ _ _ _ E2) as [-> ->]. cbn [unroll rev]. rewrite <- app_assoc. auto.
  Qed.

  (* the only failure of threading: a second `repeat` while a block is still open *)
  Theorem thread_error : forall l ctx0 pre m,
      thread_all (active_rev ctx0 pre) l = Err m ->
      m = unterminated_repeat /\
      exists l1 a l2, l = l1 ++ a :: l2 /\ is_some (m_repeat a) = true /\ m_stop a = false /\
                      is_some (active_rev ctx0 (rev l1 ++ pre)) = true.
  Proof.
    induction l as [|a r IH]; intros ctx0 pre m H; cbn [thread_all] in H; [discriminate|].
    destruct (thread_repeat mk get (active_rev ctx0 pre) a) as [[ctx' a']| m' | |] eqn:E; cbn [bind] in H; try discriminate.
    - destruct (thread_step _ _ _ _ _ E) as [-> ->].
      destruct (thread_all (active_rev ctx0 (a :: pre)) r) as [[r' ce]| m' | |] eqn:E2; cbn [bind] in H; try discriminate.
      injection H as <-. destruct (IH _ _ _ E2) as [Hm [l1 [b [l2 [Hl [Hr [Hs Ha]]]]]]].
      split; [exact Hm|]. exists (a :: l1), b, l2. cbn [rev app]. rewrite <- app_assoc. subst r. auto.
    - injection H as <-. unfold thread_repeat in E.
      destruct (m_repeat a) as [rp|] eqn:Er; destruct (m_stop a) eqn:Es; cbn [negb] in E;
        destruct (active_rev ctx0 pre) as [c|] eqn:Ea; try discriminate.
      injection E as <-. split; [reflexivity|]. exists [], a, r. cbn [rev app]. rewrite Er, Ea. auto.
  Qed.
End Thread.

(* a member marked skip_repeat is never touched; otherwise merge appends exactly the selected categories, own instructions first *)
Lemma merge_skip : forall a c, m_skip a = true -> merge_member_attrs a c = a.
Proof. intros a c H. unfold merge_member_attrs. rewrite H. reflexivity. Qed.

Lemma merge_appends : forall a c r, m_skip a = false -> m_repeat c = Some r ->
    m_attrs (merge_member_attrs a c) = m_attrs a ++ (if rep_flag r 0 then m_attrs c else []) /\
    m_child (merge_member_attrs a c) = m_child a ++ (if rep_flag r 1 then m_child c else []) /\
    m_parent (merge_member_attrs a c) = m_parent a ++ (if rep_flag r 2 then m_parent c else []) /\
    m_ghost (merge_member_attrs a c) = m_ghost a ++ (if rep_flag r 3 then m_ghost c else []) /\
    m_hint (merge_member_attrs a c) = m_hint a ++ (if rep_flag r 4 then m_hint c else []) /\
    m_ghosts (merge_member_attrs a c) = m_ghosts a /\ m_lit (merge_member_attrs a c) = m_lit a /\ m_pat (merge_member_attrs a c) = m_pat a.
Proof. intros a c r Hs Hr. unfold merge_member_attrs. rewrite Hs, Hr. cbn. auto 10. Qed.

(* the category positions are the (regenerated) MEMBER_REPEAT_TYPES table's *)
Lemma repeat_categories : O2o.Gen.Tables.member_repeat_types = ["map"; "child"; "parent"; "ghost"; "type_hint"]%string.
Proof. reflexivity. Qed.

Example unroll_example :
  let rp := {| mr_permeate := false; mr_for := [true; true; true; true; true] |} in
  let a := {| m_attrs := []; m_child := [{| ch_ty := None; ch_path := [MNamed "p"] |}]; m_parent := []; m_ghost := []; m_ghosts := [];
              m_lit := []; m_pat := []; m_repeat := Some rp; m_skip := false; m_stop := false; m_hint := []; m_errs := [] |} in
  let b := empty_member_attrs in
  map m_child (unroll (fun x _ => x) (fun x => x) None [] [a; b]) = [m_child a; m_child a].
Proof. reflexivity. Qed.

(* Field::multiple_from_syn is this threading, applied to the members' parsed instructions *)
Fixpoint mk_fields (i : nat) (fs : list raw_field) (attrs : list member_attrs) : list field :=
  match fs, attrs with
  | rf :: fs', a :: attrs' =>
      {| f_attrs := a; f_idx := i; f_member := rf_member rf; f_member_str := member_str (rf_member rf); f_ty := rf_typath rf |}
      :: mk_fields (S i) fs' attrs'
  | _, _ => []
  end.

Theorem fields_from_syn_threads : forall be bark fs ctx i attrs,
    mapM (fun rf => get_member_attrs be (Some (rf_ty rf)) (rf_attrs rf) bark) fs = Ok attrs ->
    fields_from_syn be bark ctx i fs =
    ('(attrs', ctx') <- thread_all (fun a r => (a, mr_permeate r)) fst ctx attrs ;; Ok (mk_fields i fs attrs', ctx')).
Proof.
  intros be bark fs. induction fs as [|rf fs IH]; intros ctx i attrs H; cbn [mapM] in H.
  - injection H as <-. reflexivity.
  - destruct (get_member_attrs be (Some (rf_ty rf)) (rf_attrs rf) bark) as [a| | |] eqn:Ea; cbn [bind] in H; try discriminate.
    destruct (mapM _ fs) as [as'| | |] eqn:Em; cbn [bind] in H; try discriminate.
    injection H as <-. cbn [fields_from_syn thread_all]. rewrite Ea. cbn [bind].
    destruct (thread_repeat _ fst ctx a) as [[ctx1 a1]| | |]; cbn [bind]; try reflexivity.
    rewrite (IH ctx1 (S i) as' eq_refl).
    destruct (thread_all _ fst ctx1 as') as [[r' ce]| | |]; cbn [bind mk_fields]; reflexivity.
Qed.
