(* C20, closed world: every identifier of the generated code is one of the listed literals the renderer writes
   itself, a payload binding f<n>, or an identifier of the (parsed) input.  Proved compositionally over the whole
   of Expand.v, for every input - the analogue of PanicFree.v for identifiers. *)
From Coq Require Import List String Ascii Bool Arith.
From O2o.Model Require Import Tok Syn Attr Ast Lookup Expand.
From O2o.Gen Require Import Skeleton.
From O2o.Lemmas Require Import NoStd.
Import ListNotations.
Open Scope string_scope.
Open Scope list_scope.

(* what the renderer writes besides the templates' identifiers *)
Definition expand_literals : list string := allow_idents ++ ["match"; "_"; "where"].

Lemma nested_idents l : (fix go (l : list tok) : list string := match l with [] => [] | x :: r => tok_idents x ++ go r end) l = toks_idents l.
Proof. induction l as [|x r IH]; [reflexivity|]. cbn [toks_idents flat_map]. rewrite IH. reflexivity. Qed.

Lemma toks_idents_app a b : toks_idents (a ++ b) = toks_idents a ++ toks_idents b.
Proof. unfold toks_idents. apply flat_map_app. Qed.

Lemma toks_idents_group d l r : toks_idents (TGroup d l :: r) = toks_idents l ++ toks_idents r.
Proof. cbn [toks_idents flat_map tok_idents]. rewrite nested_idents. reflexivity. Qed.

(* the provenance predicate: holds of the listed literals and of the payload bindings f<n> *)
Class Prov := { P : string -> Prop;
                P_lit : forall i, In i expand_literals -> P i;
                P_f : forall n, P (f_ident n) }.

#[export] Hint Resolve P_f : core.
Ltac lit := apply P_lit; vm_compute; tauto.

Section ProvA.
  Context `{Pv : Prov}.

  Definition TI (ts : list tok) : Prop := forall i, In i (toks_idents ts) -> P i.

  Lemma TI_nil : TI []. Proof. intros i []. Qed.
  Lemma TI_app a b : TI a -> TI b -> TI (a ++ b).
  Proof. intros Ha Hb i Hi. rewrite toks_idents_app in Hi. apply in_app_or in Hi. destruct Hi; auto. Qed.
  Lemma TI_app_inv a b : TI (a ++ b) -> TI a /\ TI b.
  Proof. intro H. split; intros i Hi; apply H; rewrite toks_idents_app; apply in_or_app; auto. Qed.
  Lemma TI_ident s r : P s -> TI r -> TI (TIdent s :: r).
  Proof. intros Hs Hr i [<-|Hi]; auto. Qed.
  Lemma TI_punct c j r : TI r -> TI (TPunct c j :: r).
  Proof. intros Hr i Hi. apply Hr. exact Hi. Qed.
  Lemma TI_lit s r : TI r -> TI (TLit s :: r).
  Proof. intros Hr i Hi. apply Hr. exact Hi. Qed.
  Lemma TI_group d l r : TI l -> TI r -> TI (TGroup d l :: r).
  Proof. intros Hl Hr i Hi. rewrite toks_idents_group in Hi. apply in_app_or in Hi. destruct Hi; auto. Qed.
  Lemma TI_cons t r : TI [t] -> TI r -> TI (t :: r).
  Proof. intros Ht Hr. exact (TI_app [t] r Ht Hr). Qed.
  Lemma TI_concat l : Forall TI l -> TI (List.concat l).
  Proof. induction 1 as [|x l Hx _ IH]; [apply TI_nil|]. cbn [List.concat]. apply TI_app; assumption. Qed.
  Lemma TI_flat_map {A} (f : A -> list tok) l : (forall x, In x l -> TI (f x)) -> TI (flat_map f l).
  Proof. induction l as [|x l IH]; intro H; [apply TI_nil|]. cbn [flat_map]. apply TI_app; [apply H; left; reflexivity | apply IH; intros y Hy; apply H; right; exact Hy]. Qed.

  Definition member_ok (m : member) : Prop := match m with MNamed s => P s | MIndex _ => True end.
  Definition opt_ok {A} (Q : A -> Prop) (o : option A) : Prop := match o with Some a => Q a | None => True end.

  Lemma TI_member m r : member_ok m -> TI r -> TI (member_tok m :: r).
  Proof. destruct m as [s|n]; cbn [member_tok member_ok]; intros Hm Hr; [apply TI_ident | apply TI_lit]; assumption. Qed.
  Lemma TI_f n r : TI r -> TI (TIdent (f_ident n) :: r).
  Proof. intro Hr. apply TI_ident; [apply P_f | exact Hr]. Qed.

  Lemma TI_member_path l : Forall member_ok l -> TI (print_member_path l).
  Proof.
    induction 1 as [|m l Hm Hl IH]; [apply TI_nil|]. destruct l as [|m' l']; cbn [print_member_path].
    - apply TI_member; [exact Hm | apply TI_nil].
    - apply TI_member; [exact Hm|]. apply TI_punct. exact IH.
  Qed.

  (* ---- substitution ---- *)
  Lemma TI_subst at_ tilde : TI at_ -> TI tilde -> forall ts, TI ts -> TI (subst at_ tilde ts).
  Proof.
    intros Ha Ht.
    assert (Hall : forall t, TI [t] -> TI (subst_tok at_ tilde t)).
    { refine (tok_ind2 (fun t => TI [t] -> TI (subst_tok at_ tilde t)) (fun l => TI l -> TI (flat_map (subst_tok at_ tilde) l)) _ _ _ _ _ _).
      - intros s H. exact H.
      - intros c j _. cbn [subst_tok]. destruct (Ascii.eqb c "~"); [exact Ht|]. destruct (Ascii.eqb c "@"); [exact Ha|]. apply TI_punct, TI_nil.
      - intros s _. apply TI_lit, TI_nil.
      - intros d ts IH H. cbn [subst_tok].
        assert (E : (fix go (l : list tok) : list tok := match l with [] => [] | x :: r => subst_tok at_ tilde x ++ go r end) ts = flat_map (subst_tok at_ tilde) ts).
        { clear. induction ts as [|x r IHr]; [reflexivity|]. cbn [flat_map]. rewrite IHr. reflexivity. }
        rewrite E.
        assert (Hts : TI ts). { intros i Hi. apply H. rewrite toks_idents_group. apply in_or_app. left. exact Hi. }
        destruct d; try (apply TI_group; [apply IH; exact Hts | apply TI_nil]). apply IH. exact Hts.
      - intros _. apply TI_nil.
      - intros t ts IHt IHts H. cbn [flat_map]. destruct (TI_app_inv [t] ts H) as [H1 H2]. apply TI_app; [apply IHt; exact H1 | apply IHts; exact H2]. }
    intros ts H. unfold subst. apply TI_flat_map. intros x Hx. apply Hall. intros i Hi. apply H.
    unfold toks_idents. apply in_flat_map. exists x. split; [exact Hx|]. cbn [toks_idents flat_map] in Hi. rewrite app_nil_r in Hi. exact Hi.
  Qed.

  (* ---- "ok" predicates over the views: every identifier they carry satisfies P ---- *)
  Definition oTI (o : option (list tok)) : Prop := opt_ok TI o.
  Definition omember_ok (o : option member) : Prop := opt_ok member_ok o.

  Definition pcf_attr_ok (a : pcf_attr) : Prop := omember_ok (pf_member a) /\ oTI (pf_action a).
  Definition pcf_ok (p : parent_child_field) : Prop :=
    member_ok (pc_this p) /\ Forall pcf_attr_ok (pc_attrs p) /\ TI (pc_sub_toks p) /\
    Forall (fun x => member_ok (fst x) /\ oTI (snd x)) (pc_sub p).
  Definition applicable_ok (a : applicable) : Prop :=
    match a with
    | AField mc => omember_ok (mc_member mc) /\ oTI (mc_action mc)
    | AGhost g => oTI (fg_action g)
    | AParentChild p _ => pcf_ok p
    end.
  Definition fview_ok (f : fview) : Prop :=
    member_ok (fv_member f) /\ oTI (fv_ty f) /\ opt_ok (Forall member_ok) (fv_child f) /\
    opt_ok (fun g => oTI (fg_action g)) (fv_ghost f) /\ opt_ok (Forall pcf_ok) (fv_pparent f) /\ opt_ok applicable_ok (fv_attr f).
  Definition ghost_data_ok (g : ghost_data) : Prop :=
    opt_ok (Forall member_ok) (gd_path g) /\
    match gd_ident g with GMember m => member_ok m | GDestr ts => TI ts end /\ TI (gd_action g).
  Definition ghosts_ok (g : ghosts_core) : Prop := Forall ghost_data_ok (sg_data g).
  Definition child_parents_ok (a : child_parents_attr) : Prop := Forall (fun cd => TI (cd_ty cd)) (ca_data a).
  Definition sview_ok (s : sview) : Prop :=
    Forall fview_ok (sv_fields s) /\ opt_ok ghosts_ok (sv_ghosts s) /\ opt_ok child_parents_ok (sv_child_parents s).
  Definition vview_ok (v : vview) : Prop :=
    P (vv_ident v) /\ sview_ok (vv_struct v) /\ opt_ok applicable_ok (vv_attr v) /\
    opt_ok (fun l => TI (lp_toks l)) (vv_lit v) /\ opt_ok (fun l => TI (lp_toks l)) (vv_pat v).
  Definition dview_ok (d : dview) : Prop :=
    match d with VStruct s => sview_ok s | VEnum vs g => Forall vview_ok vs /\ opt_ok ghosts_ok g end.

  Definition angle_ok (a : angle) : Prop :=
    Forall (fun x => match fst x with GLt n => P n | GOther ts => TI ts end) (a_args a).
  Definition type_path_ok (t : type_path) : Prop := TI (tp_path t) /\ opt_ok angle_ok (tp_generics t).
  Definition core_ok (tc : trait_core) : Prop :=
    type_path_ok (tc_ty tc) /\ opt_ok type_path_ok (tc_err tc) /\
    opt_ok (Forall (fun x => P (id_ident x) /\ TI (id_action x))) (tc_init tc) /\
    oTI (tc_update tc) /\ oTI (tc_qret tc) /\ oTI (tc_default tc) /\
    oTI (tc_attr tc) /\ oTI (tc_impl_attr tc) /\ oTI (tc_inner_attr tc).
  Definition ictx_ok (c : ictx) : Prop := TI (c_dst c) /\ TI (c_src c) /\ core_ok (c_core c).
  Definition gparam_ok (g : gparam) : Prop := P (gp_name g) /\ TI (gp_decl g).
  Definition tview_ok (t : tview) : Prop :=
    Forall gparam_ok (tv_generics t) /\ dview_ok (tv_data t) /\ opt_ok (fun w => Forall TI (wa_preds w)) (tv_where t) /\ Forall TI (tv_own_where t).

  (* ---- results ---- *)
  Definition RR {A} (Q : A -> Prop) (r : res A) : Prop := forall a, r = Ok a -> Q a.
  Lemma RR_ok {A} (Q : A -> Prop) a : Q a -> RR Q (Ok a). Proof. intros H b E. injection E as <-. exact H. Qed.
  Lemma RR_panic {A} (Q : A -> Prop) s : RR Q (Panic s). Proof. intros b E. discriminate. Qed.
  Lemma RR_err {A} (Q : A -> Prop) m : RR Q (Err m). Proof. intros b E. discriminate. Qed.
  Lemma RR_oom {A} (Q : A -> Prop) w : RR Q (Oom w). Proof. intros b E. discriminate. Qed.
  Lemma RR_bind {A B} (Q1 : A -> Prop) (Q2 : B -> Prop) (r : res A) (k : A -> res B) :
    RR Q1 r -> (forall a, Q1 a -> RR Q2 (k a)) -> RR Q2 (bind r k).
  Proof. intros Hr Hk b E. destruct r as [a| | |]; cbn [bind] in E; try discriminate. exact (Hk a (Hr a eq_refl) b E). Qed.
  Lemma RR_mapM {A B} (Q : B -> Prop) (f : A -> res B) l : (forall x, In x l -> RR Q (f x)) -> RR (Forall Q) (mapM f l).
  Proof.
    induction l as [|x l IH]; intro H; cbn [mapM]; [apply RR_ok; constructor|].
    apply (RR_bind Q); [apply H; left; reflexivity|]. intros y Hy.
    apply (RR_bind (Forall Q)); [apply IH; intros z Hz; apply H; right; exact Hz|]. intros ys Hys. apply RR_ok. constructor; assumption.
  Qed.
  Lemma RR_weaken {A} (Q Q' : A -> Prop) r : (forall a, Q a -> Q' a) -> RR Q r -> RR Q' r.
  Proof. intros H Hr a E. apply H, Hr, E. Qed.

  Definition RT := RR TI.

  (* ---- small pieces ---- *)
  Lemma TI_src_ident c : TI (src_ident c).
  Proof. unfold src_ident. destruct (is_from (c_kind c)); (apply TI_ident; [lit | apply TI_nil]). Qed.

  Lemma TI_quote_action action post c : ictx_ok c -> TI action -> oTI post -> TI (quote_action action post c).
  Proof.
    intros (Hd & Hs & _) Ha Hp. unfold quote_action. apply TI_subst; [apply TI_src_ident| |exact Ha].
    assert (Hpost : TI (match post with Some p => p | None => [] end)). { destruct post; [exact Hp | apply TI_nil]. }
    destruct (c_impl_type c).
    - apply TI_app; [apply TI_src_ident|]. apply TI_app; [apply TI_punct, TI_nil | exact Hpost].
    - apply TI_app; [exact Hd|]. apply TI_app; [repeat apply TI_punct; apply TI_nil | exact Hpost].
    - exact Hpost.
  Qed.

  Lemma find_ok {A} (Q : A -> Prop) f (l : list A) x : Forall Q l -> find f l = Some x -> Q x.
  Proof. intros H E. apply find_some in E. destruct E as [Hin _]. rewrite Forall_forall in H. apply H, Hin. Qed.

  Lemma pcf_find_ok p k a : pcf_ok p -> pcf_find p k = Some a -> pcf_attr_ok a.
  Proof. intros (_ & Hat & _) E. unfold pcf_find in E. eapply find_ok; [exact Hat | exact E]. Qed.

  Lemma get_for_kind_ok p k a : pcf_ok p -> get_for_kind p k = Some a -> pcf_attr_ok a.
  Proof.
    intros Hp E. unfold get_for_kind, or_else in E.
    destruct (pcf_find p k) as [x|] eqn:E1; [injection E as <-; exact (pcf_find_ok p k x Hp E1)|].
    destruct (kind_eqb k OwnedIntoExisting).
    - destruct (pcf_find p OwnedInto) as [x|] eqn:E2; [injection E as <-; exact (pcf_find_ok p _ x Hp E2)|].
      destruct (kind_eqb k RefIntoExisting); [exact (pcf_find_ok p _ a Hp E) | discriminate].
    - destruct (kind_eqb k RefIntoExisting); [exact (pcf_find_ok p _ a Hp E) | discriminate].
  Qed.

  Definition RM := RR member_ok.

  Lemma RM_get_ident a : applicable_ok a -> RM (get_ident a).
  Proof.
    intro H. destruct a as [mc|g|p k]; cbn [get_ident applicable_ok] in *.
    - destruct H as [Hm _]. destruct (mc_member mc); [apply RR_ok; exact Hm | apply RR_panic].
    - apply RR_panic.
    - destruct (get_for_kind p k) as [at_|] eqn:E; [|apply RR_panic].
      destruct (get_for_kind_ok p k at_ H E) as [Hm _]. destruct (pf_member at_); [apply RR_ok; exact Hm | apply RR_panic].
  Qed.

  Lemma RM_get_field_name_or a field : applicable_ok a -> member_ok field -> RM (get_field_name_or a field).
  Proof.
    intros H Hf. destruct a as [mc|g|p k]; cbn [get_field_name_or applicable_ok] in *.
    - destruct H as [Hm _]. apply RR_ok. destruct (mc_member mc); [exact Hm | exact Hf].
    - apply RR_panic.
    - destruct (get_for_kind p k) as [at_|] eqn:E.
      + destruct (get_for_kind_ok p k at_ H E) as [Hm _]. apply RR_ok. destruct (pf_member at_); [exact Hm | apply H].
      + apply RR_ok. apply H.
  Qed.

  Lemma RT_get_action_or a fp c or_ : applicable_ok a -> ictx_ok c -> oTI fp -> TI or_ -> RT (get_action_or a fp c or_).
  Proof.
    intros H Hc Hfp Hor. destruct a as [mc|g|p k]; cbn [get_action_or applicable_ok] in *.
    - destruct H as [_ Ha]. apply RR_ok. destruct (mc_action mc); [apply TI_quote_action; assumption | exact Hor].
    - apply RR_panic.
    - destruct (get_for_kind p k) as [at_|] eqn:E.
      + destruct (get_for_kind_ok p k at_ H E) as [_ Ha]. apply RR_ok. destruct (pf_action at_); [apply TI_quote_action; assumption | exact Hor].
      + apply RR_ok. exact Hor.
  Qed.

  Lemma RT_get_stuff a obj fp c or_ :
    applicable_ok a -> ictx_ok c -> TI obj -> (forall m, member_ok m -> TI (fp m)) -> member_ok or_ -> RT (get_stuff a obj fp c or_).
  Proof.
    intros H Hc Hobj Hfp Hor.
    assert (Hinner : forall m act, omember_ok m -> oTI act ->
              RT (match m, act with
                  | Some ident, Some action =>
                      match ident with
                      | MIndex n => if is_variant c then Ok (quote_action action (Some (fp (MNamed (f_ident n)))) c)
                                    else Ok (quote_action action (Some (fp ident)) c)
                      | _ => Ok (quote_action action (Some (fp ident)) c)
                      end
                  | Some ident, None =>
                      match ident with
                      | MIndex n => if is_variant c then Ok (obj ++ fp (MNamed (f_ident n))) else Ok (obj ++ fp ident)
                      | _ => Ok (obj ++ fp ident)
                      end
                  | None, Some action => Ok (quote_action action (Some (fp or_)) c)
                  | None, None => Panic "12"
                  end)).
    { intros m act Hm Ha. destruct m as [[s|n]|], act as [action|]; cbn [omember_ok opt_ok oTI] in *;
        repeat match goal with |- RT (if ?b then _ else _) => destruct b end;
        try apply RR_panic; apply RR_ok;
        try (apply TI_quote_action; [exact Hc | exact Ha | cbn [oTI opt_ok]; apply Hfp; cbn [member_ok]; auto]);
        try (apply TI_app; [exact Hobj | apply Hfp; cbn [member_ok]; auto]). }
    unfold get_stuff. destruct a as [mc|g|p k]; cbn [applicable_ok] in H.
    - destruct H as [Hm Ha]. apply Hinner; assumption.
    - destruct (fg_action g) as [act|]; [|apply RR_panic]. apply RR_ok. apply TI_quote_action; [exact Hc | exact H | exact Logic.I].
    - destruct (get_for_kind p k) as [at_|] eqn:E.
      + destruct (get_for_kind_ok p k at_ H E) as [Hm Ha]. destruct (pf_member at_) as [mm|] eqn:Em.
        * exact (Hinner (Some mm) (pf_action at_) Hm Ha).
        * exact (Hinner (Some (pc_this p)) (pf_action at_) (proj1 H) Ha).
      + exact (Hinner (Some (pc_this p)) None (proj1 H) Logic.I).
  Qed.

  Lemma TI_parent_conv c : TI (parent_conv c).
  Proof.
    intros i Hi. apply P_lit. unfold expand_literals. apply in_or_app. left.
    assert (H := parent_conv_idents c). rewrite forallb_forall in H. specialize (H i Hi). unfold str_in in H.
    apply existsb_exists in H. destruct H as (x & Hx & E). apply String.eqb_eq in E. subst x. exact Hx.
  Qed.

End ProvA.

(* ---- tactics ---- *)
Ltac ti_step :=
  match goal with
  | |- TI [] => apply TI_nil
  | |- TI (_ ++ _) => apply TI_app
  | |- TI (TIdent (f_ident _) :: _) => apply TI_f
  | |- TI (TIdent _ :: _) => apply TI_ident; [first [assumption | lit] |]
  | |- TI (TPunct _ _ :: _) => apply TI_punct
  | |- TI (TLit _ :: _) => apply TI_lit
  | |- TI (TGroup _ _ :: _) => apply TI_group
  | |- TI (member_tok _ :: _) => apply TI_member; [first [assumption | exact Logic.I | solve [cbn [member_ok]; auto]] |]
  | |- TI ((if ?b then _ else _) :: _) => destruct b
  | |- TI (if ?b then _ else _) => destruct b
  | |- TI (print_member_path _) => apply TI_member_path; assumption
  | |- TI (parent_conv _) => apply TI_parent_conv
  | |- TI (src_ident _) => apply TI_src_ident
  | |- TI _ => assumption
  end.
Ltac ti := cbv [dot comma semi P1 PJ colon2 fatarrow dotdot arrow paren brace bracket lifetime]; repeat ti_step.
Ltac split_ifs := repeat match goal with |- context [if ?b then _ else _] => destruct b end.
Ltac side := first [assumption | exact Logic.I | solve [intros; cbn [oTI opt_ok member_ok] in *; auto; ti; auto]
                    | solve [intros; split_ifs; cbn [oTI opt_ok member_ok] in *; auto; ti; auto]].

Section ProvB.
  Context `{Pv : Prov}.

  (* ---- render_struct_line ---- *)

  Lemma RT_render_struct_line f c hint idx pc :
    fview_ok f -> ictx_ok c -> opt_ok pcf_ok pc -> RT (render_struct_line f c hint idx pc).
  Proof.
    intros (Hfm & Hfty & Hfch & Hfgh & Hfpp & Hfat) Hc Hpc.
    assert (Hfn : forall n, member_ok (MNamed (f_ident n))). { intro n. cbn [member_ok]. apply P_f. }
    assert (Hix : forall n, member_ok (MIndex n)). { intro n. exact Logic.I. }
    unfold RT, render_struct_line.
    destruct pc as [p|]; cbn [opt_ok] in Hpc; [destruct Hpc as (Hp1 & Hp2 & Hp3 & Hp4); assert (Hp : pcf_ok p) by (repeat split; assumption)|];
      destruct (fv_child f) as [ch|]; cbn [opt_ok] in Hfch; cbv zeta.
    all: match goal with
         | |- RR _ (match ?m with MNamed _ => _ | MIndex _ => _ end) => destruct m as [ident|index]
         end.
    all: try match goal with
         | |- RR _ (match fv_attr ?ff with Some _ => _ | None => _ end) => destruct (fv_attr ff) as [a|]
         end; cbn [opt_ok member_ok] in *.
    all: repeat match goal with
             | |- RR _ (if ?b then _ else _) => destruct b
             | |- RR _ (bind (get_field_name_or _ _) _) => apply (RR_bind member_ok); [apply RM_get_field_name_or; side | intros ? ?]
             | |- RR _ (bind (get_ident _) _) => apply (RR_bind member_ok); [apply RM_get_ident; side | intros ? ?]
             | |- RR _ (bind (get_action_or _ _ _ _) _) => apply (RR_bind TI); [apply RT_get_action_or; side | intros ? ?]
             | |- RR _ (bind (get_stuff _ _ _ _ _) _) => apply (RR_bind TI); [apply RT_get_stuff; side | intros ? ?]
             | |- RR _ (Panic _) => apply RR_panic
             | |- RR _ (Ok _) => apply RR_ok; ti
             end.
    all: auto.
  Qed.

  (* ---- ghost lines ---- *)
  Lemma RT_render_ghost_line g c : ghost_data_ok g -> ictx_ok c -> RT (render_ghost_line g c).
  Proof.
    intros (Hp & Hi & Ha) Hc. unfold RT, render_ghost_line.
    assert (Hr : TI (quote_action (gd_action g) None c)) by (apply TI_quote_action; [exact Hc | exact Ha | exact Logic.I]).
    assert (Hch : TI (match gd_path g with Some p => print_member_path p ++ [dot] | None => [] end)).
    { destruct (gd_path g) as [pp|]; cbn [opt_ok] in Hp; ti. }
    cbv zeta. destruct (gd_ident g) as [m|ts]; [|apply RR_panic].
    destruct (is_intoish (c_kind c)).
    - destruct (c_post_init c); [apply RR_ok; ti|]. destruct m as [ident|n]; cbn [member_ok] in Hi; apply RR_ok; ti.
    - destruct (is_into_existing (c_kind c)); [|apply RR_panic]. apply RR_ok. ti.
  Qed.

  Lemma RT_render_enum_ghost_line g c : ghost_data_ok g -> ictx_ok c -> RT (render_enum_ghost_line g c).
  Proof.
    intros (Hp & Hi & Ha) Hc. unfold RT, render_enum_ghost_line.
    assert (Hr : TI (quote_action (gd_action g) None c)) by (apply TI_quote_action; [exact Hc | exact Ha | exact Logic.I]).
    destruct Hc as (Hd & Hs & _).
    cbv zeta. destruct (gd_ident g) as [[ident|n]|ts]; cbn [member_ok] in Hi; try apply RR_panic;
      destruct (is_from (c_kind c)); apply RR_ok; ti.
  Qed.

  (* ---- containers ---- *)
  Definition cok (x : container) : Prop :=
    match fc_data x with
    | FdField f => fview_ok f
    | FdGhost g => ghost_data_ok g
    | FdParentChild f p => fview_ok f /\ pcf_ok p
    end.
  Definition Q2 (r : list tok * list container) : Prop := TI (fst r) /\ Forall cok (snd r).

  Lemma Forall_tl {A} (Q : A -> Prop) l : Forall Q l -> Forall Q (tl l).
  Proof. destruct 1; [constructor | assumption]. Qed.

  Lemma RR_nth_str l n : RR (fun _ : string => True) (nth_str l n).
  Proof. intros a _. exact Logic.I. Qed.

  Lemma RT_wrap_struct c hint named frags : TI frags -> RT (wrap_struct c hint named frags).
  Proof.
    intro H. unfold RT, wrap_struct.
    repeat match goal with
           | |- RR _ (if ?b then _ else _) => destruct b
           | |- RR _ (match ?h with HUnit => _ | HStruct => _ | HTuple => _ | HUnspecified => _ end) => destruct h
           | |- RR _ (Panic _) => apply RR_panic
           | |- RR _ (Ok _) => apply RR_ok; ti
           end.
  Qed.

  Lemma R_member_loop (c : ictx) fc hint cf gf pf :
    ictx_ok c ->
    (forall ch ms line, Forall member_ok ch -> Forall cok ms -> RT line -> RR Q2 (cf ch ms line)) ->
    (forall cp ms, Forall member_ok cp -> Forall cok ms -> RR Q2 (gf cp ms)) ->
    (forall f p ms line, fview_ok f -> pcf_ok p -> Forall cok ms -> RT line -> RR Q2 (pf f p ms line)) ->
    forall n members idx acc, Forall cok members -> TI acc -> RR Q2 (member_loop c fc hint cf gf pf n members idx acc).
  Proof.
    intros Hc Hcf Hgf Hpf. induction n as [|n IH]; intros members idx acc Hms Hacc; cbn [member_loop]; [apply RR_oom|].
    destruct members as [|m rest]; [apply RR_ok; split; [exact Hacc | constructor]|].
    inversion Hms as [|? ? Hm Hrest]; subst.
    apply (RR_bind (fun _ : bool => True)).
    { destruct fc as [[[cp o] depth]|]; [|apply RR_ok; exact Logic.I].
      apply (RR_bind (fun _ : string => True)); [apply RR_nth_str|]. intros ? _. apply RR_ok. exact Logic.I. }
    intros brk _. destruct brk; [apply RR_ok; split; [exact Hacc | exact Hms]|].
    unfold cok in Hm. destruct (fc_data m) as [f|g|f p].
    - destruct (negb (is_from (c_kind c)) && (is_some (fv_ghost f) || fv_has_parent f)); [apply IH; assumption|].
      destruct (is_from (c_kind c) && match fv_ghost f with Some g => negb (is_some (fg_action g)) | None => false end); [apply IH; assumption|].
      apply (RR_bind Q2).
      + destruct (fv_child f) as [ch|] eqn:Ech.
        * apply Hcf; [destruct Hm as (_ & _ & Hch & _); rewrite Ech in Hch; exact Hch | exact Hms | apply RT_render_struct_line; [exact Hm | exact Hc | exact Logic.I]].
        * apply (RR_bind TI); [apply RT_render_struct_line; [exact Hm | exact Hc | exact Logic.I]|]. intros line Hline. apply RR_ok. split; assumption.
      + intros [frag rest'] [Hf Hr]. apply IH; [exact Hr | apply TI_app; assumption].
    - destruct Hm as (Hgp & Hgi & Hga). destruct (gd_path g) as [cp|] eqn:Egp; [|apply RR_panic]. cbn [opt_ok] in Hgp.
      apply (RR_bind Q2); [apply Hgf; assumption|]. intros [frag rest'] [Hf Hr]. apply IH; [exact Hr | apply TI_app; assumption].
    - destruct Hm as [Hf Hp].
      apply (RR_bind Q2); [apply Hpf; try assumption; apply RT_render_struct_line; [exact Hf | exact Hc | exact Hp]|].
      intros [frag rest'] [Hfr Hr]. apply IH; [exact Hr | apply TI_app; assumption].
  Qed.
End ProvB.
