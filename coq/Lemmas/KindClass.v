(* C07: owned = by-reference for whole bodies.  Given the same resolved views (the lookups are where ownership legitimately
   matters: ghost_owned / ghost_ref, map_owned / map_ref, ...), the generated body of a conversion does not depend on the kind
   within its class (From / Into / IntoExisting) - for every struct and enum without #[parent] members, through the whole fuelled
   descent.  (With #[parent] members the two flavours differ by design: `(&value).into()` vs `value.into()`, the ownership-specific
   instruction inside #[parent(..)], and the into_existing templates.) *)
From Coq Require Import List String Ascii Bool Arith Lia.
From O2o.Model Require Import Tok Syn Attr Ast Lookup Validate Expand Derive.
From O2o.Lemmas Require Import PanicFree Designated Flavours Descent.
Import ListNotations.
Open Scope string_scope.
Open Scope list_scope.

Definition field_no_parent (f : fview) : Prop := fv_has_parent f = false /\ fv_pparent f = None.
Definition no_parents (s : sview) : Prop := Forall field_no_parent (sv_fields s).
Definition container_ok (m : container) : Prop :=
  match fc_data m with FdField f => fv_has_parent f = false | FdGhost _ => True | FdParentChild _ _ => False end.

Section Class.
  Variable c : ictx.
  Variable k' : kind.
  Hypothesis Hc : same_class (c_kind c) k'.
  Let c' := set_kind c k'.

  Let H1 : is_from (c_kind c) = is_from k'. Proof. exact (proj1 Hc). Qed.
  Let H2 : is_intoish (c_kind c) = is_intoish k'. Proof. exact (proj1 (proj2 Hc)). Qed.
  Let H3 : is_into_existing (c_kind c) = is_into_existing k'. Proof. exact (proj2 (proj2 Hc)). Qed.

  Let Ef : is_from (c_kind c') = is_from (c_kind c). Proof. symmetry. exact H1. Qed.
  Let Ei : is_intoish (c_kind c') = is_intoish (c_kind c). Proof. symmetry. exact H2. Qed.
  Let Ee : is_into_existing (c_kind c') = is_into_existing (c_kind c). Proof. symmetry. exact H3. Qed.

  Lemma qa_kind a p : quote_action a p c' = quote_action a p c.
  Proof. exact (quote_action_kind a p c k' H1). Qed.

  Lemma ghost_line_kind g : render_ghost_line g c' = render_ghost_line g c.
  Proof.
    unfold render_ghost_line, c'. rewrite (quote_action_kind _ _ c k' H1). cbn [set_kind c_kind]. rewrite <- H2, <- H3. reflexivity.
  Qed.

  Lemma wrap_struct_kind hint named frags : wrap_struct c' hint named frags = wrap_struct c hint named frags.
  Proof. unfold wrap_struct, c'. cbn [set_kind c_kind c_post_init]. rewrite <- H1, <- H3. reflexivity. Qed.

  Lemma member_loop_kind fc hint cf cf2 gf gf2 pf pf2 :
    (forall ch ms line, Forall container_ok ms -> cf2 ch ms line = cf ch ms line) ->
    (forall cp ms, Forall container_ok ms -> gf2 cp ms = gf cp ms) ->
    (forall ch ms line, suffix_of ms (cf ch ms line)) -> (forall cp ms, suffix_of ms (gf cp ms)) ->
    forall n members idx acc, Forall container_ok members ->
      member_loop c' fc hint cf2 gf2 pf2 n members idx acc = member_loop c fc hint cf gf pf n members idx acc.
  Proof.
    intros Ecf Egf Scf Sgf. induction n as [|n IH]; intros members idx acc Hok; cbn [member_loop]; [reflexivity|].
    destruct members as [|m rest]; [reflexivity|]. inversion Hok as [|? ? Hm Hrest]; subst.
    destruct (match fc with Some (cp, _, depth) => _ | None => _ end) as [brk| | |]; cbn [bind]; try reflexivity.
    destruct brk; [reflexivity|]. unfold container_ok in Hm.
    destruct (fc_data m) as [f|g|f p]; [| |contradiction Hm].
    - rewrite !Ef.
      destruct (negb (is_from (c_kind c)) && (is_some (fv_ghost f) || fv_has_parent f)); [apply IH; exact Hrest|].
      destruct (is_from (c_kind c) && _); [apply IH; exact Hrest|].
      unfold c' at 1 2. rewrite (line_same_class f c k' hint idx Hc Hm).
      destruct (fv_child f) as [ch|].
      + rewrite (Ecf ch (m :: rest) _ Hok). specialize (Scf ch (m :: rest) (render_struct_line f c hint idx None)).
        destruct (cf ch (m :: rest) _) as [[frag rest']| | |]; cbn [bind]; try reflexivity.
        apply IH. destruct (Scf frag rest' eq_refl) as [consumed E]. rewrite E in Hok. apply Forall_app in Hok. exact (proj2 Hok).
      + destruct (render_struct_line f c hint idx None) as [line| | |]; cbn [bind]; try reflexivity. apply IH. exact Hrest.
    - destruct (gd_path g) as [gp|]; [|reflexivity]. rewrite (Egf gp (m :: rest) Hok). specialize (Sgf gp (m :: rest)).
      destruct (gf gp (m :: rest)) as [[frag rest']| | |]; cbn [bind]; try reflexivity.
      apply IH. destruct (Sgf frag rest' eq_refl) as [consumed E]. rewrite E in Hok. apply Forall_app in Hok. exact (proj2 Hok).
  Qed.

  Lemma mapM_ext_in {A B} (f g : A -> res B) l : (forall x, In x l -> f x = g x) -> mapM f l = mapM g l.
  Proof.
    induction l as [|x l IH]; intro H; cbn [mapM]; [reflexivity|]. rewrite (H x (or_introl eq_refl)).
    rewrite IH by (intros y Hy; apply H; right; exact Hy). reflexivity.
  Qed.

  Variable s : sview.

  Lemma descent_kind : forall fuel,
      (forall members named fc, Forall container_ok members ->
          init_inner s c' fuel members named fc = init_inner s c fuel members named fc) /\
      (forall cp members depth hint line, Forall container_ok members ->
          child_fragment s c' fuel cp members depth hint line = child_fragment s c fuel cp members depth hint line) /\
      (forall cd members named cp depth hint, Forall container_ok members ->
          render_child s c' fuel cd members named cp depth hint = render_child s c fuel cd members named cp depth hint).
  Proof.
    induction fuel as [|fuel [IHi [IHc IHr]]]; [repeat split; intros; reflexivity|].
    destruct (descent_mutual s c fuel) as [_ [Sc [_ _]]].
    split; [|split].
    - intros members named fc Hok. rewrite !init_inner_S. cbv zeta.
      assert (Eh : c_hint c' = c_hint c) by reflexivity. rewrite Eh.
      set (hint := match fc with Some (_, Some (_, h), _) => h | _ => c_hint c end).
      set (dopt := option_map (fun x : list member * option child_render * nat => snd x) fc).
      rewrite (member_loop_kind fc hint
                 (fun ch ms line => child_fragment s c fuel ch ms dopt hint line) (fun ch ms line => child_fragment s c' fuel ch ms dopt hint line)
                 (fun cp ms => child_fragment s c fuel cp ms dopt hint (Ok [])) (fun cp ms => child_fragment s c' fuel cp ms dopt hint (Ok []))
                 (fun f p ms line => parent_child_fragment s c fuel f p ms (pcf_named p) dopt line)
                 (fun f p ms line => parent_child_fragment s c' fuel f p ms (pcf_named p) dopt line));
        [| intros; apply IHc; assumption | intros; apply IHc; assumption | intros; apply Sc | intros; apply Sc | exact Hok].
      destruct (member_loop c fc _ _ _ _ _ members 0 []) as [[frags rest]| | |]; cbn [bind]; try reflexivity.
      rewrite Ef.
      assert (Eg : forall ga, mapM (fun x => match gd_path x, fc with
                                             | Some gp, Some (cp, _, depth) => p <- nth_str (child_path_strs cp) depth ;; if String.eqb (child_path_last gp) p then render_ghost_line x c' else Ok []
                                             | None, None => render_ghost_line x c'
                                             | _, _ => Ok []
                                             end) (sg_data ga)
                          = mapM (fun x => match gd_path x, fc with
                                           | Some gp, Some (cp, _, depth) => p <- nth_str (child_path_strs cp) depth ;; if String.eqb (child_path_last gp) p then render_ghost_line x c else Ok []
                                           | None, None => render_ghost_line x c
                                           | _, _ => Ok []
                                           end) (sg_data ga)).
      { intro ga. apply mapM_ext_in. intros x _. rewrite !ghost_line_kind. reflexivity. }
      destruct (negb (is_from (c_kind c))); [destruct (sv_ghosts s) as [ga|]; [rewrite Eg|]|];
        (match goal with |- bind ?g _ = bind ?g _ => destruct g as [ghosts| | |]; cbn [bind]; try reflexivity end;
         assert (Eu : tc_update (c_core c') = tc_update (c_core c)) by reflexivity; rewrite Eu;
         destruct (tc_update (c_core c)) as [u|]; [rewrite qa_kind|]; rewrite wrap_struct_kind; reflexivity).
    - intros cp members depth hint line Hok. rewrite !child_fragment_S. cbv zeta. rewrite Ei, Ee.
      assert (En : c_named c' = c_named c) by reflexivity. rewrite En.
      destruct (match depth with None => true | Some d => _ end); [|reflexivity].
      destruct (is_intoish (c_kind c)).
      + destruct (sv_child_parents s) as [cpa|]; [|reflexivity].
        destruct (nth_str _ _) as [p| | |]; cbn [bind]; try reflexivity.
        destruct (find _ _) as [cd|]; [|reflexivity]. apply IHr. exact Hok.
      + destruct (is_into_existing (c_kind c)); [|reflexivity].
        destruct (nth_str _ _) as [p| | |]; cbn [bind]; try reflexivity. apply IHi. exact Hok.
    - intros cd members named cp depth hint Hok. rewrite !render_child_S.
      destruct (nth_error cp depth) as [name|]; [|reflexivity]. rewrite (IHi members named _ Hok).
      assert (En : c_named c' = c_named c) by reflexivity. rewrite En. reflexivity.
  Qed.
End Class.

(* the containers of a struct without #[parent] members *)
Lemma assign_groups_data : forall items groups only_new cs gs x,
    assign_groups items groups only_new = (cs, gs) -> In x cs -> exists p, In (p, fc_data x) items.
Proof.
  induction items as [|[p d] r IH]; intros groups only_new cs gs x H Hin; cbn [assign_groups] in H.
  - injection H as <- <-. destruct Hin.
  - destruct (group_of groups p) as [g|].
    + destruct (assign_groups r groups only_new) as [cs' gs'] eqn:Er. injection H as <- <-.
      apply in_app_or in Hin. destruct Hin as [Hin|Hin].
      * destruct only_new; [destruct Hin|]. destruct Hin as [<-|[]]. exists p. left. reflexivity.
      * destruct (IH _ _ _ _ _ Er Hin) as [q Hq]. exists q. right. exact Hq.
    + destruct (assign_groups r (groups ++ [p]) only_new) as [cs' gs'] eqn:Er. injection H as <- <-.
      destruct Hin as [<-|Hin]; [exists p; left; reflexivity|].
      destruct (IH _ _ _ _ _ Er Hin) as [q Hq]. exists q. right. exact Hq.
Qed.

Lemma containers_ok s : no_parents s -> Forall container_ok (sorted_containers s).
Proof.
  intro Hn. unfold sorted_containers. destruct (assign_groups (field_items s) [""] false) as [c1 g1] eqn:E1.
  destruct (assign_groups (ghost_items s) g1 true) as [c2 g2] eqn:E2.
  apply Forall_forall. intros x Hx. apply in_flat_map in Hx. destruct Hx as [g [_ Hx]]. apply filter_In in Hx. destruct Hx as [Hx _].
  apply in_app_or in Hx. unfold container_ok. destruct Hx as [Hx|Hx].
  - destruct (assign_groups_data _ _ _ _ _ _ E1 Hx) as [p Hp]. unfold field_items in Hp. apply in_flat_map in Hp.
    destruct Hp as [f [Hf Hp]]. unfold no_parents in Hn. rewrite Forall_forall in Hn. destruct (Hn f Hf) as [Hhp Hpp].
    rewrite Hpp in Hp. destruct Hp as [Hp|[]]. injection Hp as _ <-. exact Hhp.
  - destruct (assign_groups_data _ _ _ _ _ _ E2 Hx) as [p Hp]. unfold ghost_items in Hp.
    destruct (sv_ghosts s) as [ga|]; [|destruct Hp]. apply in_map_iff in Hp. destruct Hp as [y [Hy _]]. injection Hy as _ <-. exact Logic.I.
Qed.

Section Class2.
  Variable c : ictx.
  Variable k' : kind.
  Hypothesis Hc : same_class (c_kind c) k'.

  Lemma struct_init_block_kind s : no_parents s -> struct_init_block s (set_kind c k') = struct_init_block s c.
  Proof.
    intro Hn. destruct Hc as [H1 [H2 H3]]. unfold struct_init_block. cbn [set_kind c_kind c_hint]. rewrite <- H1.
    destruct (_ || _); [reflexivity|]. cbv zeta.
    destruct (descent_kind c k' Hc s (4 * (List.length (sorted_containers s) + 2) * (max_path_len (sorted_containers s) + 2))) as [Hi _].
    rewrite (Hi _ _ _ (containers_ok s Hn)). reflexivity.
  Qed.
End Class2.

Section Class3.
  Variable c : ictx.
  Variable k' : kind.
  Hypothesis Hc : same_class (c_kind c) k'.
  Let H1 : is_from (c_kind c) = is_from k'. Proof. exact (proj1 Hc). Qed.
  Let H2 : is_intoish (c_kind c) = is_intoish k'. Proof. exact (proj1 (proj2 Hc)). Qed.
  Let H3 : is_into_existing (c_kind c) = is_into_existing k'. Proof. exact (proj2 (proj2 Hc)). Qed.

  Lemma destruct_block_kind s : variant_destruct_block s (set_kind c k') = variant_destruct_block s c.
  Proof. unfold variant_destruct_block. cbn [set_kind c_kind c_hint]. rewrite <- H1. reflexivity. Qed.

  Lemma enum_ghost_line_kind x : render_enum_ghost_line x (set_kind c k') = render_enum_ghost_line x c.
  Proof. unfold render_enum_ghost_line. rewrite (quote_action_kind _ _ c k' H1). cbn [set_kind c_kind c_src]. rewrite <- H1. reflexivity. Qed.
End Class3.

Definition variant_no_parents (v : vview) : Prop := no_parents (vv_struct v).

Lemma enum_line_kind c k' v : same_class (c_kind c) k' -> variant_no_parents v ->
  render_enum_line v (set_kind c k') = render_enum_line v c.
Proof.
  intros Hc Hn. destruct Hc as [H1 [H2 H3]]. unfold render_enum_line. cbv zeta. cbn [set_kind c_kind c_fallible c_core c_dst c_src c_post_init].
  rewrite <- H1, <- H2.
  set (nc := {| c_kind := c_kind c; c_fallible := c_fallible c; c_core := c_core c;
                c_hint := match vv_hint v with Some h => th_hint h | None => HUnspecified end; c_impl_type := ITVariant;
                c_dst := c_dst c; c_src := c_src c; c_post_init := c_post_init c; c_named := sv_named (vv_struct v) |}).
  assert (Hnc : same_class (c_kind nc) k') by (repeat split; assumption).
  change {| c_kind := k'; c_fallible := c_fallible c; c_core := c_core c;
            c_hint := match vv_hint v with Some h => th_hint h | None => HUnspecified end; c_impl_type := ITVariant;
            c_dst := c_dst c; c_src := c_src c; c_post_init := c_post_init c; c_named := sv_named (vv_struct v) |} with (set_kind nc k').
  rewrite (destruct_block_kind nc k' Hnc), (struct_init_block_kind nc k' Hnc _ Hn).
  match goal with |- bind ?d _ = _ => destruct d as [destr| | |]; cbn [bind]; try reflexivity end.
  match goal with |- bind ?d _ = _ => destruct d as [init| | |]; cbn [bind]; try reflexivity end.
  destruct (vv_attr v) as [a|], (vv_lit v), (vv_pat v); try reflexivity;
    rewrite ?(get_action_or_kind _ _ c k' _ H1), ?(get_stuff_kind _ _ _ c k' _ H1); reflexivity.
Qed.

Definition dview_no_parents (d : dview) : Prop :=
  match d with VStruct s => no_parents s | VEnum vs _ => Forall variant_no_parents vs end.

Lemma enum_init_block_kind c k' vs ghosts : same_class (c_kind c) k' -> Forall variant_no_parents vs ->
  enum_init_block vs ghosts (set_kind c k') = enum_init_block vs ghosts c.
Proof.
  intros Hc Hn. assert (H1 := proj1 Hc). unfold enum_init_block. cbn [set_kind c_kind c_core]. rewrite <- H1.
  rewrite (mapM_ext_in (fun v => if is_from (c_kind c) && is_some (vv_ghost v) then Ok []
                                 else if negb (is_from (c_kind c)) && match vv_ghost v with Some g => negb (is_some (fg_action g)) | None => false end then Ok []
                                 else render_enum_line v (set_kind c k'))
                       (fun v => if is_from (c_kind c) && is_some (vv_ghost v) then Ok []
                                 else if negb (is_from (c_kind c)) && match vv_ghost v with Some g => negb (is_some (fg_action g)) | None => false end then Ok []
                                 else render_enum_line v c) vs).
  2:{ intros v Hv. rewrite Forall_forall in Hn. rewrite (enum_line_kind c k' v Hc (Hn v Hv)). reflexivity. }
  destruct (mapM _ vs) as [vfrags| | |]; cbn [bind]; try reflexivity.
  assert (Eg : forall g, mapM (fun x => render_enum_ghost_line x (set_kind c k')) (sg_data g) = mapM (fun x => render_enum_ghost_line x c) (sg_data g)).
  { intro g. apply mapM_ext_in. intros x _. apply (enum_ghost_line_kind c k' Hc). }
  destruct ghosts as [g|]; [rewrite Eg|];
    (match goal with |- bind ?d _ = bind ?d _ => destruct d as [gfrags| | |]; cbn [bind]; try reflexivity end;
     destruct (tc_default (c_core c)) as [dc|]; [rewrite (quote_action_kind dc None c k' H1)|]; reflexivity).
Qed.

(* the whole body *)
Theorem body_same_class : forall d c k',
    same_class (c_kind c) k' -> dview_no_parents d ->
    main_code_block d (set_kind c k') = main_code_block d c /\ main_code_block_ok d (set_kind c k') = main_code_block_ok d c.
Proof.
  intros d c k' Hc Hn. destruct Hc as [H1 [H2 H3]].
  assert (Hq : forall qr, quick_return_block qr (set_kind c k') = quick_return_block qr c).
  { intro qr. unfold quick_return_block. rewrite (quote_action_kind qr None c k' H1). cbn [set_kind c_kind]. rewrite <- H3. reflexivity. }
  assert (Hd : data_main_code_block d (set_kind c k') = data_main_code_block d c).
  { destruct d as [s|vs g]; cbn [data_main_code_block dview_no_parents] in *.
    - unfold struct_main_code_block. rewrite (struct_init_block_kind c k' (conj H1 (conj H2 H3)) s Hn).
      cbn [set_kind c_kind c_dst c_post_init]. rewrite <- H1, <- H2. reflexivity.
    - unfold enum_main_code_block. rewrite (enum_init_block_kind c k' vs g (conj H1 (conj H2 H3)) Hn).
      cbn [set_kind c_kind]. rewrite <- H1, <- H2. reflexivity. }
  unfold main_code_block, main_code_block_ok. cbn [set_kind c_core c_post_init] in *.
  destruct (tc_qret (c_core c)) as [qr|]; [rewrite Hq; split; reflexivity|]. rewrite Hd. split; reflexivity.
Qed.
