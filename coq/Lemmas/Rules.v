(* C15: broken configuration rules are reported - all of them, in one expansion, wherever the
   offending instruction sits. *)
From Coq Require Import List String Ascii Bool Arith Permutation.
From O2o.Model Require Import Tok Syn Attr Ast Lookup Validate Expand Derive.
From O2o.Lemmas Require Import SortPerm.
Import ListNotations.
Open Scope list_scope.

(* ---- emission keeps every collected message ---- *)
Lemma insert_sorted_In : forall s l x, In x (insert_sorted s l) <-> x = s \/ In x l.
Proof.
  intros s l x. induction l as [|y l IH]; cbn [insert_sorted].
  - cbn. intuition.
  - destruct (str_leb s y); cbn [In]; [intuition|]. rewrite IH. intuition.
Qed.

Lemma sort_strs_In : forall l x, In x (sort_strs l) <-> In x l.
Proof.
  induction l as [|y l IH]; intro x; cbn [sort_strs fold_right]; [reflexivity|].
  fold (sort_strs l). rewrite insert_sorted_In, IH. cbn. intuition.
Qed.

Theorem emit_keeps_all : forall (order : list string -> list string),
    (forall l, Permutation (order l) l) ->
    forall msgs m, In m (emit_errors order msgs) <-> In m msgs.
Proof.
  intros order Hp msgs m. unfold emit_errors. rewrite sort_strs_In. split; intro H.
  - apply dedup_In. eapply Permutation_in; [apply Hp | exact H].
  - eapply Permutation_in; [apply Permutation_sym, Hp |]. apply dedup_In. exact H.
Qed.

(* the outcome of a rejected input lists every message validation collected *)
Theorem rejected_reports_all : forall be order order_tp x d msgs,
    (forall l, Permutation (order l) l) ->
    parse_input be x = Ok d -> validate_msgs order_tp d = Ok msgs -> msgs <> [] ->
    exists errs, derive_res be order order_tp x = Ok (inr errs) /\ forall m, In m msgs <-> In m errs.
Proof.
  intros be order order_tp x d msgs Hp Hd Hm Hne. unfold derive_res, validate. rewrite Hd. cbn [bind]. rewrite Hm. cbn [bind].
  destruct (emit_errors order msgs) as [|e es] eqn:E.
  - exfalso. destruct msgs as [|m ms]; [congruence|].
    assert (In m (emit_errors order (m :: ms))) by (apply emit_keeps_all; [exact Hp | left; reflexivity]).
    rewrite E in H. exact H.
  - exists (e :: es). split; [reflexivity|]. intro m. rewrite <- E. symmetry. apply emit_keeps_all. exact Hp.
Qed.

(* ---- individual rules: broken => its message is among the collected ones ---- *)
Lemma validate_msgs_parts : forall order_tp d msgs,
    validate_msgs order_tp d = Ok msgs ->
    exists m1 m6,
      msgs = (if is_empty_list (d_attrs (dt_get_attrs d)) then ["At least one trait instruction is expected."%string] else []) ++ m1 ++
             flat_map (fun kf => validate_struct_attrs (dt_get_attrs d) (fst kf) (snd kf)) flavours_validate_order ++
             flat_map (fun k => validate_ghost_attrs k (d_ghosts (dt_get_attrs d)) (map (fun x => tc_ty (ta_core x)) (d_attrs (dt_get_attrs d))))
               [FromOwned; FromRef; OwnedInto; RefInto; OwnedIntoExisting; RefIntoExisting] ++
             validate_child_parents_attrs (d_child_parents (dt_get_attrs d)) (map (fun x => tc_ty (ta_core x)) (d_attrs (dt_get_attrs d))) ++
             validate_where_attrs (d_where (dt_get_attrs d)) (map (fun x => tc_ty (ta_core x)) (d_attrs (dt_get_attrs d))) ++
             List.concat m6 ++
             match d with
             | DStruct s => validate_fields order_tp s (attrs_by_kind (dt_get_attrs d)) (map (fun x => tc_ty (ta_core x)) (d_attrs (dt_get_attrs d)))
             | DEnum e => flat_map (fun v => validate_variant_fields v (dt_get_attrs d)) (e_variants e)
             end /\
      match d with
      | DStruct s => mapM (fun f => validate_member false (s_named s) true (f_attrs f) (attrs_by_kind (dt_get_attrs d))
                                      (map (fun x => tc_ty (ta_core x)) (d_attrs (dt_get_attrs d)))) (s_fields s) = Ok m6
      | DEnum e => mapM (fun v => validate_member true false false (v_attrs v) (attrs_by_kind (dt_get_attrs d))
                                    (map (fun x => tc_ty (ta_core x)) (d_attrs (dt_get_attrs d)))) (e_variants e) = Ok m6
      end.
Proof.
  intros order_tp d msgs H. unfold validate_msgs in H.
  destruct (validate_error_instrs _ _) as [m1| | |]; cbn [bind] in H; try discriminate.
  destruct d as [s|e]; cbn [dt_get_attrs] in *.
  - destruct (mapM _ (s_fields s)) as [m6| | |] eqn:E6; cbn [bind] in H; try discriminate.
    injection H as <-. exists m1, m6. split; reflexivity.
  - destruct (mapM _ (e_variants e)) as [m6| | |] eqn:E6; cbn [bind] in H; try discriminate.
    injection H as <-. exists m1, m6. split; reflexivity.
Qed.

(* rule 1: no trait instruction *)
Theorem rule_no_trait_instruction : forall order_tp d msgs,
    validate_msgs order_tp d = Ok msgs -> d_attrs (dt_get_attrs d) = [] ->
    In "At least one trait instruction is expected."%string msgs.
Proof.
  intros order_tp d msgs H He. destruct (validate_msgs_parts _ _ _ H) as [m1 [m6 [-> _]]]. rewrite He. cbn. left. reflexivity.
Qed.

Lemma flavour_listed : forall k f, In (k, f) flavours_validate_order.
Proof. intros k f; destruct k, f; cbn; auto 14. Qed.

Lemma struct_attrs_aux_err : forall l seen a,
    In a l -> tc_err a = None ->
    In "Error type should be specified for fallible instruction."%string (validate_struct_attrs_aux l true seen).
Proof.
  induction l as [|b l IH]; intros seen a Hin He; [destruct Hin|]. cbn [validate_struct_attrs_aux].
  destruct Hin as [<-|Hin].
  - rewrite He. cbn [is_some negb andb]. apply in_or_app. right. cbn. left. reflexivity.
  - apply in_or_app. right. apply in_or_app. right. apply in_or_app. right. eapply IH; eauto.
Qed.

Lemma struct_attrs_aux_superfluous : forall l seen a,
    In a l -> is_some (tc_err a) = true ->
    In "Error type should not be specified for infallible instruction."%string (validate_struct_attrs_aux l false seen).
Proof.
  induction l as [|b l IH]; intros seen a Hin He; [destruct Hin|]. cbn [validate_struct_attrs_aux].
  destruct Hin as [<-|Hin].
  - rewrite He. cbn [negb andb]. apply in_or_app. right. apply in_or_app. right. cbn. left. reflexivity.
  - apply in_or_app. right. apply in_or_app. right. apply in_or_app. right. eapply IH; eauto.
Qed.

(* rule 3: a fallible instruction without error type / an infallible one with error type - for any
   instruction of the list, any kind it applies to *)
Theorem rule_missing_error_type : forall order_tp d msgs ta k,
    validate_msgs order_tp d = Ok msgs ->
    In ta (d_attrs (dt_get_attrs d)) -> ta_fallible ta = true -> appl_get (ta_appl ta) k = true -> tc_err (ta_core ta) = None ->
    In "Error type should be specified for fallible instruction."%string msgs.
Proof.
  intros order_tp d msgs ta k H Hin Hf Hk He. destruct (validate_msgs_parts _ _ _ H) as [m1 [m6 [-> _]]].
  apply in_or_app. right. apply in_or_app. right. apply in_or_app. left.
  apply in_flat_map. exists (k, true). split; [apply flavour_listed|]. cbn [fst snd]. unfold validate_struct_attrs.
  apply struct_attrs_aux_err with (a := ta_core ta); [|exact He].
  apply in_map. unfold iter_for_kind. apply filter_In. split; [exact Hin|]. rewrite Hf, Hk. reflexivity.
Qed.

Theorem rule_superfluous_error_type : forall order_tp d msgs ta k,
    validate_msgs order_tp d = Ok msgs ->
    In ta (d_attrs (dt_get_attrs d)) -> ta_fallible ta = false -> appl_get (ta_appl ta) k = true -> is_some (tc_err (ta_core ta)) = true ->
    In "Error type should not be specified for infallible instruction."%string msgs.
Proof.
  intros order_tp d msgs ta k H Hin Hf Hk He. destruct (validate_msgs_parts _ _ _ H) as [m1 [m6 [-> _]]].
  apply in_or_app. right. apply in_or_app. right. apply in_or_app. left.
  apply in_flat_map. exists (k, false). split; [apply flavour_listed|]. cbn [fst snd]. unfold validate_struct_attrs.
  apply struct_attrs_aux_superfluous with (a := ta_core ta); [|exact He].
  apply in_map. unfold iter_for_kind. apply filter_In. split; [exact Hin|]. rewrite Hf, Hk. reflexivity.
Qed.

(* rule 4: an instruction dedicated to a counterpart no trait instruction names *)
Lemma dedicated_loop_unknown : forall {A} (ty_of : A -> option type_path) dup tps l seen x tp,
    In x l -> ty_of x = Some tp -> tp_in tp tps = false ->
    In (unknown_type_msg tp) (dedicated_loop ty_of dup tps l seen).
Proof.
  intros A ty_of dup tps l. induction l as [|y l IH]; intros seen x tp Hin Ht Hn; [destruct Hin|]. cbn [dedicated_loop].
  destruct Hin as [<-|Hin].
  - rewrite Ht, Hn. cbn [negb]. left. reflexivity.
  - destruct (ty_of y); [|eapply IH; eauto]. apply in_or_app. right. apply in_or_app. right. eapply IH; eauto.
Qed.

Theorem rule_unknown_counterpart_where : forall order_tp d msgs w tp,
    validate_msgs order_tp d = Ok msgs ->
    In w (d_where (dt_get_attrs d)) -> wa_ty w = Some tp ->
    tp_in tp (map (fun x => tc_ty (ta_core x)) (d_attrs (dt_get_attrs d))) = false ->
    In (unknown_type_msg tp) msgs.
Proof.
  intros order_tp d msgs w tp H Hin Ht Hn. destruct (validate_msgs_parts _ _ _ H) as [m1 [m6 [-> _]]].
  do 5 (apply in_or_app; right). apply in_or_app. left. unfold validate_where_attrs. apply in_or_app. right.
  eapply dedicated_loop_unknown; eauto.
Qed.

Lemma mapM_in {A B} (f : A -> res B) : forall l r x, mapM f l = Ok r -> In x l -> exists y, f x = Ok y /\ In y r.
Proof.
  induction l as [|a l IH]; intros r x H Hin; [destruct Hin|]. cbn [mapM] in H.
  destruct (f a) as [b| | |] eqn:Ea; cbn [bind] in H; try discriminate.
  destruct (mapM f l) as [bs| | |] eqn:El; cbn [bind] in H; try discriminate. injection H as <-.
  destruct Hin as [<-|Hin]; [exists b; split; [exact Ea | left; reflexivity]|].
  destruct (IH bs x eq_refl Hin) as [y [Hy Hiny]]. exists y. split; [exact Hy | right; exact Hiny].
Qed.

(* ... on a member mapping instruction, on any field of a struct, at any position among the member's instructions *)
Theorem rule_unknown_counterpart_member : forall order_tp s msgs f a tp,
    validate_msgs order_tp (DStruct s) = Ok msgs ->
    In f (s_fields s) -> In a (m_attrs (f_attrs f)) -> mc_ty (ma_core a) = Some tp ->
    tp_in tp (map (fun x => tc_ty (ta_core x)) (d_attrs (s_attrs s))) = false ->
    In (unknown_type_msg tp) msgs.
Proof.
  intros order_tp s msgs f a tp H Hf Ha Ht Hn. destruct (validate_msgs_parts _ _ _ H) as [m1 [m6 [-> Hm6]]].
  cbn [dt_get_attrs] in *.
  destruct (mapM_in _ _ _ f Hm6 Hf) as [y [Hy Hiny]].
  do 6 (apply in_or_app; right). apply in_or_app. left. apply in_concat. exists y. split; [exact Hiny|].
  unfold validate_member in Hy. destruct (validate_member_error_instrs false (f_attrs f)) as [errs| | |]; cbn [bind] in Hy; try discriminate.
  injection Hy as <-. apply in_or_app. left. apply in_or_app. left. unfold validate_dedicated_member_attrs. cbn [app].
  eapply dedicated_loop_unknown; eauto.
Qed.

(* rule 7: a #[ghost] without default on a field of a struct built by a From conversion (dedicated form) *)
Theorem rule_ghost_without_default : forall order_tp s msgs f g tp ta k,
    validate_msgs order_tp (DStruct s) = Ok msgs ->
    In f (s_fields s) -> In g (m_ghost (f_attrs f)) -> fg_action (gh_core g) = None -> fg_ty (gh_core g) = Some tp ->
    In ta (d_attrs (s_attrs s)) -> is_from k = true -> In (ta, k) (attrs_by_kind (s_attrs s)) ->
    tc_update (ta_core ta) = None -> tp_eqb tp (tc_ty (ta_core ta)) = true ->
    In ("Member instruction #[ghost(...)] for member '" ^^ member_str (f_member f) ^^ "' should provide default value for type " ^^ tp_str tp)%string msgs.
Proof.
  intros order_tp s msgs f g tp ta k H Hf Hg Hact Hty Hta Hk Hbk Hupd Heq.
  destruct (validate_msgs_parts _ _ _ H) as [m1 [m6 [-> _]]]. cbn [dt_get_attrs] in *.
  do 7 (apply in_or_app; right). unfold validate_fields. apply in_or_app. left.
  apply in_flat_map. exists f. split; [exact Hf|]. apply in_or_app. left.
  apply in_flat_map. exists g. split; [exact Hg|]. rewrite Hact, Hty. cbn [is_some].
  match goal with |- In _ (if ?c then _ else _) => assert (Hc : c = true) end.
  { unfold tp_in. apply existsb_exists. exists (tc_ty (ta_core ta)). split; [|exact Heq].
    apply in_flat_map. exists (ta, k). split; [exact Hbk|]. cbn [fst snd]. rewrite Hupd, Hk. cbn. left. reflexivity. }
  rewrite Hc. left. reflexivity.
Qed.
