(* C03: what a nested literal consumes.  The descent hands every nested struct literal (struct_init_block_inner called with a
   child path and a depth) the list of members that are still to be rendered; the literal takes a contiguous PREFIX of that list
   and stops exactly at the first member whose path is not under the literal's path (or at the end).  Together with the grouping
   lemmas of Flatten.v (after the sort the members of one path are contiguous) this is why a grouped order builds every
   intermediate struct once - and why an interleaved order (finding F-03a) builds it once per run. *)
From Coq Require Import List String Ascii Bool Arith Lia.
From O2o.Model Require Import Tok Syn Attr Ast Lookup Validate Expand Derive.
From O2o.Lemmas Require Import PanicFree.
Import ListNotations.
Open Scope string_scope.
Open Scope list_scope.

(* the loop's own test: is member m under the path string p? *)
Definition under (p : string) (m : container) : bool :=
  String.eqb (fc_path m) p || starts_with (fc_path m) (p ^^ ".").

Definition suffix_of (members : list container) (r : res (list tok * list container)) : Prop :=
  forall ts rest, r = Ok (ts, rest) -> exists consumed, members = consumed ++ rest.

Lemma suffix_refl members ts : suffix_of members (Ok (ts, members)).
Proof. intros ts' rest E. injection E as _ <-. exists []. reflexivity. Qed.
Lemma suffix_tl members ts : suffix_of members (Ok (ts, tl members)).
Proof. intros ts' rest E. injection E as _ <-. destruct members as [|m r]; [exists []; reflexivity | exists [m]; reflexivity]. Qed.
Lemma suffix_bind_line members (line : res (list tok)) : suffix_of members (l <- line;; Ok (l, tl members)).
Proof. destruct line as [l| | |]; cbn [bind]; try (intros ts rest E; discriminate E). apply suffix_tl. Qed.
Lemma suffix_fail members {A} (r : res A) k : (forall a, r <> Ok a) -> suffix_of members (bind r k).
Proof. intros H ts rest E. destruct r as [a| | |]; cbn [bind] in E; try discriminate E. exfalso. exact (H a eq_refl). Qed.

Lemma suffix_trans (m1 m2 rest : list container) : (exists c, m1 = c ++ m2) -> (exists c, m2 = c ++ rest) -> exists c, m1 = c ++ rest.
Proof. intros [c1 ->] [c2 ->]. exists (c1 ++ c2). rewrite app_assoc. reflexivity. Qed.

(* where the loop stops *)
Definition stops_at (fc : option fctx) (rest : list container) : Prop :=
  match rest with
  | [] => True
  | m :: _ => match fc with
              | Some (cp, _, depth) => exists p, nth_error (child_path_strs cp) depth = Some p /\ under p m = false
              | None => False
              end
  end.

Lemma member_loop_spec (c : ictx) fc hint cf gf pf :
  (forall ch ms line, suffix_of ms (cf ch ms line)) -> (forall cp ms, suffix_of ms (gf cp ms)) ->
  (forall f p ms line, suffix_of ms (pf f p ms line)) ->
  forall n members idx acc ts rest,
    member_loop c fc hint cf gf pf n members idx acc = Ok (ts, rest) ->
    (exists consumed, members = consumed ++ rest) /\ stops_at fc rest.
Proof.
  intros Hcf Hgf Hpf. induction n as [|n IH]; intros members idx acc ts rest H; cbn [member_loop] in H; [discriminate H|].
  destruct members as [|m ms]; [injection H as _ <-; split; [exists []; reflexivity | exact Logic.I]|].
  assert (Hstep : forall (r : res (list tok * list container)) idx' ,
            suffix_of (m :: ms) r ->
            ('(frag, rest') <- r;; member_loop c fc hint cf gf pf n rest' idx' (acc ++ frag)) = Ok (ts, rest) ->
            (exists consumed, m :: ms = consumed ++ rest) /\ stops_at fc rest).
  { intros r idx' Hr E. destruct r as [[frag rest']| | |]; cbn [bind] in E; try discriminate E.
    destruct (IH _ _ _ _ _ E) as [Hs Hst]. split; [|exact Hst]. exact (suffix_trans _ _ _ (Hr frag rest' eq_refl) Hs). }
  assert (Hskip : forall idx', member_loop c fc hint cf gf pf n ms idx' acc = Ok (ts, rest) ->
                               (exists consumed, m :: ms = consumed ++ rest) /\ stops_at fc rest).
  { intros idx' E. destruct (IH _ _ _ _ _ E) as [[cns ->] Hst]. split; [exists (m :: cns); reflexivity | exact Hst]. }
  destruct fc as [[[cp o] depth]|]; cbn [bind] in H.
  - unfold nth_str in H. destruct (nth_error (child_path_strs cp) depth) as [p|] eqn:Ep; cbn [bind] in H; [|discriminate H].
    destruct (negb (String.eqb (fc_path m) p) && negb (starts_with (fc_path m) (p ^^ "."))) eqn:Eb.
    + injection H as _ <-. split; [exists []; reflexivity|]. cbn [stops_at]. exists p. split; [exact Ep|].
      unfold under. apply andb_prop in Eb. destruct Eb as [E1 E2]. apply negb_true_iff in E1, E2. rewrite E1, E2. reflexivity.
    + destruct (fc_data m) as [f|g|f pp].
      * destruct (negb (is_from (c_kind c)) && (is_some (fv_ghost f) || fv_has_parent f)); [exact (Hskip _ H)|].
        destruct (is_from (c_kind c) && match fv_ghost f with Some g => negb (is_some (fg_action g)) | None => false end); [exact (Hskip _ H)|].
        refine (Hstep _ _ _ H). destruct (fv_child f) as [ch|]; [apply Hcf|].
        destruct (render_struct_line f c hint idx None) as [line| | |]; cbn [bind]; try (intros ? ? E; discriminate E). apply (suffix_tl (m :: ms)).
      * destruct (gd_path g) as [gp|]; [|discriminate H]. exact (Hstep _ _ (Hgf gp (m :: ms)) H).
      * exact (Hstep _ _ (Hpf f pp (m :: ms) _) H).
  - destruct (fc_data m) as [f|g|f pp].
    + destruct (negb (is_from (c_kind c)) && (is_some (fv_ghost f) || fv_has_parent f)); [exact (Hskip _ H)|].
      destruct (is_from (c_kind c) && match fv_ghost f with Some g => negb (is_some (fg_action g)) | None => false end); [exact (Hskip _ H)|].
      refine (Hstep _ _ _ H). destruct (fv_child f) as [ch|]; [apply Hcf|].
      destruct (render_struct_line f c hint idx None) as [line| | |]; cbn [bind]; try (intros ? ? E; discriminate E). apply (suffix_tl (m :: ms)).
    + destruct (gd_path g) as [gp|]; [|discriminate H]. exact (Hstep _ _ (Hgf gp (m :: ms)) H).
    + exact (Hstep _ _ (Hpf f pp (m :: ms) _) H).
Qed.

Lemma suffix_err members e : suffix_of members (Err e). Proof. intros ? ? E; discriminate E. Qed.
Lemma suffix_panic members e : suffix_of members (Panic e). Proof. intros ? ? E; discriminate E. Qed.
Lemma suffix_oom members e : suffix_of members (Oom e). Proof. intros ? ? E; discriminate E. Qed.

Ltac sfx_step IHi IHr :=
  match goal with
  | |- suffix_of _ (Panic _) => apply suffix_panic
  | |- suffix_of _ (Oom _) => apply suffix_oom
  | |- suffix_of _ (Err _) => apply suffix_err
  | |- suffix_of _ (render_child _ _ _ _ _ _ _ _ _) => apply IHr
  | |- suffix_of _ (init_inner _ _ _ _ _ _) => apply IHi
  | |- suffix_of ?ms (bind ?line (fun l => Ok (l, tl ?ms))) => apply suffix_bind_line
  | |- suffix_of _ (bind (nth_str ?l ?n) _) => unfold nth_str; destruct (nth_error l n); cbn [bind]
  | |- suffix_of _ (bind (match ?x with _ => _ end) _) => destruct x; cbn [bind]
  | |- suffix_of _ (if ?b then _ else _) => destruct b
  | |- suffix_of _ (match ?x with _ => _ end) => destruct x
  end.

(* the whole mutual descent: everything returns a suffix of what it was handed, and a literal stops where its path ends *)
Lemma descent_mutual s c : forall fuel,
    (forall members named fc,
        suffix_of members (init_inner s c fuel members named fc) /\
        (forall ts rest, init_inner s c fuel members named fc = Ok (ts, rest) -> stops_at fc rest)) /\
    (forall cp members depth hint line, suffix_of members (child_fragment s c fuel cp members depth hint line)) /\
    (forall cd members named cp depth hint,
        suffix_of members (render_child s c fuel cd members named cp depth hint) /\
        (forall ts rest, render_child s c fuel cd members named cp depth hint = Ok (ts, rest) -> stops_at (Some (cp, Some cd, depth)) rest)) /\
    (forall f p members named depth line, suffix_of members (parent_child_fragment s c fuel f p members named depth line)).
Proof.
  induction fuel as [|fuel [IHi [IHc [IHr IHp]]]].
  - repeat split; intros; cbn; try apply suffix_oom; discriminate.
  - assert (IHi1 := fun members named fc => proj1 (IHi members named fc)).
    assert (IHr1 := fun cd members named cp depth hint => proj1 (IHr cd members named cp depth hint)).
    split; [|split; [|split]].
    + intros members named fc. rewrite init_inner_S. cbv zeta.
      match goal with |- context [bind ?ml _] => destruct ml as [[frags rest0]| | |] eqn:Eml end; cbn [bind];
        try (split; [first [apply suffix_err | apply suffix_panic | apply suffix_oom] | intros ? ? E; discriminate E]).
      apply member_loop_spec in Eml; [|intros; apply IHc | intros; apply IHc | intros; apply IHp].
      destruct Eml as [Hs Hst].
      match goal with |- context [bind ?g _] => destruct g as [ghosts| | |] end; cbn [bind];
        try (split; [first [apply suffix_err | apply suffix_panic | apply suffix_oom] | intros ? ? E; discriminate E]).
      match goal with |- context [bind ?w _] => destruct w as [toks| | |] end; cbn [bind];
        try (split; [first [apply suffix_err | apply suffix_panic | apply suffix_oom] | intros ? ? E; discriminate E]).
      split; [intros ts rest E; injection E as _ <-; exact Hs | intros ts rest E; injection E as _ <-; exact Hst].
    + intros cp members depth hint line. rewrite child_fragment_S. cbv zeta. repeat sfx_step IHi1 IHr1.
    + intros cd members named cp depth hint. rewrite render_child_S. destruct (nth_error cp depth) as [name|]; [|split; [apply suffix_panic | intros ? ? E; discriminate E]].
      destruct (IHi members named (Some (cp, Some cd, depth))) as [Hs Hst].
      destruct (init_inner s c fuel members named (Some (cp, Some cd, depth))) as [[init rest0]| | |]; cbn [bind];
        try (split; [first [apply suffix_err | apply suffix_panic | apply suffix_oom] | intros ? ? E; discriminate E]).
      cbv zeta.
      destruct (c_named c); destruct hint;
        (split; [first [apply suffix_panic | intros ts rest E; injection E as _ <-; exact (Hs _ _ eq_refl)]
                | intros ts rest E; first [discriminate E | injection E as _ <-; exact (Hst _ _ eq_refl)]]).
    + intros f p members named depth line. rewrite parent_child_fragment_S. cbv zeta. repeat sfx_step IHi1 IHr1.
Qed.

(* C03 (consumption): the struct literal rendered for the path prefix cp[..=depth] takes a contiguous prefix of the members it is
   handed and stops exactly at the first member that is not under that prefix (or at the end of the list). *)
Theorem nested_literal_consumes_a_prefix s c fuel cd members named cp depth hint ts rest :
  render_child s c fuel cd members named cp depth hint = Ok (ts, rest) ->
  (exists consumed, members = consumed ++ rest) /\
  (rest = [] \/ exists m r p, rest = m :: r /\ nth_error (child_path_strs cp) depth = Some p /\ under p m = false).
Proof.
  intro E. destruct (descent_mutual s c fuel) as [_ [_ [Hr _]]]. destruct (Hr cd members named cp depth hint) as [Hs Hst].
  split; [exact (Hs _ _ E)|]. specialize (Hst _ _ E). destruct rest as [|m r]; [left; reflexivity|].
  right. cbn [stops_at] in Hst. destruct Hst as [p [Ep Hu]]. exists m, r, p. repeat split; assumption.
Qed.

(* the top-level literal consumes everything *)
Theorem top_level_consumes_all s c fuel members named ts rest :
  init_inner s c fuel members named None = Ok (ts, rest) -> rest = [].
Proof.
  intro E. destruct (descent_mutual s c fuel) as [Hi _]. destruct (Hi members named None) as [_ Hst]. specialize (Hst _ _ E).
  destruct rest as [|m r]; [reflexivity | contradiction Hst].
Qed.

(* ---- group numbers are path identities ---- *)
Lemma position_spec s l g : position s l = Some g -> nth_error l g = Some s.
Proof.
  revert g; induction l as [|x r IH]; intros g H; cbn [position] in H; [discriminate H|].
  destruct (String.eqb x s) eqn:E; [apply String.eqb_eq in E; injection H as <-; subst; reflexivity|].
  destruct (position s r) as [g'|]; [|discriminate H]. injection H as <-. cbn [nth_error]. apply IH. reflexivity.
Qed.
Lemma position_none s l : position s l = None -> ~ In s l.
Proof.
  induction l as [|x r IH]; intros H; cbn [position] in H; [intros []|].
  destruct (String.eqb x s) eqn:E; [discriminate H|]. destruct (position s r); [discriminate H|].
  intros [->|Hin]; [rewrite String.eqb_refl in E; discriminate E | exact (IH eq_refl Hin)].
Qed.

Definition numbered (gs : list string) (c : container) : Prop := nth_error gs (fc_gr c) = Some (fc_path c).

Lemma numbered_ext gs ext c : numbered gs c -> numbered (gs ++ ext) c.
Proof. unfold numbered. intro H. rewrite nth_error_app1; [exact H|]. apply nth_error_Some. rewrite H. discriminate. Qed.

Lemma assign_groups_spec : forall items groups only_new cs gs,
    assign_groups items groups only_new = (cs, gs) -> NoDup groups ->
    (exists ext, gs = groups ++ ext) /\ NoDup gs /\ Forall (numbered gs) cs.
Proof.
  induction items as [|[p d] r IH]; intros groups only_new cs gs H Hnd; cbn [assign_groups] in H.
  - injection H as <- <-. split; [exists []; rewrite app_nil_r; reflexivity|]. split; [exact Hnd | constructor].
  - unfold group_of in H. destruct (position p groups) as [g|] eqn:Ep.
    + destruct (assign_groups r groups only_new) as [cs' gs'] eqn:Er. injection H as <- <-.
      destruct (IH _ _ _ _ Er Hnd) as [[ext ->] [Hnd' Hf]]. split; [exists ext; reflexivity|]. split; [exact Hnd'|].
      apply Forall_app. split; [|exact Hf]. destruct only_new; [constructor|]. constructor; [|constructor].
      apply numbered_ext. exact (position_spec _ _ _ Ep).
    + destruct (assign_groups r (groups ++ [p]) only_new) as [cs' gs'] eqn:Er. injection H as <- <-.
      assert (Hnd2 : NoDup (groups ++ [p])).
      { clear -Hnd Ep. apply position_none in Ep. induction groups as [|x g IHg]; cbn [app]; [constructor; [intros []|constructor]|].
        inversion Hnd as [|? ? Hx Hg]; subst. constructor.
        - intro Hin. apply in_app_or in Hin. destruct Hin as [Hin|[<-|[]]]; [exact (Hx Hin) | apply Ep; left; reflexivity].
        - apply IHg; [intro Hin; apply Ep; right; exact Hin | exact Hg]. }
      destruct (IH _ _ _ _ Er Hnd2) as [[ext ->] [Hnd' Hf]]. split; [exists ([p] ++ ext); rewrite app_assoc; reflexivity|]. split; [exact Hnd'|].
      constructor; [|exact Hf]. apply numbered_ext. unfold numbered. cbn [fc_gr fc_path]. rewrite nth_error_app2 by lia. rewrite Nat.sub_diag. reflexivity.
Qed.

From O2o.Lemmas Require Import Flatten.

Lemma sorted_numbered s : exists gs all n,
    sorted_containers s = by_groups all 0 n /\ NoDup gs /\ Forall (numbered gs) (sorted_containers s).
Proof.
  unfold sorted_containers. destruct (assign_groups (field_items s) [""] false) as [c1 g1] eqn:E1.
  destruct (assign_groups (ghost_items s) g1 true) as [c2 g2] eqn:E2.
  assert (Hnd0 : NoDup [""]) by (constructor; [intros []|constructor]).
  destruct (assign_groups_spec _ _ _ _ _ E1 Hnd0) as [_ [Hnd1 Hf1]].
  destruct (assign_groups_spec _ _ _ _ _ E2 Hnd1) as [[ext ->] [Hnd2 Hf2]].
  exists (g1 ++ ext), (c1 ++ c2), (List.length (g1 ++ ext)). split; [reflexivity|]. split; [exact Hnd2|].
  apply Forall_forall. intros x Hx. apply in_flat_map in Hx. destruct Hx as [g [_ Hx]]. apply filter_In in Hx. destruct Hx as [Hx _].
  apply in_app_or in Hx. destruct Hx as [Hx|Hx].
  - apply numbered_ext. rewrite Forall_forall in Hf1. exact (Hf1 _ Hx).
  - rewrite Forall_forall in Hf2. exact (Hf2 _ Hx).
Qed.

Lemma numbered_same_path gs a b : NoDup gs -> numbered gs a -> numbered gs b -> (fc_gr a = fc_gr b <-> fc_path a = fc_path b).
Proof.
  unfold numbered. intros Hnd Ha Hb. split; intro H.
  - rewrite H in Ha. rewrite Ha in Hb. injection Hb as Hb. exact Hb.
  - rewrite NoDup_nth_error in Hnd. apply Hnd; [apply nth_error_Some; rewrite Ha; discriminate | rewrite Ha, Hb, H; reflexivity].
Qed.

(* C03: all the members of one (full) child path go into ONE struct literal.  When the descent starts the literal for path p at a
   member whose path is exactly p, no member left over afterwards has path p: the sort made them contiguous and the literal
   consumed the whole run.  (For a proper PREFIX of a path this fails - finding F-03a, C03_into_once_refuted.) *)
Theorem exact_path_members_go_into_one_literal s c fuel cd pre h tl_ named cp depth hint ts rest p :
  sorted_containers s = pre ++ h :: tl_ -> fc_path h = p -> nth_error (child_path_strs cp) depth = Some p ->
  render_child s c fuel cd (h :: tl_) named cp depth hint = Ok (ts, rest) ->
  forall z, In z rest -> fc_path z <> p.
Proof.
  intros Hsorted Hh Hp E z Hz Hzp.
  destruct (nested_literal_consumes_a_prefix _ _ _ _ _ _ _ _ _ _ _ E) as [[consumed Hc] [->|[m [r [p' [-> [Hp' Hu]]]]]]]; [destruct Hz|].
  rewrite Hp in Hp'. injection Hp' as <-.
  unfold under in Hu. apply orb_false_elim in Hu. destruct Hu as [Hu _]. apply String.eqb_neq in Hu.
  destruct Hz as [<-|Hz]; [exact (Hu Hzp)|].
  destruct consumed as [|h' c']; cbn [app] in Hc; [injection Hc as <- _; exact (Hu Hh)|]. injection Hc as <- ->.
  apply in_split in Hz. destruct Hz as [r1 [r2 ->]].
  destruct (sorted_numbered s) as [gs [all [n [Hby [Hnd Hnum]]]]]. rewrite Forall_forall in Hnum.
  assert (Hin : forall x, In x (h :: c' ++ m :: r1 ++ z :: r2) -> In x (sorted_containers s)).
  { intros x Hx. rewrite Hsorted. apply in_or_app. right. exact Hx. }
  assert (Nh : numbered gs h) by (apply Hnum, Hin; left; reflexivity).
  assert (Nm : numbered gs m) by (apply Hnum, Hin; right; apply in_or_app; right; left; reflexivity).
  assert (Nz : numbered gs z) by (apply Hnum, Hin; right; apply in_or_app; right; right; apply in_or_app; right; left; reflexivity).
  assert (Hg : fc_gr h = fc_gr z) by (apply (numbered_same_path gs h z Hnd Nh Nz); rewrite Hh, Hzp; reflexivity).
  rewrite Hby in Hsorted.
  assert (Hsorted' : by_groups all 0 n = pre ++ h :: (c' ++ m :: r1) ++ z :: r2).
  { rewrite Hsorted. f_equal. f_equal. rewrite <- app_assoc. reflexivity. }
  assert (Hf := group_contiguous _ _ _ _ _ _ _ Hsorted' Hg). rewrite Forall_forall in Hf.
  assert (Hgm : fc_gr m = fc_gr h) by (apply Hf; apply in_or_app; right; left; reflexivity).
  apply (numbered_same_path gs m h Hnd Nm Nh) in Hgm. apply Hu. rewrite Hgm. exact Hh.
Qed.

(* ---- what a nested literal is made of ---- *)
(* converting INTO the counterpart, a member with a child path opens - for the next prefix p of its path - the literal
   `[name:] <Type> { .. },` where <Type> (and the shape hint) is what the #[child_parents] instruction in effect gives for exactly
   the path string p, name is the segment of the path at that depth, and the inside is struct_init_block_inner on the same members *)
Theorem nested_literal_of_child : forall s c fuel cp members depth hint line ts rest,
    is_intoish (c_kind c) = true ->
    (match depth with None => true | Some d => Nat.ltb d (List.length (child_path_strs cp) - 1) end) = true ->
    child_fragment s c (S (S fuel)) cp members depth hint line = Ok (ts, rest) ->
    let nd := match depth with None => 0 | Some d => S d end in
    exists cpa p cd name init,
      sv_child_parents s = Some cpa /\ nth_error (child_path_strs cp) nd = Some p /\
      find (fun x => String.eqb (cd_str x) p) (ca_data cpa) = Some cd /\
      nth_error cp nd = Some name /\
      init_inner s c fuel members (c_named c) (Some (cp, Some (cd_ty cd, cd_hint cd), nd)) = Ok (init, rest) /\
      (ts = [member_tok name; P1 ":"] ++ cd_ty cd ++ init ++ [comma] \/ ts = cd_ty cd ++ init ++ [comma]).
Proof.
  intros s c fuel cp members depth hint line ts rest Hk Hd H nd. rewrite child_fragment_S in H. cbv zeta in H. rewrite Hd, Hk in H.
  destruct (sv_child_parents s) as [cpa|]; [|discriminate H]. unfold nth_str in H. fold nd in H.
  destruct (nth_error (child_path_strs cp) nd) as [p|] eqn:Ep; cbn [bind] in H; [|discriminate H].
  destruct (find _ (ca_data cpa)) as [cd|] eqn:Ef; [|discriminate H].
  rewrite render_child_S in H. destruct (nth_error cp nd) as [name|] eqn:En; [|discriminate H].
  destruct (init_inner s c fuel members (c_named c) _) as [[init rest0]| | |] eqn:Ei; cbn [bind] in H; try discriminate H.
  cbv zeta in H. cbn [fst] in H.
  exists cpa, p, cd, name, init.
  destruct (c_named c); destruct hint; try discriminate H; injection H as <- <-;
    (repeat split; try reflexivity; try assumption; first [left; reflexivity | right; reflexivity]).
Qed.

(* converting FROM the counterpart, a parameterised #[parent(..)] member opens the literal with the type written next to the nested
   member (or the field's own type at the top), always in the shape of the enclosing struct *)
Theorem nested_literal_of_parent : forall s c fuel f p members named depth line ts rest,
    is_from (c_kind c) = true ->
    (match depth with None => true | Some d => Nat.ltb d (List.length (pc_sub p)) end) = true ->
    parent_child_fragment s c (S (S fuel)) f p members named depth line = Ok (ts, rest) ->
    let nd := match depth with None => 0 | Some d => S d end in
    let cp := fv_member f :: map fst (pc_sub p) in
    exists ty name init,
      (match depth with
       | Some d => exists m, nth_error (pc_sub p) d = Some (m, Some ty)
       | None => fv_ty f = Some ty
       end) /\
      nth_error cp nd = Some name /\
      init_inner s c fuel members named (Some (cp, Some (ty, c_hint c), nd)) = Ok (init, rest) /\
      ts = (if c_named c then [member_tok name; P1 ":"] else []) ++ ty ++ init ++ [comma].
Proof.
  intros s c fuel f p members named depth line ts rest Hk Hd H nd cp. rewrite parent_child_fragment_S in H. cbv zeta in H. rewrite Hd, Hk in H.
  fold nd in H. fold cp in H.
  assert (Hty : exists ty, (match depth with
                            | Some d => match nth_error (pc_sub p) d with Some (_, Some t) => Ok t | Some (_, None) => Panic "sub_path-type-unwrap" | None => Panic "sub_path-index" end
                            | None => match fv_ty f with Some t => Ok t | None => Panic "field-ty-unwrap" end
                            end) = Ok ty /\
                           (match depth with Some d => exists m, nth_error (pc_sub p) d = Some (m, Some ty) | None => fv_ty f = Some ty end)).
  { destruct depth as [d|].
    - destruct (nth_error (pc_sub p) d) as [[m [t|]]|] eqn:E; cbn [bind] in H; try discriminate H. exists t. split; [reflexivity | exists m; reflexivity].
    - destruct (fv_ty f) as [t|] eqn:E; cbn [bind] in H; try discriminate H. exists t. split; reflexivity. }
  destruct Hty as [ty [Ety Hspec]]. rewrite Ety in H. cbn [bind] in H.
  rewrite render_child_S in H. destruct (nth_error cp nd) as [name|] eqn:En; [|discriminate H].
  destruct (init_inner s c fuel members named _) as [[init rest0]| | |] eqn:Ei; cbn [bind] in H; try discriminate H.
  cbv zeta in H. cbn [fst] in H. exists ty, name, init.
  destruct (c_named c); injection H as <- <-; repeat split; try assumption; reflexivity.
Qed.

(* converting into an EXISTING counterpart nothing is constructed: the same descent produces the inner assignments only *)
Theorem existing_descends_without_literal : forall s c fuel cp members depth hint line,
    is_into_existing (c_kind c) = true ->
    (match depth with None => true | Some d => Nat.ltb d (List.length (child_path_strs cp) - 1) end) = true ->
    let nd := match depth with None => 0 | Some d => S d end in
    child_fragment s c (S fuel) cp members depth hint line =
    (p <- nth_str (child_path_strs cp) nd ;;
     init_inner s c fuel members (c_named c)
       (Some (cp, option_map (fun x => (cd_ty x, cd_hint x)) (find_child_data (sv_child_parents s) p), nd))).
Proof.
  intros s c fuel cp members depth hint line Hk Hd nd. rewrite child_fragment_S. cbv zeta. rewrite Hd.
  assert (F : is_intoish (c_kind c) = false) by (destruct (c_kind c); cbn in Hk |- *; congruence). rewrite F, Hk. reflexivity.
Qed.

(* progress: a literal that is handed a member of its own path consumes at least that member - whenever it returns at all *)
Corollary nested_literal_makes_progress s c fuel cd m ms named cp depth hint ts rest p :
  render_child s c fuel cd (m :: ms) named cp depth hint = Ok (ts, rest) ->
  nth_error (child_path_strs cp) depth = Some p -> under p m = true ->
  exists consumed, m :: ms = (m :: consumed) ++ rest.
Proof.
  intros E Hp Hu. destruct (nested_literal_consumes_a_prefix _ _ _ _ _ _ _ _ _ _ _ E) as [[consumed Hc] Hst].
  destruct consumed as [|x consumed]; cbn [app] in Hc.
  - subst rest. destruct Hst as [Hnil|[m' [r [p' [Hr [Hp' Hu']]]]]]; [discriminate Hnil|].
    injection Hr as <- <-. rewrite Hp in Hp'. injection Hp' as <-. rewrite Hu in Hu'. discriminate Hu'.
  - injection Hc as <- ->. exists consumed. reflexivity.
Qed.
