(* C15: completeness of further documented rules - for every input and every position of the offending instruction,
   a broken rule puts its message into the collection validate() emits (Rules.v has rules 1, 3, 4, 7). *)
From Coq Require Import List String Bool Arith Permutation.
From O2o.Model Require Import Tok Syn Attr Ast Lookup Validate Expand Derive.
From O2o.Lemmas Require Import Rules.
Import ListNotations.
Open Scope string_scope.
Open Scope list_scope.

(* ---- rule 2: two instructions requesting the same (kind, fallibility) impl for one counterpart ---- *)
Lemma struct_attrs_aux_seen : forall l f seen b,
    In b l -> tp_in (tc_ty b) seen = true -> In "Ident here must be unique." (validate_struct_attrs_aux l f seen).
Proof.
  induction l as [|c l IH]; intros f seen b Hin Hs; [destruct Hin|]. cbn [validate_struct_attrs_aux].
  destruct Hin as [<-|Hin].
  - rewrite Hs. apply in_or_app. left. left. reflexivity.
  - do 3 (apply in_or_app; right). apply (IH f (tc_ty c :: seen) b Hin). unfold tp_in in *. cbn [existsb]. rewrite Hs. apply orb_true_r.
Qed.

Lemma struct_attrs_aux_dup : forall l1 a l2 b l3 f seen,
    tp_eqb (tc_ty b) (tc_ty a) = true ->
    In "Ident here must be unique." (validate_struct_attrs_aux (l1 ++ a :: l2 ++ b :: l3) f seen).
Proof.
  induction l1 as [|c l1 IH]; intros a l2 b l3 f seen He.
  - cbn [app validate_struct_attrs_aux]. do 3 (apply in_or_app; right).
    apply (struct_attrs_aux_seen _ f _ b); [apply in_or_app; right; left; reflexivity|]. unfold tp_in. cbn [existsb]. rewrite He. reflexivity.
  - cbn [app validate_struct_attrs_aux]. do 3 (apply in_or_app; right). apply IH. exact He.
Qed.

Lemma filter_app_cons {A} (p : A -> bool) l1 a l2 b l3 : p a = true -> p b = true ->
  exists m1 m2 m3, filter p (l1 ++ a :: l2 ++ b :: l3) = m1 ++ a :: m2 ++ b :: m3.
Proof.
  intros Ha Hb. exists (filter p l1), (filter p l2), (filter p l3).
  rewrite filter_app. cbn [filter]. rewrite Ha. rewrite filter_app. cbn [filter]. rewrite Hb. reflexivity.
Qed.

Theorem rule_duplicate_instruction : forall order_tp d msgs l1 a l2 b l3 k f,
    validate_msgs order_tp d = Ok msgs ->
    d_attrs (dt_get_attrs d) = l1 ++ a :: l2 ++ b :: l3 ->
    ta_fallible a = f -> ta_fallible b = f -> appl_get (ta_appl a) k = true -> appl_get (ta_appl b) k = true ->
    tp_eqb (tc_ty (ta_core b)) (tc_ty (ta_core a)) = true ->
    In "Ident here must be unique." msgs.
Proof.
  intros order_tp d msgs l1 a l2 b l3 k f H Hl Hfa Hfb Hka Hkb He. destruct (validate_msgs_parts _ _ _ H) as [m1 [m6 [-> _]]].
  apply in_or_app. right. apply in_or_app. right. apply in_or_app. left.
  apply in_flat_map. exists (k, f). split; [apply flavour_listed|]. cbn [fst snd]. unfold validate_struct_attrs, iter_for_kind. rewrite Hl.
  destruct (filter_app_cons (fun x => Bool.eqb (ta_fallible x) f && appl_get (ta_appl x) k) l1 a l2 b l3) as (n1 & n2 & n3 & E).
  { rewrite Hfa, Hka, Bool.eqb_reflx. reflexivity. } { rewrite Hfb, Hkb, Bool.eqb_reflx. reflexivity. }
  rewrite E. rewrite map_app. cbn [map]. rewrite map_app. cbn [map]. apply struct_attrs_aux_dup. exact He.
Qed.

(* ---- rule 8: #[child(..)] without a matching #[child_parents] entry, on any field of a struct ---- *)
Lemma child_path_strs_aux_nonempty pre first l : l <> [] -> child_path_strs_aux pre first l <> [].
Proof. destruct l; [intro H; contradiction H; reflexivity | intros _; cbn; discriminate]. Qed.

Lemma in_into_type_paths : forall (by_kind : list (trait_attr * kind)) ta k,
    In (ta, k) by_kind -> is_from k = false -> is_into_existing k = false ->
    In (tc_ty (ta_core ta)) (flat_map (fun ak : trait_attr * kind => if negb (is_from (snd ak)) && negb (is_into_existing (snd ak)) then [tc_ty (ta_core (fst ak))] else []) by_kind).
Proof. intros by_kind ta k Hin Hf He. apply in_flat_map. exists (ta, k). split; [exact Hin|]. cbn [fst snd]. rewrite Hf, He. left. reflexivity. Qed.

Theorem rule_child_without_child_parents : forall order_tp s msgs f c ta k,
    (forall l, Permutation (order_tp l) l) ->
    validate_msgs order_tp (DStruct s) = Ok msgs ->
    In f (s_fields s) -> In c (m_child (f_attrs f)) -> ch_ty c = None -> ch_path c <> [] ->
    In (ta, k) (attrs_by_kind (s_attrs s)) -> is_from k = false -> is_into_existing k = false ->
    child_parents_attr_for (s_attrs s) (tc_ty (ta_core ta)) = None ->
    In ("Missing #[child_parents(...)] instruction for " ^^ tp_str (tc_ty (ta_core ta))) msgs.
Proof.
  intros order_tp s msgs f c ta k Hp H Hf Hc Hty Hne Hbk Hfrom Hex Hcp.
  destruct (validate_msgs_parts _ _ _ H) as [m1 [m6 [-> _]]]. cbn [dt_get_attrs] in *.
  do 7 (apply in_or_app; right). unfold validate_fields. apply in_or_app. right. apply in_or_app. left.
  apply in_flat_map. exists c. split; [apply in_flat_map; exists f; split; assumption|]. rewrite Hty.
  apply in_flat_map. exists (tc_ty (ta_core ta)). split.
  - eapply Permutation_in; [apply Permutation_sym, Hp|]. exact (in_into_type_paths _ ta k Hbk Hfrom Hex).
  - unfold check_child_errors. rewrite Hcp. unfold child_path_strs.
    destruct (child_path_strs_aux "" true (ch_path c)) as [|p ps] eqn:E; [exfalso; exact (child_path_strs_aux_nonempty _ _ _ Hne E)|].
    cbn [flat_map]. left. reflexivity.
Qed.

Theorem rule_child_path_missing : forall order_tp s msgs f c ta k a path,
    (forall l, Permutation (order_tp l) l) ->
    validate_msgs order_tp (DStruct s) = Ok msgs ->
    In f (s_fields s) -> In c (m_child (f_attrs f)) -> ch_ty c = None ->
    In (ta, k) (attrs_by_kind (s_attrs s)) -> is_from k = false -> is_into_existing k = false ->
    child_parents_attr_for (s_attrs s) (tc_ty (ta_core ta)) = Some a ->
    In path (child_path_strs (ch_path c)) -> existsb (fun x => String.eqb (cd_str x) path) (ca_data a) = false ->
    In ("Missing '" ^^ path ^^ ": [Type Path]' instruction for type " ^^ tp_str (tc_ty (ta_core ta))) msgs.
Proof.
  intros order_tp s msgs f c ta k a path Hp H Hf Hc Hty Hbk Hfrom Hex Hcp Hpath Hmiss.
  destruct (validate_msgs_parts _ _ _ H) as [m1 [m6 [-> _]]]. cbn [dt_get_attrs] in *.
  do 7 (apply in_or_app; right). unfold validate_fields. apply in_or_app. right. apply in_or_app. left.
  apply in_flat_map. exists c. split; [apply in_flat_map; exists f; split; assumption|]. rewrite Hty.
  apply in_flat_map. exists (tc_ty (ta_core ta)). split.
  - eapply Permutation_in; [apply Permutation_sym, Hp|]. exact (in_into_type_paths _ ta k Hbk Hfrom Hex).
  - unfold check_child_errors. rewrite Hcp. apply in_flat_map. exists path. split; [exact Hpath|]. rewrite Hmiss. left. reflexivity.
Qed.

(* ---- rule 10: an untyped nested `[parent(..)] member` of a parameterised #[parent] on a struct field, under a From conversion ---- *)
Theorem rule_untyped_nested_parent : forall order_tp s msgs f p fields pcf i ta k,
    validate_msgs order_tp (DStruct s) = Ok msgs ->
    In f (s_fields s) -> In p (m_parent (f_attrs f)) -> pa_children p = Some fields -> In pcf fields -> In i (pc_sub pcf) -> snd i = None ->
    In (ta, k) (attrs_by_kind (s_attrs s)) -> is_from k = true -> pty_matches p (tc_ty (ta_core ta)) = true ->
    In ("Field '" ^^ member_str (fst i) ^^ "' should have type here, e.g. '" ^^ member_str (fst i) ^^ ": SomeStruct'") msgs.
Proof.
  intros order_tp s msgs f p fields pcf i ta k H Hf Hp Hch Hpcf Hi Hnone Hbk Hfrom Hm.
  destruct (validate_msgs_parts _ _ _ H) as [m1 [m6 [-> Hm6]]]. cbn [dt_get_attrs] in *.
  destruct (mapM_in _ _ _ f Hm6 Hf) as [y [Hy Hiny]].
  do 6 (apply in_or_app; right). apply in_or_app. left. apply in_concat. exists y. split; [exact Hiny|].
  unfold validate_member in Hy. destruct (validate_member_error_instrs false (f_attrs f)) as [errs| | |]; cbn [bind] in Hy; try discriminate.
  injection Hy as <-. apply in_or_app. right. apply in_or_app. left.
  do 7 (apply in_or_app; right). unfold validate_parent_attrs. apply in_flat_map. exists p. split; [exact Hp|].
  apply in_or_app. right. apply in_flat_map. exists (ta, k). split; [exact Hbk|]. cbv beta iota. rewrite Hfrom, Hm. cbn [andb]. rewrite Hch.
  apply in_flat_map. exists pcf. split; [exact Hpcf|]. apply in_flat_map. exists i. split; [exact Hi|]. rewrite Hnone. left. reflexivity.
Qed.

(* ---- rule 9: a tuple struct mapped to a struct-form counterpart (`as {}`) whose field carries no instruction for the conversion ---- *)
Theorem rule_tuple_to_named_without_names : forall order_tp s msgs f ta k,
    validate_msgs order_tp (DStruct s) = Ok msgs ->
    s_named s = false -> In f (s_fields s) ->
    In (ta, k) (attrs_by_kind (s_attrs s)) -> tc_qret (ta_core ta) = None -> tc_hint (ta_core ta) = HStruct ->
    m_ghost_for (f_attrs f) (tc_ty (ta_core ta)) k = None -> has_parent_attr (f_attrs f) (tc_ty (ta_core ta)) = false ->
    applicable_field_attr (f_attrs f) k false (tc_ty (ta_core ta)) = None ->
    In ("Member " ^^ member_str (f_member f) ^^ " should have member trait instruction with field name" ^^ (if is_from k then " or an action" else "") ^^
        ", that corresponds to #[" ^^ fallible_kind_str k false ^^ "(" ^^ tp_str (tc_ty (ta_core ta)) ^^ "...)] trait instruction") msgs.
Proof.
  intros order_tp s msgs f ta k H Hn Hf Hbk Hq Hh Hg Hpa Hap.
  destruct (validate_msgs_parts _ _ _ H) as [m1 [m6 [-> _]]]. cbn [dt_get_attrs] in *.
  do 7 (apply in_or_app; right). unfold validate_fields. apply in_or_app. right. apply in_or_app. right. rewrite Hn. cbn [negb].
  apply in_flat_map. exists (ta, k). split; [exact Hbk|]. cbv beta iota. rewrite Hq, Hh. cbn [is_some negb hint_eqb andb].
  unfold check_unnamed_fields. apply in_flat_map. exists f. split; [exact Hf|]. rewrite Hg, Hpa. cbn [is_some orb]. rewrite Hap. left. reflexivity.
Qed.

(* ---- finding F-15c, as a theorem about the model: validation never looks at the payload fields of struct-form variants ----
   Whatever instructions those fields carry (misplaced, misnamed, dedicated to an unknown counterpart, variant-only ...), the
   collected messages are the same: no documented rule can be complete for them. *)
Definition same_but_named_payload (v v' : variant) : Prop :=
  v_attrs v = v_attrs v' /\ v_ident v = v_ident v' /\ v_named v = v_named v' /\ v_unit v = v_unit v' /\
  (v_named v = false -> v_fields v = v_fields v').

Lemma mapM_ext2 {A B} (f : A -> res B) (g : A -> A -> Prop) : (forall a a', g a a' -> f a = f a') ->
  forall l l', Forall2 g l l' -> mapM f l = mapM f l'.
Proof. intros H. induction 1 as [|a a' l l' Ha _ IH]; [reflexivity|]. cbn [mapM]. rewrite (H a a' Ha), IH. reflexivity. Qed.

Lemma flat_map_ext2 {A B} (f : A -> list B) (g : A -> A -> Prop) : (forall a a', g a a' -> f a = f a') ->
  forall l l', Forall2 g l l' -> flat_map f l = flat_map f l'.
Proof. intros H. induction 1 as [|a a' l l' Ha _ IH]; [reflexivity|]. cbn [flat_map]. rewrite (H a a' Ha), IH. reflexivity. Qed.

Theorem payload_fields_of_named_variants_unvalidated : forall order_tp e e',
    e_attrs e = e_attrs e' -> Forall2 same_but_named_payload (e_variants e) (e_variants e') ->
    validate_msgs order_tp (DEnum e) = validate_msgs order_tp (DEnum e').
Proof.
  intros order_tp e e' Ha Hv. unfold validate_msgs. cbn [dt_get_attrs]. rewrite <- Ha.
  destruct (validate_error_instrs true (e_attrs e)) as [m1| | |]; cbn [bind]; try reflexivity.
  rewrite (mapM_ext2 _ same_but_named_payload (fun v v' (H : same_but_named_payload v v') => f_equal (fun a => validate_member true false false a _ _) (proj1 H)) _ _ Hv).
  destruct (mapM _ (e_variants e')) as [m6| | |]; cbn [bind]; try reflexivity.
  rewrite (flat_map_ext2 (fun v => validate_variant_fields v (e_attrs e)) same_but_named_payload) with (l' := e_variants e'); [reflexivity | | exact Hv].
  intros v v' (H1 & H2 & H3 & H4 & H5). unfold validate_variant_fields. rewrite <- H3. destruct (v_named v) eqn:En; [reflexivity|].
  rewrite <- H1, <- H2, (H5 eq_refl). reflexivity.
Qed.
