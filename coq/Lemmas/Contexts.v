(* C04: one impl context per (kind, fallibility, trait instruction) requested - none missing, none
   extra - and the context determines the skeleton (trait path, receiver, `type Error`). *)
From Coq Require Import List String Ascii Bool Arith Permutation.
From O2o.Model Require Import Tok Syn Attr Ast Lookup Expand.
From O2o.Gen Require Import Tables Skeleton.
From O2o.Lemmas Require Import SortPerm.
Import ListNotations.
Open Scope list_scope.

Definition kinds_expand_order : list kind :=
  [FromOwned; FromRef; OwnedInto; RefInto; OwnedIntoExisting; RefIntoExisting].

(* what the instructions request: for every trait instruction, every kind it applies to *)
Definition requested_of (attrs : list trait_attr) : list (kind * bool * trait_core) :=
  flat_map (fun a => map (fun k => (k, ta_fallible a, ta_core a)) (filter (appl_get (ta_appl a)) kinds_expand_order)) attrs.
Definition requested (d : data_type) := requested_of (d_attrs (dt_get_attrs d)).

Definition ctx_key (c : ictx) : kind * bool * trait_core := (c_kind c, c_fallible c, c_core c).

Lemma flat_map_app_perm {A B} (f g : A -> list B) l :
  Permutation (flat_map (fun x => f x ++ g x) l) (flat_map f l ++ flat_map g l).
Proof.
  induction l as [|x l IH]; cbn; [constructor|].
  rewrite <- !app_assoc. apply Permutation_app_head.
  eapply Permutation_trans; [apply Permutation_app_head, IH|].
  rewrite !app_assoc. apply Permutation_app_tail, Permutation_app_comm.
Qed.

Lemma flat_map_if {A B} (p : A -> bool) (g : A -> B) l :
  flat_map (fun y => if p y then [g y] else []) l = map g (filter p l).
Proof. induction l as [|y l IH]; cbn; [reflexivity|]. destruct (p y); cbn; rewrite IH; reflexivity. Qed.

(* exchanging the two nestings of a filtered double enumeration *)
Lemma flat_map_swap {X Y Z} (p : Y -> X -> bool) (g : Y -> X -> Z) (xs : list X) (ys : list Y) :
  Permutation (flat_map (fun y => map (g y) (filter (p y) xs)) ys)
              (flat_map (fun x => map (fun y => g y x) (filter (fun y => p y x) ys)) xs).
Proof.
  induction xs as [|x xs IH]; cbn.
  - induction ys; cbn; auto.
  - eapply Permutation_trans.
    2:{ apply Permutation_app_head. exact IH. }
    rewrite <- (flat_map_if (fun y => p y x) (fun y => g y x) ys).
    eapply Permutation_trans; [|apply flat_map_app_perm].
    apply flat_map_perm_ext. intro y. destruct (p y x); cbn; apply Permutation_refl.
Qed.

Lemma contexts_as_flat_map : forall d,
    map ctx_key (impl_contexts d) =
    flat_map (fun kf => map (fun a => (fst kf, snd kf, ta_core a))
                            (filter (fun a => Bool.eqb (ta_fallible a) (snd kf) && appl_get (ta_appl a) (fst kf))
                                    (d_attrs (dt_get_attrs d))))
             flavours_expand_order.
Proof.
  intro d. unfold impl_contexts. rewrite flat_map_concat_map, concat_map, map_map. rewrite flat_map_concat_map.
  f_equal. apply map_ext. intro kf. rewrite map_map. unfold iter_for_kind. apply map_ext. intro a. reflexivity.
Qed.

Lemma per_attr_flavours : forall (f : bool) (g : kind -> bool) (core : trait_core),
    map (fun kf : kind * bool => (fst kf, snd kf, core))
        (filter (fun kf => Bool.eqb f (snd kf) && g (fst kf)) flavours_expand_order)
    = map (fun k => (k, f, core)) (filter g kinds_expand_order).
Proof.
  intros f g core. unfold flavours_expand_order, kinds_expand_order.
  destruct f; cbn [filter fst snd Bool.eqb andb];
    destruct (g FromOwned), (g FromRef), (g OwnedInto), (g RefInto), (g OwnedIntoExisting), (g RefIntoExisting);
    reflexivity.
Qed.

Theorem contexts_exact : forall d, Permutation (map ctx_key (impl_contexts d)) (requested d).
Proof.
  intro d. rewrite contexts_as_flat_map. unfold requested, requested_of.
  eapply Permutation_trans; [apply (flat_map_swap (fun kf a => Bool.eqb (ta_fallible a) (snd kf) && appl_get (ta_appl a) (fst kf))
                                                  (fun kf a => (fst kf, snd kf, ta_core a)))|].
  apply flat_map_perm_ext. intro a. rewrite per_attr_flavours. apply Permutation_refl.
Qed.

(* the requested set does not depend on the order of the trait instructions *)
Theorem requested_order : forall l l', Permutation l l' -> Permutation (requested_of l) (requested_of l').
Proof. intros. apply flat_map_perm. assumption. Qed.

(* each context is expanded through the skeleton of its (kind, fallible) *)
Definition skeleton_of (k : kind) (fallible : bool) : list stok :=
  match k, fallible with
  | (FromOwned | FromRef), false => sk_from
  | (FromOwned | FromRef), true => sk_try_from
  | (OwnedInto | RefInto), false => sk_into
  | (OwnedInto | RefInto), true => sk_try_into
  | (OwnedIntoExisting | RefIntoExisting), false => sk_into_existing
  | (OwnedIntoExisting | RefIntoExisting), true => sk_try_into_existing
  end.

Lemma Ok_inj {A} (a b : A) : @Ok A a = Ok b -> a = b.
Proof. intro H; injection H; auto. Qed.

Lemma quote_trait_skeleton : forall t c ts,
    quote_trait t c = Ok ts -> exists e, ts = inst e (skeleton_of (c_kind c) (c_fallible c)).
Proof.
  intros t c ts. unfold quote_trait.
  destruct (if is_some (tc_qret (c_core c)) then Ok None else struct_post_init (tv_data t) c) as [post| | |]; cbn [bind]; try discriminate.
  destruct (c_kind c) eqn:Hk; destruct (c_fallible c) eqn:Hf; cbn [is_from is_intoish c_kind c_fallible skeleton_of];
    repeat match goal with
           | |- context [bind ?r _] => destruct r; cbn [bind]; try discriminate
           end;
    intro H; apply Ok_inj in H; rewrite <- H; eexists; reflexivity.
Qed.

(* the impls are the expansions of the contexts, concatenated in context order *)
Lemma data_type_impl_concat : forall d ts,
    data_type_impl d = Ok ts ->
    exists impls, mapM (expand_impl d) (impl_contexts d) = Ok impls /\ ts = List.concat impls.
Proof.
  intros d ts. unfold data_type_impl. destruct (mapM _ _) as [impls| | |]; cbn [bind]; try discriminate.
  intro H. injection H as <-. eauto.
Qed.

Lemma mapM_length {A B} (f : A -> res B) : forall l r, mapM f l = Ok r -> List.length r = List.length l.
Proof.
  induction l as [|x l IH]; cbn; intros r H.
  - injection H as <-. reflexivity.
  - destruct (f x); cbn in H; try discriminate. destruct (mapM f l); cbn in H; try discriminate.
    injection H as <-. cbn. f_equal. apply IH. reflexivity.
Qed.

(* number of impl items = number of requested (kind, fallibility, instruction) triples *)
Theorem impl_count : forall d ts,
    data_type_impl d = Ok ts ->
    exists impls, ts = List.concat impls /\ List.length impls = List.length (requested d).
Proof.
  intros d ts H. destruct (data_type_impl_concat d ts H) as [impls [Hm ->]].
  exists impls. split; [reflexivity|].
  rewrite (mapM_length _ _ _ Hm). rewrite <- (map_length ctx_key). apply Permutation_length, contexts_exact.
Qed.

(* skeleton facts, by computation over the regenerated templates:
   the tokens between `impl #impl_gens` and `<` spell the documented trait path *)
Fixpoint path_after_impl_gens (l : list stok) : list stok :=
  match l with
  | SH "impl_gens" :: r =>
      (fix take (l : list stok) : list stok :=
         match l with
         | SP "<" _ :: _ => []
         | x :: r => x :: take r
         | [] => []
         end) r
  | _ :: r => path_after_impl_gens r
  | [] => []
  end.
Fixpoint stoks_text (l : list stok) : string :=
  match l with
  | [] => ""
  | SI s :: r => s ^^ stoks_text r
  | SP c _ :: r => String c (stoks_text r)
  | SL s :: r => s ^^ stoks_text r
  | SH h :: r => "#" ^^ h ^^ stoks_text r
  | SG _ _ :: r => "{}" ^^ stoks_text r
  end.
Definition body_group (l : list stok) : list stok :=
  match last l (SI "") with SG DBrace b => b | _ => [] end.
Definition has_type_error (l : list stok) : bool :=
  match body_group l with
  | SI "type" :: SI "Error" :: SP "=" _ :: SH "err_ty" :: SH "err_gens" :: SP ";" _ :: _ => true
  | _ => false
  end.
Definition fn_name (l : list stok) : string :=
  (fix go (l : list stok) : string :=
     match l with SI "fn" :: SI n :: _ => n | _ :: r => go r | [] => "" end) (body_group l).

Lemma skeleton_traits :
  map (fun kf => (stoks_text (path_after_impl_gens (skeleton_of (fst kf) (snd kf))),
                  fn_name (skeleton_of (fst kf) (snd kf)),
                  has_type_error (skeleton_of (fst kf) (snd kf))))
      [(FromOwned, false); (FromOwned, true); (OwnedInto, false); (OwnedInto, true); (OwnedIntoExisting, false); (OwnedIntoExisting, true)]
  = [("::core::convert::From", "from", false); ("::core::convert::TryFrom", "try_from", true);
     ("::core::convert::Into", "into", false); ("::core::convert::TryInto", "try_into", true);
     ("o2o::traits::IntoExisting", "into_existing", false); ("o2o::traits::TryIntoExisting", "try_into_existing", true)]%string.
Proof. vm_compute. reflexivity. Qed.
