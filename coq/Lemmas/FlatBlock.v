(* C01 at the entry point: for a struct without flattening (no #[child], no parameterised #[parent], no #[ghosts] entry with a path)
   the containers struct_init_block works on are the fields themselves, in declaration order - so C01_block speaks about
   struct_init_block itself, not about a hypothetical member list. *)
From Coq Require Import List String Ascii Bool Arith Lia.
From O2o.Model Require Import Tok Syn Attr Ast Lookup Validate Expand Derive.
From O2o.Lemmas Require Import Designated Flatten Descent.
Import ListNotations.
Open Scope string_scope.
Open Scope list_scope.

Definition flat_struct (s : sview) : Prop :=
  Forall (fun f => fv_child f = None /\ fv_pparent f = None) (sv_fields s) /\
  NoDup (map fv_str (sv_fields s)) /\ ~ In "" (map fv_str (sv_fields s)) /\
  match sv_ghosts s with Some g => Forall (fun x => gd_path x = None) (sg_data g) | None => True end.

Fixpoint numbered_from (a : nat) (fs : list fview) : list container :=
  match fs with [] => [] | f :: r => {| fc_gr := a; fc_path := fv_str f; fc_data := FdField f |} :: numbered_from (S a) r end.

Lemma position_app_notin s l1 l2 : ~ In s l1 -> position s (l1 ++ l2) = option_map (fun n => List.length l1 + n) (position s l2).
Proof.
  induction l1 as [|x l1 IH]; intro H; cbn [app position List.length].
  - destruct (position s l2); reflexivity.
  - destruct (String.eqb x s) eqn:E; [apply String.eqb_eq in E; subst; exfalso; apply H; left; reflexivity|].
    rewrite IH by (intro Hin; apply H; right; exact Hin). destruct (position s l2); reflexivity.
Qed.

Lemma assign_groups_fresh : forall fs groups,
    NoDup (map fv_str fs) -> (forall f, In f fs -> ~ In (fv_str f) groups) ->
    assign_groups (map (fun f => (fv_str f, FdField f)) fs) groups false
    = (numbered_from (List.length groups) fs, groups ++ map fv_str fs).
Proof.
  induction fs as [|f fs IH]; intros groups Hnd Hfresh; cbn [map assign_groups numbered_from].
  - rewrite app_nil_r. reflexivity.
  - unfold group_of. assert (Hp : position (fv_str f) groups = None).
    { destruct (position (fv_str f) groups) as [g|] eqn:E; [|reflexivity]. exfalso. apply (Hfresh f (or_introl eq_refl)).
      apply position_spec in E. eapply nth_error_In. exact E. }
    rewrite Hp. inversion Hnd as [|? ? Hx Hnd']; subst.
    rewrite (IH (groups ++ [fv_str f]) Hnd').
    + rewrite app_length. cbn [List.length]. rewrite Nat.add_1_r, <- app_assoc. reflexivity.
    + intros g Hg Hin. apply in_app_or in Hin. destruct Hin as [Hin|[Heq|[]]].
      * exact (Hfresh g (or_intror Hg) Hin).
      * apply Hx. rewrite Heq. apply in_map. exact Hg.
Qed.

Lemma numbered_gr : forall fs a x, In x (numbered_from a fs) -> a <= fc_gr x.
Proof.
  induction fs as [|f fs IH]; intros a x H; [destruct H|]. destruct H as [<-|H]; [apply Nat.le_refl|]. apply IH in H. lia.
Qed.

Lemma filter_none_below : forall fs a g, g < a -> filter (fun c => Nat.eqb (fc_gr c) g) (numbered_from a fs) = [].
Proof.
  intros fs a g Hlt. induction (numbered_from a fs) as [|x l IH] eqn:E in fs, a, Hlt |- *; [reflexivity|].
  destruct fs as [|f fs]; [discriminate E|]. cbn [numbered_from] in E. injection E as <- <-. cbn [filter fc_gr].
  destruct (Nat.eqb a g) eqn:Eq; [apply Nat.eqb_eq in Eq; lia|]. apply (IH fs (S a)); [lia | reflexivity].
Qed.

Lemma by_groups_numbered : forall fs a,
    flat_map (fun g => filter (fun c => Nat.eqb (fc_gr c) g) (numbered_from a fs)) (seq a (List.length fs)) = numbered_from a fs.
Proof.
  induction fs as [|f fs IH]; intro a; [reflexivity|]. cbn [List.length seq flat_map numbered_from filter fc_gr].
  rewrite Nat.eqb_refl. rewrite (filter_none_below fs (S a) a (Nat.lt_succ_diag_r a)). cbn [app]. f_equal.
  transitivity (flat_map (fun g => filter (fun c => Nat.eqb (fc_gr c) g) (numbered_from (S a) fs)) (seq (S a) (List.length fs))); [|apply IH].
  apply flat_map_ext_in'. intros g Hg. apply in_seq in Hg.
  destruct (Nat.eqb a g) eqn:Eq; [apply Nat.eqb_eq in Eq; lia | reflexivity].
Qed.

Lemma ghost_items_add_nothing : forall (items : list (string * field_data)) groups,
    (forall p d, In (p, d) items -> p = "") -> In "" groups ->
    assign_groups items groups true = ([], groups).
Proof.
  induction items as [|[p d] r IH]; intros groups Hp Hin; [reflexivity|]. cbn [assign_groups].
  assert (p = "") by (apply (Hp p d); left; reflexivity). subst p. unfold group_of.
  destruct (position "" groups) as [g|] eqn:E.
  - rewrite (IH groups); [reflexivity | intros q d' H; apply (Hp q d'); right; exact H | exact Hin].
  - exfalso. apply position_none in E. exact (E Hin).
Qed.

Lemma flat_struct_containers s : flat_struct s -> sorted_containers s = numbered_from 1 (sv_fields s).
Proof.
  intros [Hf [Hnd [Hne Hg]]]. unfold sorted_containers.
  assert (Hitems : field_items s = map (fun f => (fv_str f, FdField f)) (sv_fields s)).
  { unfold field_items. induction (sv_fields s) as [|f fs IH]; [reflexivity|]. inversion Hf as [|? ? [Hc Hp] Hr]; subst.
    cbn [flat_map map]. rewrite Hp, Hc. cbn [app]. f_equal. apply IH; [exact Hr | inversion Hnd; assumption | intro H; apply Hne; right; exact H]. }
  rewrite Hitems. rewrite (assign_groups_fresh (sv_fields s) [""] Hnd).
  2:{ intros f Hin [Heq|[]]. apply Hne. rewrite Heq. apply in_map. exact Hin. }
  rewrite (ghost_items_add_nothing (ghost_items s)).
  - cbn [List.length app]. rewrite app_nil_r. rewrite map_length.
    cbn [seq flat_map]. rewrite (filter_none_below (sv_fields s) 1 0 Nat.lt_0_1). cbn [app]. apply by_groups_numbered.
  - intros p d Hin. unfold ghost_items in Hin. destruct (sv_ghosts s) as [g|]; [|destruct Hin].
    apply in_map_iff in Hin. destruct Hin as [x [Hx Hinx]]. rewrite Forall_forall in Hg. rewrite (Hg x Hinx) in Hx. injection Hx as <- _. reflexivity.
  - left. reflexivity.
Qed.

Lemma numbered_related : forall fs a, Forall2 (fun x f => fc_data x = FdField f) (numbered_from a fs) fs.
Proof. induction fs as [|f fs IH]; intro a; constructor; [reflexivity | apply IH]. Qed.

(* C01 at the entry point *)
Theorem flat_struct_init_block : forall s c,
    flat_struct s ->
    ((negb (is_from (c_kind c)) && hint_eqb (c_hint c) HUnit) || (is_from (c_kind c) && sv_unit s)) = false ->
    struct_init_block s c =
    (ls <- spec_lines (sv_fields s) c (c_hint c) 0 ;; gs <- spec_ghosts s c ;;
     wrap_struct c (c_hint c) (sv_named s) (ls ++ List.concat gs ++ spec_update c)).
Proof.
  intros s c Hfl Hu. unfold struct_init_block. rewrite Hu. cbv zeta. rewrite (flat_struct_containers s Hfl).
  set (fuel := 4 * (List.length (numbered_from 1 (sv_fields s)) + 2) * (max_path_len (numbered_from 1 (sv_fields s)) + 2)).
  assert (Hfuel : exists n, fuel = S n).
  { unfold fuel. destruct (4 * (List.length (numbered_from 1 (sv_fields s)) + 2) * (max_path_len (numbered_from 1 (sv_fields s)) + 2)) eqn:E; [lia | eexists; reflexivity]. }
  destruct Hfuel as [n ->].
  rewrite (init_block_plain s c n (sv_fields s) (numbered_from 1 (sv_fields s)) (sv_named s)).
  - destruct (spec_lines _ _ _ _) as [ls| | |]; cbn [bind]; try reflexivity.
    destruct (spec_ghosts s c) as [gs| | |]; cbn [bind]; try reflexivity.
    destruct (wrap_struct _ _ _ _) as [toks| | |]; reflexivity.
  - destruct Hfl as [Hf _]. eapply Forall_impl; [|exact Hf]. intros f [Hc _]. exact Hc.
  - apply numbered_related.
Qed.

(* non-vacuity: a two-field struct meets flat_struct *)
Example flat_struct_example :
  let mk n i := {| fv_member := MNamed n; fv_idx := i; fv_str := n; fv_ty := None; fv_child := None; fv_ghost := None;
                   fv_has_parent := false; fv_has_pl_parent := false; fv_pparent := None; fv_attr := None |} in
  flat_struct {| sv_fields := [mk "a" 0; mk "b" 1]; sv_named := true; sv_unit := false; sv_ghosts := None; sv_child_parents := None |}.
Proof.
  cbv zeta. unfold flat_struct. cbn [sv_fields sv_ghosts map fv_str fv_child fv_pparent]. repeat split.
  - repeat constructor.
  - repeat constructor; cbn; intuition discriminate.
  - cbn. intuition discriminate.
Qed.
