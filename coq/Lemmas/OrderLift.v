(* C04, lifted to the generated code: the order in which the trait instructions are written only permutes the generated impls -
   the same impls, token for token, none missing, none extra. *)
From Coq Require Import List String Ascii Bool Arith Permutation.
From O2o.Model Require Import Tok Syn Attr Ast Lookup Validate Expand Derive.
From O2o.Lemmas Require Import ShortcutLift.
Import ListNotations.
Open Scope list_scope.

Lemma perm_filter {A} (p : A -> bool) l l' : Permutation l l' -> Permutation (filter p l) (filter p l').
Proof.
  induction 1 as [|x l l' _ IH|x y l|l l' l'' _ IH1 _ IH2]; cbn [filter].
  - constructor.
  - destruct (p x); [constructor|]; exact IH.
  - destruct (p x), (p y); try apply Permutation_refl. apply perm_swap.
  - exact (Permutation_trans IH1 IH2).
Qed.

Lemma perm_flat_map_pointwise {A B} (f g : A -> list B) l : (forall x, Permutation (f x) (g x)) -> Permutation (flat_map f l) (flat_map g l).
Proof. intro H. induction l as [|x l IH]; cbn [flat_map]; [constructor|]. apply Permutation_app; [apply H | exact IH]. Qed.

Lemma contexts_permuted d l' :
  Permutation (d_attrs (dt_get_attrs d)) l' -> Permutation (impl_contexts d) (impl_contexts (set_trait_attrs d l')).
Proof.
  intro Hp. unfold impl_contexts.
  assert (Hi : dt_ident (set_trait_attrs d l') = dt_ident d) by (destruct d; reflexivity).
  assert (Hn : match set_trait_attrs d l' with DStruct s => s_named s | DEnum _ => false end
               = match d with DStruct s => s_named s | DEnum _ => false end) by (destruct d; reflexivity).
  assert (Ht : match set_trait_attrs d l' with DStruct _ => ITStruct | DEnum _ => ITEnum end
               = match d with DStruct _ => ITStruct | DEnum _ => ITEnum end) by (destruct d; reflexivity).
  rewrite Hi, Hn, Ht. apply perm_flat_map_pointwise. intros [k f]. cbn [fst snd]. apply Permutation_map. unfold iter_for_kind.
  assert (Ha : d_attrs (dt_get_attrs (set_trait_attrs d l')) = l') by (destruct d; reflexivity). rewrite Ha.
  apply perm_filter. exact Hp.
Qed.

Lemma mapM_permuted {A B} (f : A -> res B) : forall l l' r,
    Permutation l l' -> mapM f l = Ok r -> exists r', mapM f l' = Ok r' /\ Permutation r r'.
Proof.
  intros l l' r Hp. revert r. induction Hp as [|x l l' _ IH|x y l|l l' l'' _ IH1 _ IH2]; intros r H.
  - exists r. split; [exact H|]. cbn in H. injection H as <-. constructor.
  - cbn [mapM] in *. destruct (f x) as [b| | |]; cbn [bind] in *; try discriminate H.
    destruct (mapM f l) as [bs| | |] eqn:E; cbn [bind] in *; try discriminate H. injection H as <-.
    destruct (IH bs eq_refl) as [bs' [E' Hp']]. rewrite E'. cbn [bind]. exists (b :: bs'). split; [reflexivity | constructor; exact Hp'].
  - cbn [mapM] in *. destruct (f y) as [by_| | |]; cbn [bind] in *; try discriminate H.
    destruct (f x) as [bx| | |]; cbn [bind] in *; try discriminate H.
    destruct (mapM f l) as [bs| | |]; cbn [bind] in *; try discriminate H. injection H as <-.
    exists (bx :: by_ :: bs). split; [reflexivity | apply perm_swap].
  - destruct (IH1 r H) as [r1 [E1 P1]]. destruct (IH2 r1 E1) as [r2 [E2 P2]]. exists r2. split; [exact E2 | exact (Permutation_trans P1 P2)].
Qed.

(* the generated code: the impls of the reordered input are a permutation of the impls of the original one *)
Theorem reordered_instructions_permute_the_impls : forall d l' impls,
    Permutation (d_attrs (dt_get_attrs d)) l' ->
    mapM (expand_impl d) (impl_contexts d) = Ok impls ->
    exists impls', mapM (expand_impl (set_trait_attrs d l')) (impl_contexts (set_trait_attrs d l')) = Ok impls' /\ Permutation impls impls'.
Proof.
  intros d l' impls Hp H.
  destruct (mapM_permuted (expand_impl d) _ _ impls (contexts_permuted d l' Hp) H) as [impls' [E P]].
  exists impls'. split; [|exact P].
  assert (M : forall cs, mapM (expand_impl (set_trait_attrs d l')) cs = mapM (expand_impl d) cs).
  { induction cs as [|c cs IH]; [reflexivity|]. cbn [mapM]. unfold expand_impl at 1. rewrite view_type_ignores_trait_attrs. fold (expand_impl d c). rewrite IH. reflexivity. }
  rewrite M. exact E.
Qed.
