(* C14: after the threading (C14_member / C14_fields: each member holds its own instructions followed by the inherited ones of the
   selected categories) the markers themselves - repeat / skip_repeat / stop_repeat - are invisible to everything downstream:
   erasing them from every field, variant and payload field changes neither the diagnostics of validation nor the generated code.
   So an input with markers and its written-out form, which thread to the same instruction lists, expand identically. *)
From Coq Require Import List String Ascii Bool Arith.
From O2o.Model Require Import Tok Syn Attr Ast Lookup Validate Expand Derive.
Import ListNotations.
Open Scope list_scope.

Definition erase_marks (m : member_attrs) : member_attrs :=
  {| m_attrs := m_attrs m; m_child := m_child m; m_parent := m_parent m; m_ghost := m_ghost m; m_ghosts := m_ghosts m; m_lit := m_lit m;
     m_pat := m_pat m; m_repeat := None; m_skip := false; m_stop := false; m_hint := m_hint m; m_errs := m_errs m |}.
Definition erase_field (f : field) : field :=
  {| f_attrs := erase_marks (f_attrs f); f_idx := f_idx f; f_member := f_member f; f_member_str := f_member_str f; f_ty := f_ty f |}.
Definition erase_variant (v : variant) : variant :=
  {| v_attrs := erase_marks (v_attrs v); v_ident := v_ident v; v_fields := map erase_field (v_fields v); v_named := v_named v; v_unit := v_unit v |}.
Definition erase_data (d : data_type) : data_type :=
  match d with
  | DStruct s => DStruct {| s_attrs := s_attrs s; s_ident := s_ident s; s_generics := s_generics s; s_fields := map erase_field (s_fields s);
                            s_named := s_named s; s_unit := s_unit s; s_where := s_where s |}
  | DEnum e => DEnum {| e_attrs := e_attrs e; e_ident := e_ident e; e_generics := e_generics e; e_variants := map erase_variant (e_variants e);
                        e_where := e_where e |}
  end.

Lemma view_field_erased k fl ty f : view_field k fl ty (erase_field f) = view_field k fl ty f.
Proof. reflexivity. Qed.

Lemma view_variant_erased k fl ty v : view_variant k fl ty (erase_variant v) = view_variant k fl ty v.
Proof.
  unfold view_variant. cbn [erase_variant v_ident v_fields v_named v_unit v_attrs]. rewrite map_map.
  rewrite (map_ext _ _ (view_field_erased k fl ty)). reflexivity.
Qed.

Lemma view_type_erased k fl ty d : view_type k fl ty (erase_data d) = view_type k fl ty d.
Proof.
  destruct d as [s|e]; unfold view_type; cbn [erase_data dt_ident dt_generics dt_get_attrs dt_where]; f_equal; f_equal.
  - unfold view_struct. cbn [s_fields s_named s_unit s_attrs]. rewrite map_map. rewrite (map_ext _ _ (view_field_erased k fl ty)). reflexivity.
  - cbn [e_variants e_attrs]. rewrite map_map. rewrite (map_ext _ _ (view_variant_erased k fl ty)). reflexivity.
Qed.

Theorem marks_invisible_to_codegen : forall d, data_type_impl (erase_data d) = data_type_impl d.
Proof.
  intro d. unfold data_type_impl.
  assert (Hc : impl_contexts (erase_data d) = impl_contexts d) by (destruct d; reflexivity). rewrite Hc.
  assert (M : forall cs, mapM (expand_impl (erase_data d)) cs = mapM (expand_impl d) cs).
  { induction cs as [|c cs IH]; [reflexivity|]. cbn [mapM]. unfold expand_impl at 1. rewrite view_type_erased. fold (expand_impl d c). rewrite IH. reflexivity. }
  rewrite M. reflexivity.
Qed.
