(* C15, rule 6 from the attribute text, and the documented switch: a directly written attribute on the TYPE whose name is a
   member-level instruction (the arms guarded by `if bark` in the regenerated table) is
     - recorded as a misplaced / misnamed instruction, and hence reported (Rules3.v), when no #[o2o(..)] list before it contains
       allow_unknown;
     - ignored altogether - the parsed type-level attributes are those of the input without it - when one does. *)
From Coq Require Import List String Ascii Bool Arith Lia.
From O2o.Gen Require Import Tables.
From O2o.Model Require Import Tok Syn Attr Ast Lookup Validate.
Import ListNotations.
Open Scope string_scope.
Open Scope list_scope.

(* names of the arms guarded by `if bark`, read off the regenerated table *)
Definition barked_type_level_names : list string :=
  flat_map (fun arm => match arm with (names, GBark, _, _) => names | _ => [] end) dt_arms.

Definition barked_class (n : string) : option dt_class :=
  match find_arm dt_arms n false true with Some (c, _) => Some c | None => None end.

Definition is_err_class (c : dt_class) : bool := match c with DcMisplaced | DcMisnamed _ => true | _ => false end.

(* table facts (vm_compute over Gen/Tables.v): with bark on, each of these names is a misplaced / misnamed instruction; with bark
   off it falls through to the catch-all arm *)
Lemma barked_names_table :
  forallb (fun n => match barked_class n with Some c => is_err_class c | None => false end) barked_type_level_names = true /\
  forallb (fun n => match find_arm dt_arms n false false with Some (DcUnrec, _) => true | _ => false end) barked_type_level_names = true /\
  negb (str_in "doc" barked_type_level_names) && negb (str_in "o2o" barked_type_level_names) = true /\
  barked_type_level_names <> [].
Proof. repeat split; try (vm_compute; reflexivity). vm_compute. discriminate. Qed.

Section Foreign.
  Variable be : backend.

  (* dt_instrs distributes over ++ *)
  Lemma dt_instrs_app : forall l1 l2 b,
      dt_instrs be (l1 ++ l2) b =
      ('(i1, b1) <- dt_instrs be l1 b ;; '(i2, b2) <- dt_instrs be l2 b1 ;; Ok (i1 ++ i2, b2)).
  Proof.
    induction l1 as [|a l1 IH]; intros l2 b.
    - cbn [app dt_instrs bind]. destruct (dt_instrs be l2 b) as [[i2 b2]| | |]; reflexivity.
    - cbn [app dt_instrs]. destruct (ra_path a) as [p|]; [|apply IH].
      destruct (String.eqb p "doc"); [apply IH|]. destruct (String.eqb p "o2o").
      + destruct (o2o_list_content a) as [content| | |]; cbn [bind]; try reflexivity.
        destruct (parse_terminated _ _ _) as [news| | |]; cbn [bind]; try reflexivity.
        rewrite IH. destruct (dt_instrs be l1 _) as [[i1 b1]| | |]; cbn [bind]; try reflexivity.
        destruct (dt_instrs be l2 b1) as [[i2 b2]| | |]; cbn [bind]; try reflexivity. rewrite app_assoc. reflexivity.
      + destruct (bare_attr_tokens be a) as [toks| | |]; cbn [bind]; try reflexivity.
        destruct (parse_data_type_instruction be p toks false b) as [i| | |]; cbn [bind]; try reflexivity.
        rewrite IH. destruct (dt_instrs be l1 b) as [[i1 b1]| | |]; cbn [bind]; try reflexivity.
        destruct (dt_instrs be l2 b1) as [[i2 b2]| | |]; cbn [bind]; reflexivity.
  Qed.

  (* what the parser makes of such an attribute *)
  Lemma barked_parse n toks bark :
    In n barked_type_level_names ->
    parse_data_type_instruction be n toks false bark =
    if bark then match barked_class n with
                 | Some DcMisplaced => Ok (DMisplaced n false)
                 | Some (DcMisnamed g) => Ok (DMisnamed n g false)
                 | _ => Oom "unreachable"
                 end
    else Ok DUnrec.
  Proof.
    intro Hin. destruct barked_names_table as [H1 [H2 _]]. rewrite forallb_forall in H1, H2. specialize (H1 n Hin). specialize (H2 n Hin).
    unfold parse_data_type_instruction, barked_class in *. destruct bark.
    - destruct (find_arm dt_arms n false true) as [[c s]|]; [|discriminate H1]. destruct c; try discriminate H1; reflexivity.
    - destruct (find_arm dt_arms n false false) as [[c s]|]; [|discriminate H2]. destruct c; try discriminate H2; reflexivity.
  Qed.

  Definition is_error_instr (i : dt_instr) : bool :=
    match i with DMisplaced _ _ | DMisnamed _ _ _ | DUnrecErr _ => true | _ => false end.

  Lemma collect_keeps_errs : forall instrs m acc d e,
      collect_dt_attrs instrs m acc = Ok d -> In e (d_errs acc) -> In e (d_errs d).
  Proof.
    induction instrs as [|i rest IH]; intros m acc d e H He; cbn [collect_dt_attrs] in H; [injection H as <-; exact He|].
    destruct i; try (eapply IH; [exact H | cbn [d_errs]; try apply in_or_app; try (left; exact He); exact He]).
    match type of H with context [bind ?x _] => destruct x as [[m2 ta']| | |]; cbn [bind] in H; try discriminate H end.
    eapply IH; [exact H | exact He].
  Qed.

  Lemma collect_records_errs : forall instrs m acc d e,
      collect_dt_attrs instrs m acc = Ok d -> In e instrs -> is_error_instr e = true -> In e (d_errs d).
  Proof.
    induction instrs as [|i rest IH]; intros m acc d e H Hin He; [destruct Hin|]. cbn [collect_dt_attrs] in H. destruct Hin as [->|Hin].
    - destruct e; try discriminate He; (eapply collect_keeps_errs; [exact H | cbn [d_errs]; apply in_or_app; right; left; reflexivity]).
    - destruct i; try (eapply IH; [exact H | exact Hin | exact He]).
      match type of H with context [bind ?x _] => destruct x as [[m2 ta']| | |]; cbn [bind] in H; try discriminate H end.
      eapply IH; [exact H | exact Hin | exact He].
  Qed.

  Lemma collect_skips_unrec : forall l1 l2 m acc,
      collect_dt_attrs (l1 ++ DUnrec :: l2) m acc = collect_dt_attrs (l1 ++ l2) m acc.
  Proof.
    induction l1 as [|i l1 IH]; intros l2 m acc; [reflexivity|]. cbn [app collect_dt_attrs]. destruct i; try apply IH.
    match goal with |- context [bind ?x _] => destruct x as [[m2 ta']| | |]; cbn [bind]; try reflexivity end. apply IH.
  Qed.

  Lemma not_doc_o2o n : In n barked_type_level_names -> String.eqb n "doc" = false /\ String.eqb n "o2o" = false.
  Proof.
    intro Hin. destruct barked_names_table as [_ [_ [H3 _]]]. apply andb_prop in H3. destruct H3 as [Hd Ho].
    apply negb_true_iff in Hd, Ho. split; destruct (String.eqb n _) eqn:E; try reflexivity; apply String.eqb_eq in E; subst n;
      unfold str_in in *; [rewrite <- Hd | rewrite <- Ho]; symmetry; apply existsb_exists; eexists; (split; [exact Hin | apply String.eqb_refl]).
  Qed.

  (* rule 6 from the attribute text: no switch before it -> recorded as an error instruction (and so reported: Rules3.v) *)
  Theorem foreign_type_level_attribute_recorded : forall pre a post n ipre d bk,
      get_data_type_attrs be (pre ++ a :: post) = Ok (d, bk) ->
      dt_instrs be pre true = Ok (ipre, true) ->
      ra_path a = Some n -> In n barked_type_level_names ->
      exists e, In e (d_errs d) /\
                (e = DMisplaced n false \/ exists g, e = DMisnamed n g false).
  Proof.
    intros pre a post n ipre d bk H Hpre Hp Hin. unfold get_data_type_attrs in H. rewrite dt_instrs_app, Hpre in H. cbn [bind] in H.
    cbn [dt_instrs] in H. rewrite Hp in H. destruct (not_doc_o2o n Hin) as [Ed Eo]. rewrite Ed, Eo in H.
    destruct (bare_attr_tokens be a) as [toks| | |]; cbn [bind] in H; try discriminate H.
    rewrite (barked_parse n toks true Hin) in H.
    destruct barked_names_table as [H1 _]. rewrite forallb_forall in H1. specialize (H1 n Hin).
    destruct (barked_class n) as [c|]; [|discriminate H1]. destruct c; try discriminate H1; cbn [bind] in H;
      (destruct (dt_instrs be post true) as [[more b2]| | |]; cbn [bind] in H; try discriminate H;
       match type of H with context [collect_dt_attrs ?l _ _] => destruct (collect_dt_attrs l [] empty_dt_attrs) as [d'| | |] eqn:Ec; cbn [bind] in H; try discriminate H end;
       injection H as <- <-).
    - exists (DMisnamed n guess false). split; [|right; exists guess; reflexivity].
      eapply collect_records_errs; [exact Ec | apply in_or_app; right; left; reflexivity | reflexivity].
    - exists (DMisplaced n false). split; [|left; reflexivity].
      eapply collect_records_errs; [exact Ec | apply in_or_app; right; left; reflexivity | reflexivity].
  Qed.

  (* the documented switch: once a #[o2o(..)] list with allow_unknown has been seen, such an attribute changes nothing at all *)
  Theorem foreign_type_level_attribute_ignored_after_switch : forall pre a post n ipre toks,
      dt_instrs be pre true = Ok (ipre, false) ->
      ra_path a = Some n -> In n barked_type_level_names -> bare_attr_tokens be a = Ok toks ->
      get_data_type_attrs be (pre ++ a :: post) = get_data_type_attrs be (pre ++ post).
  Proof.
    intros pre a post n ipre toks Hpre Hp Hin Ht. unfold get_data_type_attrs. rewrite !dt_instrs_app, Hpre. cbn [bind].
    cbn [dt_instrs]. rewrite Hp. destruct (not_doc_o2o n Hin) as [Ed Eo]. rewrite Ed, Eo, Ht. cbn [bind].
    rewrite (barked_parse n toks false Hin). cbn [bind].
    destruct (dt_instrs be post false) as [[more b2]| | |]; cbn [bind]; try reflexivity.
    rewrite (collect_skips_unrec ipre more). reflexivity.
  Qed.
End Foreign.

(* ---------------- the same at member level (struct fields, variants, payload fields) ---------------- *)
Definition barked_member_level_names : list string :=
  flat_map (fun arm => match arm with (names, GBark, _, _) => names | _ => [] end) mb_arms.
Definition barked_member_class (n : string) : option mb_class :=
  match find_arm mb_arms n false true with Some (c, _) => Some c | None => None end.
Definition is_err_mclass (c : mb_class) : bool := match c with McMisplaced | McMisnamed _ => true | _ => false end.

Lemma barked_member_names_table :
  forallb (fun n => match barked_member_class n with Some c => is_err_mclass c | None => false end) barked_member_level_names = true /\
  forallb (fun n => match find_arm mb_arms n false false with Some (McUnrec, _) => true | _ => false end) barked_member_level_names = true /\
  negb (str_in "doc" barked_member_level_names) && negb (str_in "o2o" barked_member_level_names) = true /\
  barked_member_level_names <> [].
Proof. repeat split; try (vm_compute; reflexivity). vm_compute. discriminate. Qed.

Section ForeignMember.
  Variable be : backend.

  Lemma mb_instrs_app : forall l1 l2 b,
      mb_instrs be (l1 ++ l2) b = (i1 <- mb_instrs be l1 b ;; i2 <- mb_instrs be l2 b ;; Ok (i1 ++ i2)).
  Proof.
    induction l1 as [|a l1 IH]; intros l2 b.
    - cbn [app mb_instrs bind]. destruct (mb_instrs be l2 b); reflexivity.
    - cbn [app mb_instrs]. destruct (ra_path a) as [p|]; [|apply IH].
      destruct (String.eqb p "doc"); [apply IH|]. destruct (String.eqb p "o2o").
      + destruct (o2o_list_content a) as [content| | |]; cbn [bind]; try reflexivity.
        destruct (parse_terminated _ _ _) as [news| | |]; cbn [bind]; try reflexivity.
        rewrite IH. destruct (mb_instrs be l1 b) as [i1| | |]; cbn [bind]; try reflexivity.
        destruct (mb_instrs be l2 b) as [i2| | |]; cbn [bind]; try reflexivity. rewrite app_assoc. reflexivity.
      + destruct (bare_attr_tokens be a) as [toks| | |]; cbn [bind]; try reflexivity.
        destruct (parse_member_instruction be p toks false b) as [i| | |]; cbn [bind]; try reflexivity.
        rewrite IH. destruct (mb_instrs be l1 b) as [i1| | |]; cbn [bind]; try reflexivity.
        destruct (mb_instrs be l2 b) as [i2| | |]; cbn [bind]; reflexivity.
  Qed.

  Lemma barked_member_parse n toks bark :
    In n barked_member_level_names ->
    parse_member_instruction be n toks false bark =
    if bark then match barked_member_class n with
                 | Some McMisplaced => Ok (MMisplaced n false)
                 | Some (McMisnamed g) => Ok (MMisnamed n g false)
                 | _ => Oom "unreachable"
                 end
    else Ok MUnrec.
  Proof.
    intro Hin. destruct barked_member_names_table as [H1 [H2 _]]. rewrite forallb_forall in H1, H2. specialize (H1 n Hin). specialize (H2 n Hin).
    unfold parse_member_instruction, barked_member_class in *. destruct bark.
    - destruct (find_arm mb_arms n false true) as [[c s]|]; [|discriminate H1]. destruct c; try discriminate H1; reflexivity.
    - destruct (find_arm mb_arms n false false) as [[c s]|]; [|discriminate H2]. destruct c; try discriminate H2; reflexivity.
  Qed.

  Lemma member_collect_skips_unrec fty : forall l1 l2 acc,
      collect_member_attrs fty (l1 ++ MUnrec :: l2) acc = collect_member_attrs fty (l1 ++ l2) acc.
  Proof.
    induction l1 as [|i l1 IH]; intros l2 acc; [reflexivity|]. cbn [app collect_member_attrs]. destruct i; try apply IH.
    destruct fty; [apply IH | reflexivity].
  Qed.

  Definition is_member_error_instr (i : mb_instr) : bool :=
    match i with MMisplaced _ _ | MMisnamed _ _ _ | MUnrecErr _ => true | _ => false end.

  Lemma member_collect_keeps_errs fty : forall instrs acc d e,
      collect_member_attrs fty instrs acc = Ok d -> In e (m_errs acc) -> In e (m_errs d).
  Proof.
    induction instrs as [|i rest IH]; intros acc d e H He; cbn [collect_member_attrs] in H; [injection H as <-; exact He|].
    destruct i; try (eapply IH; [exact H | cbn [m_errs]; try apply in_or_app; try (left; exact He); exact He]).
    destruct fty; [|discriminate H]. eapply IH; [exact H | exact He].
  Qed.

  Lemma member_collect_records_errs fty : forall instrs acc d e,
      collect_member_attrs fty instrs acc = Ok d -> In e instrs -> is_member_error_instr e = true -> In e (m_errs d).
  Proof.
    induction instrs as [|i rest IH]; intros acc d e H Hin He; [destruct Hin|]. cbn [collect_member_attrs] in H. destruct Hin as [->|Hin].
    - destruct e; try discriminate He; (eapply member_collect_keeps_errs; [exact H | cbn [m_errs]; apply in_or_app; right; left; reflexivity]).
    - destruct i; try (eapply IH; [exact H | exact Hin | exact He]).
      destruct fty; [|discriminate H]. eapply IH; [exact H | exact Hin | exact He].
  Qed.

  Lemma member_not_doc_o2o n : In n barked_member_level_names -> String.eqb n "doc" = false /\ String.eqb n "o2o" = false.
  Proof.
    intro Hin. destruct barked_member_names_table as [_ [_ [H3 _]]]. apply andb_prop in H3. destruct H3 as [Hd Ho].
    apply negb_true_iff in Hd, Ho. split; destruct (String.eqb n _) eqn:E; try reflexivity; apply String.eqb_eq in E; subst n;
      unfold str_in in *; [rewrite <- Hd | rewrite <- Ho]; symmetry; apply existsb_exists; eexists; (split; [exact Hin | apply String.eqb_refl]).
  Qed.

  (* bark on (no allow_unknown on the type): recorded, hence reported *)
  Theorem foreign_member_level_attribute_recorded : forall fty pre a post n m,
      get_member_attrs be fty (pre ++ a :: post) true = Ok m ->
      ra_path a = Some n -> In n barked_member_level_names ->
      exists e, In e (m_errs m) /\ (e = MMisplaced n false \/ exists g, e = MMisnamed n g false).
  Proof.
    intros fty pre a post n m H Hp Hin. unfold get_member_attrs in H. rewrite mb_instrs_app in H.
    destruct (mb_instrs be pre true) as [ipre| | |]; cbn [bind] in H; try discriminate H.
    cbn [mb_instrs] in H. rewrite Hp in H. destruct (member_not_doc_o2o n Hin) as [Ed Eo]. rewrite Ed, Eo in H.
    destruct (bare_attr_tokens be a) as [toks| | |]; cbn [bind] in H; try discriminate H.
    rewrite (barked_member_parse n toks true Hin) in H.
    destruct barked_member_names_table as [H1 _]. rewrite forallb_forall in H1. specialize (H1 n Hin).
    destruct (barked_member_class n) as [c|]; [|discriminate H1]. destruct c; try discriminate H1; cbn [bind] in H;
      (destruct (mb_instrs be post true) as [more| | |]; cbn [bind] in H; try discriminate H).
    - exists (MMisnamed n guess false). split; [|right; exists guess; reflexivity].
      eapply member_collect_records_errs; [exact H | apply in_or_app; right; left; reflexivity | reflexivity].
    - exists (MMisplaced n false). split; [|left; reflexivity].
      eapply member_collect_records_errs; [exact H | apply in_or_app; right; left; reflexivity | reflexivity].
  Qed.

  (* bark off (the type carries allow_unknown): such an attribute on a member changes nothing *)
  Theorem foreign_member_level_attribute_ignored : forall fty pre a post n toks,
      ra_path a = Some n -> In n barked_member_level_names -> bare_attr_tokens be a = Ok toks ->
      get_member_attrs be fty (pre ++ a :: post) false = get_member_attrs be fty (pre ++ post) false.
  Proof.
    intros fty pre a post n toks Hp Hin Ht. unfold get_member_attrs. rewrite !mb_instrs_app.
    destruct (mb_instrs be pre false) as [ipre| | |]; cbn [bind]; try reflexivity.
    cbn [mb_instrs]. rewrite Hp. destruct (member_not_doc_o2o n Hin) as [Ed Eo]. rewrite Ed, Eo, Ht. cbn [bind].
    rewrite (barked_member_parse n toks false Hin). cbn [bind].
    destruct (mb_instrs be post false) as [more| | |]; cbn [bind]; try reflexivity.
    apply member_collect_skips_unrec.
  Qed.
End ForeignMember.

(* ---------------- end to end: the whole outcome of the derive ---------------- *)
From O2o.Model Require Import Expand Derive.

Definition with_attrs (x : raw_input) (l : list raw_attr) : raw_input :=
  {| ri_ident := ri_ident x; ri_generics := ri_generics x; ri_where := ri_where x; ri_attrs := l; ri_data := ri_data x |}.

(* with the switch in place, a foreign attribute on the type (named like a member-level instruction, after the list that holds
   allow_unknown) does not change the outcome of the derive in any way - same impls, same diagnostics, same everything *)
Theorem switch_whole_derive : forall be order order_tp x pre a post n ipre toks,
    ri_attrs x = pre ++ a :: post ->
    dt_instrs be pre true = Ok (ipre, false) ->
    ra_path a = Some n -> In n barked_type_level_names -> bare_attr_tokens be a = Ok toks -> raw_attr_has_none a = false ->
    derive_model be order order_tp x = derive_model be order order_tp (with_attrs x (pre ++ post)).
Proof.
  intros be order order_tp x pre a post n ipre toks Hx Hpre Hp Hin Ht Hn.
  assert (Hg := foreign_type_level_attribute_ignored_after_switch be pre a post n ipre toks Hpre Hp Hin Ht).
  unfold derive_model.
  assert (Hnone : raw_has_none x = raw_has_none (with_attrs x (pre ++ post))).
  { unfold raw_has_none, with_attrs. cbn [ri_attrs ri_data]. rewrite Hx. rewrite !existsb_app. cbn [existsb]. rewrite Hn. reflexivity. }
  rewrite <- Hnone. destruct (raw_has_none x); [reflexivity|].
  assert (Hparse : parse_input be x = parse_input be (with_attrs x (pre ++ post))).
  { unfold parse_input, with_attrs. cbn [ri_data]. destruct (ri_data x) as [sh fs|vs|]; [| |reflexivity].
    - unfold struct_from_syn. cbn [ri_attrs ri_ident ri_generics ri_where]. rewrite Hx, Hg. reflexivity.
    - unfold enum_from_syn. cbn [ri_attrs ri_ident ri_generics ri_where]. rewrite Hx, Hg. reflexivity. }
  unfold derive_res. rewrite Hparse. reflexivity.
Qed.

(* members: two raw fields / variants are interchangeable when they differ only in attributes that get_member_attrs (for the bark
   flag the type's attributes produce) does not see *)
Definition field_equiv (be : backend) (bark : bool) (f f' : raw_field) : Prop :=
  rf_member f = rf_member f' /\ rf_typath f = rf_typath f' /\ rf_ty f = rf_ty f' /\
  get_member_attrs be (Some (rf_ty f)) (rf_attrs f) bark = get_member_attrs be (Some (rf_ty f')) (rf_attrs f') bark.
Definition variant_equiv (be : backend) (bark : bool) (v v' : raw_variant) : Prop :=
  rv_ident v = rv_ident v' /\ rv_shape v = rv_shape v' /\ Forall2 (field_equiv be bark) (rv_fields v) (rv_fields v') /\
  get_member_attrs be None (rv_attrs v) bark = get_member_attrs be None (rv_attrs v') bark.

Lemma fields_from_syn_equiv be bark : forall fs fs' ctx i,
    Forall2 (field_equiv be bark) fs fs' -> fields_from_syn be bark ctx i fs = fields_from_syn be bark ctx i fs'.
Proof.
  induction fs as [|f fs IH]; intros fs' ctx i H; inversion H as [|? f' ? fs'' [Hm [Hp [Ht Hg]]] Hr]; subst; [reflexivity|].
  cbn [fields_from_syn]. rewrite Hg, Hm, Hp.
  destruct (get_member_attrs be (Some (rf_ty f')) (rf_attrs f') bark) as [attrs| | |]; cbn [bind]; try reflexivity.
  destruct (thread_repeat _ _ ctx attrs) as [[ctx' attrs']| | |]; cbn [bind]; try reflexivity.
  rewrite (IH fs'' ctx' (S i) Hr). reflexivity.
Qed.

Lemma variants_from_syn_equiv be bark : forall vs vs' vctx fctx,
    Forall2 (variant_equiv be bark) vs vs' -> variants_from_syn be bark vctx fctx vs = variants_from_syn be bark vctx fctx vs'.
Proof.
  induction vs as [|v vs IH]; intros vs' vctx fctx H; inversion H as [|? v' ? vs'' [Hi [Hs [Hf Hg]]] Hr]; subst; [reflexivity|].
  cbn [variants_from_syn]. rewrite (fields_from_syn_equiv be bark _ _ fctx 0 Hf), Hg, Hi, Hs.
  destruct (fields_from_syn be bark fctx 0 (rv_fields v')) as [[fields fctx1]| | |]; cbn [bind]; try reflexivity.
  destruct (get_member_attrs be None (rv_attrs v') bark) as [attrs| | |]; cbn [bind]; try reflexivity.
  destruct (thread_repeat _ _ vctx attrs) as [[vctx' attrs']| | |]; cbn [bind]; try reflexivity.
  rewrite (IH vs'' vctx' _ Hr). reflexivity.
Qed.

Definition data_equiv (be : backend) (bark : bool) (d d' : raw_data) : Prop :=
  match d, d' with
  | RStruct sh fs, RStruct sh' fs' => sh = sh' /\ Forall2 (field_equiv be bark) fs fs'
  | REnum vs, REnum vs' => Forall2 (variant_equiv be bark) vs vs'
  | RUnion, RUnion => True
  | _, _ => False
  end.
Definition with_data (x : raw_input) (d : raw_data) : raw_input :=
  {| ri_ident := ri_ident x; ri_generics := ri_generics x; ri_where := ri_where x; ri_attrs := ri_attrs x; ri_data := d |}.

Lemma field_equiv_refl be bark : forall l, Forall2 (field_equiv be bark) l l.
Proof. induction l; constructor; [repeat split|assumption]. Qed.

(* members may be exchanged for equivalent ones without changing the outcome of the derive *)
Theorem equivalent_members_whole_derive : forall be order order_tp x d' attrs bark,
    get_data_type_attrs be (ri_attrs x) = Ok (attrs, bark) ->
    data_equiv be bark (ri_data x) d' ->
    raw_has_none x = false -> raw_has_none (with_data x d') = false ->
    derive_model be order order_tp x = derive_model be order order_tp (with_data x d').
Proof.
  intros be order order_tp x d' attrs bark Hg He Hn Hn'. unfold derive_model. rewrite Hn, Hn'.
  assert (Hparse : parse_input be x = parse_input be (with_data x d')).
  { unfold parse_input, with_data. cbn [ri_data]. destruct (ri_data x) as [sh fs|vs|]; destruct d' as [sh' fs'|vs'|]; try contradiction He; [| |reflexivity].
    - destruct He as [<- Hf]. unfold struct_from_syn. cbn [ri_attrs ri_ident ri_generics ri_where]. rewrite Hg. cbn [bind].
      rewrite (fields_from_syn_equiv be bark _ _ None 0 Hf). reflexivity.
    - unfold enum_from_syn. cbn [ri_attrs ri_ident ri_generics ri_where]. rewrite Hg. cbn [bind].
      rewrite (variants_from_syn_equiv be bark _ _ None None He). reflexivity. }
  unfold derive_res. rewrite Hparse. reflexivity.
Qed.

(* with the switch on the type (bark off), members may carry any attributes get_member_attrs does not see - in particular the
   foreign ones of foreign_member_level_attribute_ignored - without changing the outcome of the derive *)
Theorem switch_whole_derive_members : forall be order order_tp x d' attrs,
    get_data_type_attrs be (ri_attrs x) = Ok (attrs, false) ->
    data_equiv be false (ri_data x) d' ->
    raw_has_none x = false -> raw_has_none (with_data x d') = false ->
    derive_model be order order_tp x = derive_model be order order_tp (with_data x d').
Proof. intros be order order_tp x d' attrs. apply equivalent_members_whole_derive. Qed.

(* the instance the property speaks about: one foreign attribute on one field of a struct *)
Corollary switch_foreign_attribute_on_a_field : forall be order order_tp x sh fs1 f fs2 pre a post n toks attrs,
    ri_data x = RStruct sh (fs1 ++ f :: fs2) -> rf_attrs f = pre ++ a :: post ->
    get_data_type_attrs be (ri_attrs x) = Ok (attrs, false) ->
    ra_path a = Some n -> In n barked_member_level_names -> bare_attr_tokens be a = Ok toks ->
    raw_has_none x = false ->
    let f' := {| rf_member := rf_member f; rf_typath := rf_typath f; rf_ty := rf_ty f; rf_attrs := pre ++ post |} in
    raw_has_none (with_data x (RStruct sh (fs1 ++ f' :: fs2))) = false ->
    derive_model be order order_tp x = derive_model be order order_tp (with_data x (RStruct sh (fs1 ++ f' :: fs2))).
Proof.
  intros be order order_tp x sh fs1 f fs2 pre a post n toks attrs Hd Hf Hg Hp Hin Ht Hn f' Hn'.
  apply (switch_whole_derive_members be order order_tp x _ attrs Hg); [|exact Hn|exact Hn'].
  rewrite Hd. cbn [data_equiv]. split; [reflexivity|].
  apply Forall2_app; [apply field_equiv_refl|]. constructor; [|apply field_equiv_refl].
  unfold field_equiv, f'. cbn [rf_member rf_typath rf_ty rf_attrs]. repeat split. rewrite Hf.
  exact (foreign_member_level_attribute_ignored be (Some (rf_ty f)) pre a post n toks Hp Hin Ht).
Qed.

(* non-vacuity: `#[o2o(allow_unknown)] #[map(A)] #[parent] struct S { #[where_clause(T: Clone)] a: i32 }` meets the hypotheses
   of the switch theorems and expands to impls *)
Definition ex_pre : list raw_attr :=
  [ {| ra_path := Some "o2o"; ra_toks := [TGroup DParen [TIdent "allow_unknown"]] |};
    {| ra_path := Some "map"; ra_toks := [TGroup DParen [TIdent "A"]] |} ].
Definition ex_a : raw_attr := {| ra_path := Some "parent"; ra_toks := [] |}.
Definition ex_fa : raw_attr := {| ra_path := Some "where_clause"; ra_toks := [TGroup DParen [TIdent "T"; P1 ":"; TIdent "Clone"]] |}.
Definition ex_input : raw_input :=
  {| ri_ident := "S"; ri_generics := []; ri_where := []; ri_attrs := ex_pre ++ [ex_a];
     ri_data := RStruct ShNamed [ {| rf_member := MNamed "a"; rf_typath := Some [TIdent "i32"]; rf_ty := [TIdent "i32"]; rf_attrs := [ex_fa] |} ] |}.

Example switch_example :
  (exists ipre, dt_instrs S1 ex_pre true = Ok (ipre, false)) /\
  In "parent" barked_type_level_names /\ bare_attr_tokens S1 ex_a = Ok [] /\ raw_attr_has_none ex_a = false /\
  In "where_clause" barked_member_level_names /\ (exists toks, bare_attr_tokens S1 ex_fa = Ok toks) /\
  (exists attrs, get_data_type_attrs S1 (ri_attrs ex_input) = Ok (attrs, false)) /\
  (exists ts, derive1 ex_input = OOk ts /\ ts <> []).
Proof.
  repeat split.
  - eexists. vm_compute. reflexivity.
  - vm_compute. tauto.
  - vm_compute. tauto.
  - eexists. vm_compute. reflexivity.
  - eexists. vm_compute. reflexivity.
  - eexists. split; [vm_compute; reflexivity | discriminate].
Qed.
