(* C17: the assignment-style bodies consist of statements.  When a bare #[parent] forces `let mut obj = Default::default(); ..; obj`
   (c_post_init), every line of an own field and every #[ghosts] entry is `obj.<place> = <value>;`; in an into_existing body every such
   line is `other.<place> = <value>;` - never a literal fragment `name: value,` (the repaired findings F-17d and F-17e). *)
From Coq Require Import List String Ascii Bool Arith.
From O2o.Model Require Import Tok Syn Attr Ast Lookup Validate Expand.
Import ListNotations.
Open Scope string_scope.
Open Scope list_scope.

Definition statement_on (target : string) (ts : list tok) : Prop :=
  ts = [] \/ ((exists rest, ts = TIdent target :: dot :: rest) /\ last ts comma = semi).

Lemma last_app_cons {A} (l : list A) x r d : last (l ++ x :: r) d = last (x :: r) d.
Proof.
  induction l as [|y l IH]; [reflexivity|]. cbn [app]. rewrite <- IH. destruct (l ++ x :: r) eqn:E; [destruct l; discriminate E | reflexivity].
Qed.

Ltac is_stmt :=
  right; split;
  [eexists; cbn [app]; reflexivity
  | first [ solve [repeat rewrite app_assoc; rewrite last_app_cons; reflexivity]
          | solve [cbn [app]; repeat (rewrite app_comm_cons || rewrite app_assoc); apply last_last] ]].

Definition ok_statement (target : string) (r : res (list tok)) : Prop :=
  match r with Ok ts => statement_on target ts | _ => True end.

Ltac finish_stmt :=
  repeat match goal with
         | |- ok_statement _ (bind ?r _) => destruct r as [?| | |]; cbn [bind]; try exact Logic.I
         | |- ok_statement _ (if ?b then _ else _) => destruct b
         end;
  try exact Logic.I; cbn [ok_statement]; unfold statement_on; first [left; reflexivity | is_stmt].

Lemma post_init_line f c hint idx :
  is_intoish (c_kind c) = true -> c_post_init c = true -> fv_has_parent f = false ->
  ok_statement "obj" (render_struct_line f c hint idx None).
Proof.
  intros Hk Hp Hpar. unfold render_struct_line. rewrite Hp, Hpar.
  destruct (fv_member f) as [n|i]; destruct (fv_attr f) as [a|]; destruct hint; destruct (c_kind c); cbn [is_intoish] in Hk; try discriminate Hk;
    cbn [is_from is_intoish is_into_existing andb negb orb hint_su hint_tu hint_eqb]; finish_stmt.
Qed.

Theorem lines_are_statements_post_init : forall f c hint idx ts,
    is_intoish (c_kind c) = true -> c_post_init c = true -> fv_has_parent f = false ->
    render_struct_line f c hint idx None = Ok ts -> statement_on "obj" ts.
Proof. intros f c hint idx ts Hk Hp Hpar H. pose proof (post_init_line f c hint idx Hk Hp Hpar) as G. rewrite H in G. exact G. Qed.

Lemma existing_line f c hint idx :
  is_into_existing (c_kind c) = true -> fv_has_parent f = false ->
  ok_statement "other" (render_struct_line f c hint idx None).
Proof.
  intros Hk Hpar. unfold render_struct_line. rewrite Hpar.
  destruct (fv_member f) as [n|i]; destruct (fv_attr f) as [a|]; destruct hint; destruct (c_kind c); cbn [is_into_existing] in Hk; try discriminate Hk;
    cbn [is_from is_intoish is_into_existing andb negb orb hint_su hint_tu hint_eqb]; finish_stmt.
Qed.

Theorem lines_are_statements_existing : forall f c hint idx ts,
    is_into_existing (c_kind c) = true -> fv_has_parent f = false ->
    render_struct_line f c hint idx None = Ok ts -> statement_on "other" ts.
Proof. intros f c hint idx ts Hk Hpar H. pose proof (existing_line f c hint idx Hk Hpar) as G. rewrite H in G. exact G. Qed.

Theorem ghost_lines_are_statements : forall g c ts,
    render_ghost_line g c = Ok ts ->
    (is_intoish (c_kind c) = true -> c_post_init c = true -> statement_on "obj" ts) /\
    (is_into_existing (c_kind c) = true -> statement_on "other" ts).
Proof.
  intros g c ts H. unfold render_ghost_line in H. cbv zeta in H. destruct (gd_ident g) as [m|d]; [|discriminate H]. split.
  - intros Hk Hp. rewrite Hk, Hp in H. injection H as <-. is_stmt.
  - intros Hk. assert (X : is_intoish (c_kind c) = false) by (destruct (c_kind c); cbn in Hk |- *; congruence).
    rewrite X, Hk in H. injection H as <-. is_stmt.
Qed.
