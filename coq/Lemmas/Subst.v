(* C10: @ / ~ substitution acts on the flattened token sequence, at every depth, and passes every
   other token through unchanged and in order. *)
From Coq Require Import List String Ascii Bool Arith.
From O2o.Model Require Import Tok Syn Attr Ast Lookup Expand.
Import ListNotations.
Open Scope list_scope.

(* flattened token sequence: leaves, and open/close markers for the visible delimiters
   (None-delimited groups are transparent, as they are for `quote!(#inner)`) *)
Inductive ftok := FLeaf (t : tok) | FOpen (d : delim) | FClose (d : delim).

Fixpoint flatten_tok (t : tok) : list ftok :=
  match t with
  | TGroup d inner =>
      let body := (fix go (l : list tok) : list ftok :=
                     match l with [] => [] | x :: r => flatten_tok x ++ go r end) inner in
      match d with DNone => body | _ => FOpen d :: body ++ [FClose d] end
  | _ => [FLeaf t]
  end.
Definition flatten (ts : list tok) : list ftok := flat_map flatten_tok ts.

Lemma flatten_tok_group : forall d inner,
    flatten_tok (TGroup d inner) =
    match d with DNone => flatten inner | _ => FOpen d :: flatten inner ++ [FClose d] end.
Proof.
  intros d inner. cbn [flatten_tok].
  assert (H : (fix go (l : list tok) : list ftok :=
                 match l with [] => [] | x :: r => flatten_tok x ++ go r end) inner = flatten inner).
  { induction inner as [|x r IH]; [reflexivity|]. cbn [flatten flat_map]. rewrite IH. reflexivity. }
  rewrite H. reflexivity.
Qed.

Definition is_tilde (k : ftok) : bool :=
  match k with FLeaf (TPunct c _) => Ascii.eqb c "~" | _ => false end.
Definition is_at (k : ftok) : bool :=
  match k with FLeaf (TPunct c _) => Ascii.eqb c "@" | _ => false end.

Section Subst.
  Variables at_ tilde : list tok.

  Definition subst_leaf (k : ftok) : list ftok :=
    if is_tilde k then flatten tilde else if is_at k then flatten at_ else [k].

  Lemma subst_tok_group : forall d inner,
      subst_tok at_ tilde (TGroup d inner) =
      match d with DNone => subst at_ tilde inner | _ => [TGroup d (subst at_ tilde inner)] end.
  Proof.
    intros d inner. cbn [subst_tok].
    assert (H : (fix go (l : list tok) : list tok :=
                   match l with [] => [] | x :: r => subst_tok at_ tilde x ++ go r end) inner
                = subst at_ tilde inner).
    { induction inner as [|x r IH]; [reflexivity|]. unfold subst. cbn [flat_map]. unfold subst in IH. rewrite IH. reflexivity. }
    rewrite H. reflexivity.
  Qed.

  Lemma flatten_app : forall a b, flatten (a ++ b) = flatten a ++ flatten b.
  Proof. intros. unfold flatten. apply flat_map_app. Qed.

  Lemma flat_map_subst_app : forall a b, flat_map subst_leaf (a ++ b) = flat_map subst_leaf a ++ flat_map subst_leaf b.
  Proof. intros. apply flat_map_app. Qed.

  Lemma subst_flatten_tok : forall t, flatten (subst_tok at_ tilde t) = flat_map subst_leaf (flatten_tok t).
  Proof.
    apply (tok_ind2 (fun t => flatten (subst_tok at_ tilde t) = flat_map subst_leaf (flatten_tok t))
                    (fun ts => flatten (subst at_ tilde ts) = flat_map subst_leaf (flatten ts))).
    - intro s. cbn. reflexivity.
    - intros c j. cbn [subst_tok flatten_tok flat_map]. unfold subst_leaf. cbn [is_tilde is_at].
      destruct (Ascii.eqb c "~"); [rewrite app_nil_r; reflexivity|].
      destruct (Ascii.eqb c "@"); [rewrite app_nil_r; reflexivity|]. cbn. reflexivity.
    - intro s. cbn. reflexivity.
    - intros d ts IH. rewrite subst_tok_group, flatten_tok_group.
      destruct d; try exact IH;
        cbn [flatten flat_map]; rewrite flatten_tok_group, app_nil_r;
        cbn [flat_map]; rewrite flat_map_subst_app; cbn [flat_map];
        unfold flatten in IH; unfold flatten; rewrite IH; cbn [subst_leaf is_tilde is_at app]; reflexivity.
    - reflexivity.
    - intros t ts Ht Hts. unfold subst. cbn [flat_map]. rewrite flatten_app.
      unfold subst in Hts. rewrite Ht, Hts. cbn [flatten flat_map]. rewrite flat_map_subst_app. reflexivity.
  Qed.

  Theorem subst_flatten : forall ts, flatten (subst at_ tilde ts) = flat_map subst_leaf (flatten ts).
  Proof.
    induction ts as [|t ts IH]; [reflexivity|].
    unfold subst. cbn [flat_map]. rewrite flatten_app, subst_flatten_tok. unfold subst in IH. rewrite IH.
    cbn [flatten flat_map]. rewrite flat_map_subst_app. reflexivity.
  Qed.

  (* tokens other than the two markers are untouched *)
  Corollary subst_no_markers : forall ts,
      forallb (fun k => negb (is_tilde k) && negb (is_at k)) (flatten ts) = true ->
      flatten (subst at_ tilde ts) = flatten ts.
  Proof.
    intros ts H. rewrite subst_flatten. induction (flatten ts) as [|k l IH]; [reflexivity|].
    cbn [forallb] in H. apply andb_prop in H. destruct H as [Hk Hl]. apply andb_prop in Hk. destruct Hk as [H1 H2].
    cbn [flat_map]. unfold subst_leaf at 1. apply negb_true_iff in H1, H2. rewrite H1, H2. cbn. f_equal. apply IH, Hl.
  Qed.
End Subst.

(* literals and lifetimes are never markers: a string/char literal containing '@' or '~' is a TLit *)
Lemma lit_not_marker : forall s, is_tilde (FLeaf (TLit s)) = false /\ is_at (FLeaf (TLit s)) = false.
Proof. intros; split; reflexivity. Qed.

(* what @ and ~ stand for per impl type (quote_action) *)
Lemma quote_action_flatten : forall action post c,
    flatten (quote_action action post c) =
    flat_map (subst_leaf (src_ident c)
                (match c_impl_type c with
                 | ITStruct => src_ident c ++ [dot] ++ match post with Some p => p | None => [] end
                 | ITEnum => c_dst c ++ colon2 ++ match post with Some p => p | None => [] end
                 | ITVariant => match post with Some p => p | None => [] end
                 end)) (flatten action).
Proof. intros. unfold quote_action. apply subst_flatten. Qed.

Example subst_example :
  flatten (subst [TIdent "value"] [TIdent "value"; dot; TIdent "x"]
             [TIdent "f"; paren [TPunct "~" true; dot; TIdent "c"; paren []; comma; bracket [TPunct "@" false; TLit """~@"""]]])
  = [FLeaf (TIdent "f"); FOpen DParen; FLeaf (TIdent "value"); FLeaf dot; FLeaf (TIdent "x"); FLeaf dot; FLeaf (TIdent "c");
     FOpen DParen; FClose DParen; FLeaf comma; FOpen DBracket; FLeaf (TIdent "value"); FLeaf (TLit """~@"""); FClose DBracket; FClose DParen].
Proof. vm_compute. reflexivity. Qed.

(* C10_sites: every position that accepts a user expression renders it through quote_action, with
   `@` = the source object and `~` = the path stated here *)
Definition sites_statement : Prop :=
  (* vars(...) *)
  (forall c l, tc_init (c_core c) = Some l ->
     struct_pre_init c = Some (flat_map (fun x => [TIdent "let"; TIdent (id_ident x); P1 "="] ++ quote_action (id_action x) None c ++ [semi]) l)) /\
  (* return *)
  (forall qr c, quick_return_block qr c =
     if is_into_existing (c_kind c) then [P1 "*"; TIdent "other"; P1 "="] ++ quote_action qr None c ++ [semi]
     else quote_action qr None c) /\
  (* member instruction expression on the Into side: `~` = the path handed in by the rendering arm *)
  (forall mc act fp c o, mc_action mc = Some act -> get_action_or (AField mc) fp c o = Ok (quote_action act fp c)) /\
  (* member instruction on the From side: with a member name `~` = <value.>(child path.)name, without one = the field's own path *)
  (forall mc m act obj fpath c o, mc_member mc = Some m -> mc_action mc = Some act -> is_variant c = false ->
     get_stuff (AField mc) obj fpath c o = Ok (quote_action act (Some (fpath m)) c)) /\
  (forall mc act obj fpath c o, mc_member mc = None -> mc_action mc = Some act ->
     get_stuff (AField mc) obj fpath c o = Ok (quote_action act (Some (fpath o)) c)) /\
  (* #[ghost({expr})]: no `~` path *)
  (forall g act obj fpath c o, fg_action g = Some act -> get_stuff (AGhost g) obj fpath c o = Ok (quote_action act None c)) /\
  (* #[ghosts(name: {expr})] on the Into side *)
  (forall g i c, gd_ident g = GMember (MNamed i) -> is_intoish (c_kind c) = true -> c_post_init c = false ->
     render_ghost_line g c = Ok ([TIdent i; P1 ":"] ++ quote_action (gd_action g) None c ++ [comma])) /\
  (* ... and in the assignment-style body a bare #[parent] forces: `obj.<path>.<member> = value;` *)
  (forall g m c, gd_ident g = GMember m -> is_intoish (c_kind c) = true -> c_post_init c = true ->
     render_ghost_line g c = Ok ([TIdent "obj"; dot] ++ (match gd_path g with Some p => print_member_path p ++ [dot] | None => [] end) ++
                                 [member_tok m; P1 "="] ++ quote_action (gd_action g) None c ++ [semi])) /\
  (* nested [instr(expr)] inside #[parent(..)] *)
  (forall p k at_ act fp c o, get_for_kind p k = Some at_ -> pf_action at_ = Some act ->
     get_action_or (AParentChild p k) fp c o = Ok (quote_action act fp c)).

Lemma sites_proof : sites_statement.
Proof.
  repeat split.
  - intros c l H. unfold struct_pre_init. rewrite H. reflexivity.
  - intros mc act fp c o H. cbn [get_action_or]. rewrite H. reflexivity.
  - intros mc m act obj fpath c o Hm Ha Hv. cbn [get_stuff]. rewrite Hm, Ha. destruct m; [reflexivity|]. rewrite Hv. reflexivity.
  - intros mc act obj fpath c o Hm Ha. cbn [get_stuff]. rewrite Hm, Ha. reflexivity.
  - intros g act obj fpath c o H. cbn [get_stuff]. rewrite H. reflexivity.
  - intros g i c Hi Hk Hp. unfold render_ghost_line. rewrite Hi, Hk, Hp. reflexivity.
  - intros g m c Hi Hk Hp. unfold render_ghost_line. rewrite Hi, Hk, Hp. reflexivity.
  - intros p k at_ act fp c o Hg Ha. cbn [get_action_or]. rewrite Hg, Ha. reflexivity.
Qed.
