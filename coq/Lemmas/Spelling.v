(* C13: `#[instr(args)]` and `#[o2o(instr(args))]` yield the same instruction list. *)
From Coq Require Import List String Ascii Bool Arith.
From O2o.Model Require Import Tok Syn Attr Ast.
From O2o.Gen Require Import Tables Macros.
Import ListNotations.
Open Scope string_scope.
Open Scope list_scope.

Definition dt_class_eqb (a b : dt_class) : bool :=
  match a, b with
  | DcAllowUnknown, DcAllowUnknown | DcGhosts, DcGhosts | DcChildParents, DcChildParents | DcWhere, DcWhere
  | DcMisplaced, DcMisplaced | DcUnrecErr, DcUnrecErr | DcUnrec, DcUnrec => true
  | DcMap x, DcMap y => Bool.eqb x y
  | DcMisnamed x, DcMisnamed y => String.eqb x y
  | _, _ => false
  end.
Definition mb_class_eqb (a b : mb_class) : bool :=
  match a, b with
  | McGhost, McGhost | McGhosts, McGhosts | McChild, McChild | McParent, McParent | McAs, McAs | McLit, McLit | McPat, McPat
  | McRepeat, McRepeat | McSkip, McSkip | McStop, McStop | McTypeHint, McTypeHint | McMisplaced, McMisplaced
  | McUnrecErr, McUnrecErr | McUnrec, McUnrec => true
  | McMap x, McMap y => Bool.eqb x y
  | McMisnamed x, McMisnamed y => String.eqb x y
  | _, _ => false
  end.

Definition slots_eqb (a b : list string) : bool :=
  Nat.eqb (List.length a) (List.length b) && forallb (fun p => String.eqb (fst p) (snd p)) (combine a b).

Definition combos : list (bool * bool) := [(false, false); (false, true); (true, false); (true, true)].

Definition good_dt (c : dt_class) : bool := match c with DcMap _ | DcGhosts | DcChildParents | DcWhere => true | _ => false end.
Definition good_mb (c : mb_class) : bool :=
  match c with
  | McMap _ | McGhost | McGhosts | McChild | McParent | McAs | McLit | McPat | McRepeat | McSkip | McStop | McTypeHint => true
  | _ => false
  end.

(* names whose classification does not depend on how the instruction is spelled (own / bark):
   the instructions that exist at the level they are written on *)
Definition dt_stable (n : string) : bool :=
  forallb (fun ob => match find_arm dt_arms n (fst ob) (snd ob), find_arm dt_arms n false true with
                     | Some (c, s), Some (c', s') => dt_class_eqb c c' && slots_eqb s s' && good_dt c
                     | _, _ => false end) combos.
Definition mb_stable (n : string) : bool :=
  forallb (fun ob => match find_arm mb_arms n (fst ob) (snd ob), find_arm mb_arms n false true with
                     | Some (c, s), Some (c', s') => mb_class_eqb c c' && slots_eqb s s' && good_mb c
                     | _, _ => false end) combos.

(* every instruction that has a bare form (the derive's `attributes(...)` list, regenerated) is stable
   at the level where it exists *)
Definition type_level_names : list string :=
  flat_map (fun a => match a with (names, GNone, (DcMap _ | DcGhosts | DcChildParents | DcWhere), _) => names | _ => [] end) dt_arms.
Definition member_level_names : list string :=
  flat_map (fun a => match a with
                     | (names, GNone, (McMap _ | McGhost | McGhosts | McChild | McParent | McAs | McLit | McPat | McRepeat | McSkip | McStop | McTypeHint), _) => names
                     | _ => [] end) mb_arms.

Lemma level_names_stable :
  forallb dt_stable type_level_names = true /\ forallb mb_stable member_level_names = true /\
  (* and every bare form is an instruction of one of the two levels (or the o2o list itself / the misnamed `children`) *)
  forallb (fun n => str_in n type_level_names || str_in n member_level_names || str_in n ["o2o"; "children"]) bare_attributes = true.
Proof. vm_compute. auto. Qed.

Lemma dt_class_eqb_eq : forall a b, dt_class_eqb a b = true -> a = b.
Proof.
  intros a b; destruct a, b; cbn; intro H; try discriminate; try reflexivity.
  - apply Bool.eqb_prop in H. subst. reflexivity.
  - apply String.eqb_eq in H. subst. reflexivity.
Qed.
Lemma mb_class_eqb_eq : forall a b, mb_class_eqb a b = true -> a = b.
Proof.
  intros a b; destruct a, b; cbn; intro H; try discriminate; try reflexivity.
  - apply Bool.eqb_prop in H. subst. reflexivity.
  - apply String.eqb_eq in H. subst. reflexivity.
Qed.
Lemma slots_eqb_eq : forall a b, slots_eqb a b = true -> a = b.
Proof.
  induction a as [|x a IH]; destruct b as [|y b]; unfold slots_eqb; cbn [List.length Nat.eqb combine forallb fst snd andb]; intro H;
    try discriminate; try reflexivity.
  apply andb_prop in H. destruct H as [Hl H]. apply andb_prop in H. destruct H as [Hxy H].
  apply String.eqb_eq in Hxy. subst. f_equal. apply IH. unfold slots_eqb. rewrite Hl, H. reflexivity.
Qed.

Lemma combos_all : forall own bark, In (own, bark) combos.
Proof. intros [] []; cbn; auto. Qed.

(* classification is independent of the spelling for stable names *)
Lemma dt_stable_find : forall n own bark own' bark', dt_stable n = true -> find_arm dt_arms n own bark = find_arm dt_arms n own' bark'.
Proof.
  intros n own bark own' bark' H. unfold dt_stable in H. rewrite forallb_forall in H.
  assert (A := H (own, bark) (combos_all own bark)). assert (B := H (own', bark') (combos_all own' bark')). cbn [fst snd] in A, B.
  destruct (find_arm dt_arms n false true) as [[c0 s0]|]; [|destruct (find_arm dt_arms n own bark) as [[? ?]|]; discriminate].
  destruct (find_arm dt_arms n own bark) as [[c s]|]; [|discriminate]. destruct (find_arm dt_arms n own' bark') as [[c' s']|]; [|discriminate].
  repeat (apply andb_prop in A; destruct A as [A ?]). repeat (apply andb_prop in B; destruct B as [B ?]).
  apply dt_class_eqb_eq in A, B. subst. f_equal. f_equal.
  match goal with H1 : slots_eqb s s0 = true, H2 : slots_eqb s' s0 = true |- _ => apply slots_eqb_eq in H1, H2; congruence end.
Qed.

Lemma dt_stable_good : forall n own bark c s, dt_stable n = true -> find_arm dt_arms n own bark = Some (c, s) -> good_dt c = true.
Proof.
  intros n own bark c s H E. unfold dt_stable in H. rewrite forallb_forall in H.
  assert (A := H (own, bark) (combos_all own bark)). cbn [fst snd] in A. rewrite E in A.
  destruct (find_arm dt_arms n false true) as [[c0 s0]|]; [|discriminate]. apply andb_prop in A. apply A.
Qed.

Theorem dt_instruction_spelling : forall be n ts own bark own' bark',
    dt_stable n = true ->
    parse_data_type_instruction be n ts own bark = parse_data_type_instruction be n ts own' bark'.
Proof.
  intros be n ts own bark own' bark' H. unfold parse_data_type_instruction.
  rewrite (dt_stable_find n own bark own' bark' H).
  destruct (find_arm dt_arms n own' bark') as [[c s]|] eqn:E; [|reflexivity].
  assert (G := dt_stable_good n own' bark' c s H E). destruct c; cbn in G; try discriminate G; reflexivity.
Qed.

Lemma dt_stable_not_allow_unknown : forall be n ts own bark i,
    dt_stable n = true -> parse_data_type_instruction be n ts own bark = Ok i -> is_allow_unknown i = false.
Proof.
  intros be n ts own bark i H E. unfold parse_data_type_instruction in E.
  destruct (find_arm dt_arms n own bark) as [[c s]|] eqn:F; [|discriminate].
  assert (G := dt_stable_good n own bark c s H F). destruct c; cbn in G; try discriminate G;
    repeat match type of E with bind ?r _ = _ => destruct r; cbn [bind] in E; try discriminate E end;
    injection E as <-; reflexivity.
Qed.

(* the same for member instructions *)
Lemma mb_stable_find : forall n own bark own' bark', mb_stable n = true -> find_arm mb_arms n own bark = find_arm mb_arms n own' bark'.
Proof.
  intros n own bark own' bark' H. unfold mb_stable in H. rewrite forallb_forall in H.
  assert (A := H (own, bark) (combos_all own bark)). assert (B := H (own', bark') (combos_all own' bark')). cbn [fst snd] in A, B.
  destruct (find_arm mb_arms n false true) as [[c0 s0]|]; [|destruct (find_arm mb_arms n own bark) as [[? ?]|]; discriminate].
  destruct (find_arm mb_arms n own bark) as [[c s]|]; [|discriminate]. destruct (find_arm mb_arms n own' bark') as [[c' s']|]; [|discriminate].
  repeat (apply andb_prop in A; destruct A as [A ?]). repeat (apply andb_prop in B; destruct B as [B ?]).
  apply mb_class_eqb_eq in A, B. subst. f_equal. f_equal.
  match goal with H1 : slots_eqb s s0 = true, H2 : slots_eqb s' s0 = true |- _ => apply slots_eqb_eq in H1, H2; congruence end.
Qed.

Lemma mb_stable_good : forall n own bark c s, mb_stable n = true -> find_arm mb_arms n own bark = Some (c, s) -> good_mb c = true.
Proof.
  intros n own bark c s H E. unfold mb_stable in H. rewrite forallb_forall in H.
  assert (A := H (own, bark) (combos_all own bark)). cbn [fst snd] in A. rewrite E in A.
  destruct (find_arm mb_arms n false true) as [[c0 s0]|]; [|discriminate]. apply andb_prop in A. apply A.
Qed.

Theorem mb_instruction_spelling : forall be n ts own bark own' bark',
    mb_stable n = true ->
    parse_member_instruction be n ts own bark = parse_member_instruction be n ts own' bark'.
Proof.
  intros be n ts own bark own' bark' H. unfold parse_member_instruction.
  rewrite (mb_stable_find n own bark own' bark' H).
  destruct (find_arm mb_arms n own' bark') as [[c s]|] eqn:E; [|reflexivity].
  assert (G := mb_stable_good n own' bark' c s H E). destruct c; cbn in G; try discriminate G; reflexivity.
Qed.

(* ---- attribute lists ---- *)
Definition bare_attr (n : string) (inner : list tok) : raw_attr := {| ra_path := Some n; ra_toks := [TGroup DParen inner] |}.
Definition o2o_attr (items : list tok) : raw_attr := {| ra_path := Some "o2o"; ra_toks := [TGroup DParen items] |}.

Definition ordinary (be : backend) (n : string) : Prop :=
  is_plain_ident be n = true /\ String.eqb n "doc" = false /\ String.eqb n "o2o" = false.

(* type level: #[n(inner)] and #[o2o(n(inner))] contribute the same instruction and leave `bark` alone *)
Theorem dt_o2o_single : forall be n inner rest bark,
    ordinary be n -> dt_stable n = true ->
    dt_instrs be (o2o_attr [TIdent n; TGroup DParen inner] :: rest) bark = dt_instrs be (bare_attr n inner :: rest) bark.
Proof.
  intros be n inner rest bark [Hid [Hdoc Ho2o]] Hs.
  unfold o2o_attr, bare_attr. cbn [dt_instrs ra_path ra_toks]. rewrite Hdoc, Ho2o. cbn [String.eqb Ascii.eqb Bool.eqb].
  unfold o2o_list_content. cbn [ra_toks bind fuel_of List.length parse_terminated is_empty].
  unfold o2o_item at 1. cbn [parse_ident]. rewrite Hid. cbn [bind optional_parenthesized].
  rewrite (dt_instruction_spelling be n inner true true false bark Hs).
  assert (Hb : bare_attr_tokens be {| ra_path := Some n; ra_toks := [TGroup DParen inner] |} = Ok inner).
  { unfold bare_attr_tokens. destruct be; cbn; reflexivity. }
  unfold bare_attr in *.
  rewrite Hb. cbn [bind].
  destruct (parse_data_type_instruction be n inner false bark) as [i| | |] eqn:E; cbn [bind is_empty]; try reflexivity.
  cbn [existsb]. rewrite (dt_stable_not_allow_unknown be n inner false bark i Hs E). cbn [orb app].
  destruct (dt_instrs be rest bark) as [[more b]| | |]; reflexivity.
Qed.

(* member level likewise *)
Theorem mb_o2o_single : forall be n inner rest bark,
    ordinary be n -> mb_stable n = true ->
    mb_instrs be (o2o_attr [TIdent n; TGroup DParen inner] :: rest) bark = mb_instrs be (bare_attr n inner :: rest) bark.
Proof.
  intros be n inner rest bark [Hid [Hdoc Ho2o]] Hs.
  unfold o2o_attr, bare_attr. cbn [mb_instrs ra_path ra_toks]. rewrite Hdoc, Ho2o. cbn [String.eqb Ascii.eqb Bool.eqb].
  unfold o2o_list_content. cbn [ra_toks bind fuel_of List.length parse_terminated is_empty].
  unfold o2o_item at 1. cbn [parse_ident]. rewrite Hid. cbn [bind optional_parenthesized].
  rewrite (mb_instruction_spelling be n inner true true false bark Hs).
  assert (Hb : bare_attr_tokens be {| ra_path := Some n; ra_toks := [TGroup DParen inner] |} = Ok inner).
  { unfold bare_attr_tokens. destruct be; cbn; reflexivity. }
  unfold bare_attr in *.
  rewrite Hb. cbn [bind].
  destruct (parse_member_instruction be n inner false bark) as [i| | |]; cbn [bind is_empty]; reflexivity.
Qed.

(* grouping: one #[o2o(a(..), b(..))] list = the two single-instruction lists, in order *)
Theorem dt_o2o_group : forall be n1 inner1 n2 inner2 rest bark,
    ordinary be n1 -> dt_stable n1 = true -> ordinary be n2 -> dt_stable n2 = true ->
    dt_instrs be (o2o_attr [TIdent n1; TGroup DParen inner1; comma; TIdent n2; TGroup DParen inner2] :: rest) bark
    = dt_instrs be (o2o_attr [TIdent n1; TGroup DParen inner1] :: o2o_attr [TIdent n2; TGroup DParen inner2] :: rest) bark.
Proof.
  intros be n1 inner1 n2 inner2 rest bark [Hid1 _] Hs1 [Hid2 _] Hs2.
  unfold o2o_attr, comma, P1. cbn [dt_instrs ra_path ra_toks String.eqb Ascii.eqb Bool.eqb].
  unfold o2o_list_content. cbn [ra_toks bind fuel_of List.length parse_terminated is_empty].
  unfold o2o_item. cbn [parse_ident]. rewrite Hid1. cbn [bind optional_parenthesized is_empty].
  destruct (parse_data_type_instruction be n1 inner1 true true) as [i1| | |] eqn:E1; cbn [bind]; try reflexivity.
  unfold parse_punct. cbn [Ascii.eqb Bool.eqb bind is_empty parse_ident]. rewrite Hid2. cbn [bind optional_parenthesized is_empty].
  destruct (parse_data_type_instruction be n2 inner2 true true) as [i2| | |] eqn:E2; cbn [bind existsb app is_empty]; try reflexivity.
  rewrite (dt_stable_not_allow_unknown be n1 inner1 true true i1 Hs1 E1), (dt_stable_not_allow_unknown be n2 inner2 true true i2 Hs2 E2).
  cbn [orb]. destruct (dt_instrs be rest bark) as [[more b]| | |]; reflexivity.
Qed.

Example stable_examples : dt_stable "map" = true /\ dt_stable "ghosts" = true /\ mb_stable "ghost" = true /\ dt_stable "ghost" = false /\ mb_stable "where_clause" = false.
Proof. vm_compute. auto. Qed.
