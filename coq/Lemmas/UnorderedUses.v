(* C19: every use of an unordered container in the source is lookup-only or is one of the three
   iterations the model threads through an explicit order parameter. *)
From Coq Require Import List String Bool.
From O2o.Model Require Import Syn.
From O2o.Gen Require Import Unordered.
Import ListNotations.
Open Scope string_scope.

Definition lookup_only : list string :=
  ["insert"; "contains"; "contains_key"; "get"; "get_mut"; "remove"; "len"; "is_empty"].

Definition use_ok (u : string * string * string * string * bool) : bool :=
  let '(file, fn, var, m, sorted) := u in
  str_in m lookup_only
  (* the message map of validate(): iterated once, sorted by key at once - modelled by `order` *)
  || (String.eqb m "iter" && sorted && String.eqb file "validate.rs" && String.eqb fn "validate" && String.eqb var "errors")
  (* the two HashSets of counterpart types walked by validate_fields: modelled by `order_tp` *)
  || (String.eqb m "iter" && String.eqb file "validate.rs" && String.eqb fn "validate_fields"
      && (String.eqb var "from_type_paths" || String.eqb var "into_type_paths")).

Lemma all_uses_ok : forallb use_ok unordered_uses = true.
Proof. vm_compute. reflexivity. Qed.

(* the scan really sees the containers the property is anchored in *)
Lemma anchors_seen :
  existsb (fun c => String.eqb (snd (fst c)) "errors") unordered_containers = true /\
  existsb (fun c => String.eqb (snd (fst c)) "group_paths") unordered_containers = true /\
  existsb (fun c => String.eqb (snd (fst c)) "trait_attrs_to_repeat") unordered_containers = true /\
  existsb (fun u => let '(_, _, _, m, s) := u in String.eqb m "iter" && s) unordered_uses = true.
Proof. vm_compute. auto. Qed.
