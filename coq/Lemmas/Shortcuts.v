(* C12 lifting lemmas: splitting an instruction into single-kind instructions (what writing out the
   basic instructions a shortcut abbreviates amounts to) changes neither the requested impl
   contexts nor any per-kind member lookup. *)
From Coq Require Import List String Ascii Bool Arith Permutation.
From O2o.Model Require Import Tok Syn Attr Ast Lookup Expand.
From O2o.Gen Require Import Tables Readme.
From O2o.Lemmas Require Import TablesFacts Contexts.
Import ListNotations.
Open Scope list_scope.

(* the applicability array with exactly the slot of k set *)
Definition singleton_appl (k : kind) : appl := map (fun i => Nat.eqb i (slot_of k)) (seq 0 6).

Lemma singleton_get : forall k k', appl_get (singleton_appl k) k' = kind_eqb k k'.
Proof. intros k k'; destruct k, k'; vm_compute; reflexivity. Qed.

(* parsing the basic instruction of (k, fallible) yields exactly that array *)
Lemma basic_is_singleton :
  forallb (fun kf => appl_eqb (appl_of_name (basic_name (fst kf) (snd kf))) (singleton_appl (fst kf))
                     && Bool.eqb (fallible_of_name (basic_name (fst kf) (snd kf))) (snd kf))
          (list_prod all_kinds [false; true]) = true.
Proof. vm_compute. reflexivity. Qed.

Lemma filter_singleton : forall k, filter (appl_get (singleton_appl k)) kinds_expand_order = [k].
Proof. intro k; destruct k; vm_compute; reflexivity. Qed.

Definition split_trait_attr (a : trait_attr) : list trait_attr :=
  map (fun k => {| ta_core := ta_core a; ta_fallible := ta_fallible a; ta_appl := singleton_appl k |})
      (filter (appl_get (ta_appl a)) kinds_expand_order).

Lemma requested_of_app : forall l1 l2, requested_of (l1 ++ l2) = requested_of l1 ++ requested_of l2.
Proof. intros. unfold requested_of. apply flat_map_app. Qed.

Lemma requested_split : forall a, requested_of (split_trait_attr a) = requested_of [a].
Proof.
  intro a. unfold split_trait_attr, requested_of. cbn [flat_map]. rewrite app_nil_r.
  induction (filter (appl_get (ta_appl a)) kinds_expand_order) as [|k l IH]; [reflexivity|].
  cbn [map flat_map ta_appl ta_fallible ta_core]. rewrite filter_singleton. cbn [map app]. f_equal. exact IH.
Qed.

Theorem split_requested : forall l1 a l2,
    Permutation (requested_of (l1 ++ split_trait_attr a ++ l2)) (requested_of (l1 ++ a :: l2)).
Proof.
  intros l1 a l2. rewrite !requested_of_app, requested_split.
  change (a :: l2) with ([a] ++ l2). rewrite requested_of_app. apply Permutation_refl.
Qed.

(* ---- member level ---- *)
Definition split_member_attr (a : member_attr) : list member_attr :=
  map (fun k => {| ma_core := ma_core a; ma_fallible := ma_fallible a; ma_instr := ma_instr a; ma_appl := singleton_appl k |})
      (filter (appl_get (ma_appl a)) kinds_expand_order).

Lemma kind_in_expand_order : forall k, In k kinds_expand_order.
Proof. intro k; destruct k; cbn; auto 10. Qed.

Lemma kind_eqb_eq : forall a b, kind_eqb a b = true <-> a = b.
Proof. intros a b; destruct a, b; cbn; split; intro H; try reflexivity; try discriminate. Qed.


Lemma find_app_some {A} (p : A -> bool) l1 l2 x : find p l1 = Some x -> find p (l1 ++ l2) = Some x.
Proof. induction l1 as [|y l1 IH]; cbn; [discriminate|]. destruct (p y); auto. Qed.
Lemma find_app_none {A} (p : A -> bool) l1 l2 : find p l1 = None -> find p (l1 ++ l2) = find p l2.
Proof. induction l1 as [|y l1 IH]; cbn; [reflexivity|]. destruct (p y); [discriminate|auto]. Qed.
Lemma find_ext {A} (p p' : A -> bool) l : (forall x, p x = p' x) -> find p l = find p' l.
Proof. intro H. induction l as [|y l IH]; cbn; [reflexivity|]. rewrite H, IH. reflexivity. Qed.

Section MemberFind.
  Variable q : member_core -> bool -> bool.     (* the part of the predicate that reads core and fallibility *)
  Variable k : kind.
  Definition P (x : member_attr) : bool := q (ma_core x) (ma_fallible x) && appl_get (ma_appl x) k.

  Lemma find_split_one : forall a (ks : list kind),
      option_map ma_core
        (find P (map (fun k' => {| ma_core := ma_core a; ma_fallible := ma_fallible a; ma_instr := ma_instr a;
                                   ma_appl := singleton_appl k' |}) ks))
      = if q (ma_core a) (ma_fallible a) && existsb (fun k' => kind_eqb k' k) ks then Some (ma_core a) else None.
  Proof.
    intros a ks. induction ks as [|k' ks IH]; cbn [map find existsb].
    - rewrite andb_false_r. reflexivity.
    - unfold P at 1. cbn [ma_core ma_fallible ma_appl]. rewrite singleton_get.
      destruct (q (ma_core a) (ma_fallible a)); cbn [andb].
      + destruct (kind_eqb k' k); cbn [orb]; [reflexivity|]. rewrite IH. reflexivity.
      + rewrite IH. reflexivity.
  Qed.

  Lemma exists_in_filter : forall (g : kind -> bool),
      existsb (fun k' => kind_eqb k' k) (filter g kinds_expand_order) = g k.
  Proof. intro g. unfold kinds_expand_order. destruct k; cbn [filter];
    destruct (g FromOwned) eqn:E1, (g FromRef) eqn:E2, (g OwnedInto) eqn:E3, (g RefInto) eqn:E4,
             (g OwnedIntoExisting) eqn:E5, (g RefIntoExisting) eqn:E6; reflexivity. Qed.

  Lemma find_split : forall l1 a l2,
      option_map ma_core (find P (l1 ++ split_member_attr a ++ l2)) = option_map ma_core (find P (l1 ++ a :: l2)).
  Proof.
    intros l1 a l2. induction l1 as [|x l1 IH]; cbn [app find].
    - assert (H := find_split_one a (filter (appl_get (ma_appl a)) kinds_expand_order)).
      rewrite exists_in_filter in H. fold (split_member_attr a) in H.
      unfold P at 2. destruct (q (ma_core a) (ma_fallible a) && appl_get (ma_appl a) k) eqn:E.
      + destruct (find P (split_member_attr a)) eqn:F; cbn [option_map] in H; [|discriminate].
        rewrite (find_app_some _ _ _ _ F). cbn [option_map]. exact H.
      + destruct (find P (split_member_attr a)) eqn:F; cbn [option_map] in H; [discriminate|].
        rewrite (find_app_none _ _ _ F). reflexivity.
    - destruct (P x); [reflexivity | exact IH].
  Qed.
End MemberFind.

Theorem split_member_lookup : forall l1 a l2 k fallible ty,
    option_map ma_core (find_for (fun x => mc_ty (ma_core x)) (ma_ok k fallible) (l1 ++ split_member_attr a ++ l2) ty)
    = option_map ma_core (find_for (fun x => mc_ty (ma_core x)) (ma_ok k fallible) (l1 ++ a :: l2) ty).
Proof.
  intros l1 a l2 k fallible ty. unfold find_for.
  set (q1 := fun (c : member_core) (f : bool) => Bool.eqb f fallible && ty_is (mc_ty c) ty).
  set (q2 := fun (c : member_core) (f : bool) => Bool.eqb f fallible && ty_none (mc_ty c)).
  assert (E1 : forall l, find (fun x => ma_ok k fallible x && ty_is (mc_ty (ma_core x)) ty) l = find (P q1 k) l).
  { intro l. apply find_ext. intro x. unfold P, q1, ma_ok.
    destruct (Bool.eqb (ma_fallible x) fallible), (appl_get (ma_appl x) k), (ty_is (mc_ty (ma_core x)) ty); reflexivity. }
  assert (E2 : forall l, find (fun x => ma_ok k fallible x && ty_none (mc_ty (ma_core x))) l = find (P q2 k) l).
  { intro l. apply find_ext. intro x. unfold P, q2, ma_ok.
    destruct (Bool.eqb (ma_fallible x) fallible), (appl_get (ma_appl x) k), (ty_none (mc_ty (ma_core x))); reflexivity. }
  rewrite !E1, !E2.
  assert (H1 := find_split q1 k l1 a l2). assert (H2 := find_split q2 k l1 a l2).
  destruct (find (P q1 k) (l1 ++ split_member_attr a ++ l2)) eqn:F1, (find (P q1 k) (l1 ++ a :: l2)) eqn:F2;
    cbn [option_map] in H1 |- *; try discriminate; [exact H1 | exact H2].
Qed.
