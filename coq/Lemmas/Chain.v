(* C05: the lookup chain of MemberAttrs::applicable_attr as a declarative rank; non-interference of
   instructions that are not applicable to a conversion. *)
From Coq Require Import List String Ascii Bool Arith.
From O2o.Model Require Import Tok Syn Attr Ast Lookup Expand.
Import ListNotations.
Open Scope list_scope.

Definition into_of (k : kind) : option kind :=
  match k with OwnedIntoExisting => Some OwnedInto | RefIntoExisting => Some RefInto | _ => None end.

(* the ordered lookup levels of a conversion: exactly that kind; for a fallible conversion the
   infallible instruction of that kind; for into_existing the corresponding into instruction
   (fallible, then infallible) *)
Definition levels (k : kind) (fallible : bool) : list (kind * bool) :=
  [(k, fallible)] ++ (if fallible then [(k, false)] else []) ++
  match into_of k with
  | Some k' => [(k', fallible)] ++ (if fallible then [(k', false)] else [])
  | None => []
  end.

Fixpoint first_some {A B} (f : A -> option B) (l : list A) : option B :=
  match l with
  | [] => None
  | x :: r => match f x with Some y => Some y | None => first_some f r end
  end.

Theorem chain_is_levels : forall m k f ty,
    field_chain m k f ty = first_some (fun kf => field_attr_core m (fst kf) (snd kf) ty) (levels k f).
Proof.
  intros m k f ty. unfold field_chain, levels.
  destruct k, f; cbn [kind_eqb andb into_of app first_some fst snd or_else];
    repeat match goal with
           | |- context [field_attr_core ?a ?b ?c ?d] => destruct (field_attr_core a b c d); cbn [or_else]
           end; reflexivity.
Qed.

(* a #[ghost] applicable to the conversion beats them all *)
Theorem ghost_first : forall m k f ty,
    applicable_attr m k f ty =
    match m_ghost_for m ty k with
    | Some g => Some (AGhost g)
    | None => option_map AField (first_some (fun kf => field_attr_core m (fst kf) (snd kf) ty) (levels k f))
    end.
Proof. intros. unfold applicable_attr. rewrite chain_is_levels. reflexivity. Qed.

(* at each level: the first instruction dedicated to the counterpart, else the first default one *)
Theorem dedicated_first : forall {A} (ty_of : A -> option type_path) ok l ty,
    (forall x, find (fun x => ok x && ty_is (ty_of x) ty) l = Some x -> find_for ty_of ok l ty = Some x) /\
    (find (fun x => ok x && ty_is (ty_of x) ty) l = None ->
     find_for ty_of ok l ty = find (fun x => ok x && ty_none (ty_of x)) l).
Proof. intros A ty_of ok l ty. unfold find_for. split; [intros x H | intro H]; rewrite H; reflexivity. Qed.

(* ---- non-interference ---- *)
Lemma find_insert_false {A} (p : A -> bool) l1 a l2 : p a = false -> find p (l1 ++ a :: l2) = find p (l1 ++ l2).
Proof. intro H. induction l1 as [|x l1 IH]; cbn [app find]; [rewrite H; reflexivity|]. destruct (p x); [reflexivity | exact IH]. Qed.

Lemma find_insert_shadowed {A} (p : A -> bool) l1 a l2 : existsb p l1 = true -> find p (l1 ++ a :: l2) = find p (l1 ++ l2).
Proof.
  induction l1 as [|x l1 IH]; cbn [existsb app find]; [discriminate|].
  destruct (p x); [reflexivity|]. cbn [orb]. exact IH.
Qed.

(* `a` is applicable to the conversion (k, fallible, ty) at some level of its chain *)
Definition applicable_somewhere (a : member_attr) (k : kind) (fallible : bool) (ty : type_path) : bool :=
  existsb (fun kf => ma_ok (fst kf) (snd kf) a && (ty_is (mc_ty (ma_core a)) ty || ty_none (mc_ty (ma_core a)))) (levels k fallible).

Definition with_attrs (m : member_attrs) (l : list member_attr) : member_attrs :=
  {| m_attrs := l; m_child := m_child m; m_parent := m_parent m; m_ghost := m_ghost m; m_ghosts := m_ghosts m;
     m_lit := m_lit m; m_pat := m_pat m; m_repeat := m_repeat m; m_skip := m_skip m; m_stop := m_stop m;
     m_hint := m_hint m; m_errs := m_errs m |}.

Lemma field_attr_insert : forall m l1 a l2 k f ty,
    ma_ok k f a && (ty_is (mc_ty (ma_core a)) ty || ty_none (mc_ty (ma_core a))) = false ->
    field_attr (with_attrs m (l1 ++ a :: l2)) k f ty = field_attr (with_attrs m (l1 ++ l2)) k f ty.
Proof.
  intros m l1 a l2 k f ty H. unfold field_attr, find_for. cbn [with_attrs m_attrs].
  rewrite !(find_insert_false _ l1 a l2); [reflexivity| |];
    destruct (ma_ok k f a), (ty_is (mc_ty (ma_core a)) ty), (ty_none (mc_ty (ma_core a))); cbn in H |- *; congruence.
Qed.

Lemma existsb_false_in {A} (p : A -> bool) l x : existsb p l = false -> In x l -> p x = false.
Proof. intros H Hin. destruct (p x) eqn:E; [|reflexivity]. assert (existsb p l = true) by (apply existsb_exists; eauto). congruence. Qed.

Lemma first_some_ext {A B} (f g : A -> option B) l : (forall x, In x l -> f x = g x) -> first_some f l = first_some g l.
Proof.
  induction l as [|x l IH]; intro H; cbn [first_some]; [reflexivity|].
  rewrite (H x (or_introl eq_refl)). destruct (g x); [reflexivity|]. apply IH. intros y Hy. apply H. right. exact Hy.
Qed.

(* an instruction that is not applicable to the conversion at any level of its chain never changes
   what the conversion resolves to, wherever it is inserted among the member's instructions *)
Theorem not_applicable_never_interferes : forall m l1 a l2 k f ty,
    applicable_somewhere a k f ty = false ->
    applicable_attr (with_attrs m (l1 ++ a :: l2)) k f ty = applicable_attr (with_attrs m (l1 ++ l2)) k f ty.
Proof.
  intros m l1 a l2 k f ty H. rewrite !ghost_first.
  replace (m_ghost_for (with_attrs m (l1 ++ a :: l2)) ty k) with (m_ghost_for (with_attrs m (l1 ++ l2)) ty k) by reflexivity.
  destruct (m_ghost_for (with_attrs m (l1 ++ l2)) ty k); [reflexivity|]. f_equal.
  apply first_some_ext. intros kf Hin. unfold field_attr_core. f_equal.
  apply field_attr_insert. exact (existsb_false_in _ _ kf H Hin).
Qed.

(* the whole field view - everything rendering reads - is unchanged as well *)
Theorem view_field_not_applicable : forall fld l1 a l2 k f ty,
    applicable_somewhere a k f ty = false ->
    view_field k f ty {| f_attrs := with_attrs (f_attrs fld) (l1 ++ a :: l2); f_idx := f_idx fld; f_member := f_member fld;
                         f_member_str := f_member_str fld; f_ty := f_ty fld |}
    = view_field k f ty {| f_attrs := with_attrs (f_attrs fld) (l1 ++ l2); f_idx := f_idx fld; f_member := f_member fld;
                           f_member_str := f_member_str fld; f_ty := f_ty fld |}.
Proof.
  intros fld l1 a l2 k f ty H. unfold view_field. cbn [f_attrs f_idx f_member f_member_str f_ty].
  rewrite (not_applicable_never_interferes (f_attrs fld) l1 a l2 k f ty H). reflexivity.
Qed.

(* an instruction shadowed inside one lookup (an earlier entry already satisfies the same test) *)
Theorem shadowed_in_lookup : forall {A} (ty_of : A -> option type_path) ok l1 a l2 ty,
    existsb (fun x => ok x && ty_is (ty_of x) ty) l1 = true ->
    find_for ty_of ok (l1 ++ a :: l2) ty = find_for ty_of ok (l1 ++ l2) ty.
Proof.
  intros A ty_of ok l1 a l2 ty H. unfold find_for. rewrite (find_insert_shadowed _ l1 a l2 H).
  destruct (find (fun x => ok x && ty_is (ty_of x) ty) (l1 ++ l2)) eqn:E; [reflexivity|].
  exfalso. assert (Hn := find_none _ _ E). apply existsb_exists in H. destruct H as [x [Hin Hp]].
  rewrite (Hn x) in Hp; [discriminate|]. apply in_or_app. left. exact Hin.
Qed.

(* the three copies of the chain: validation's and the nested-parent one agree with expansion's for
   infallible conversions *)
Lemma or_else_map {A B} (g : A -> B) a b : option_map g (or_else a b) = or_else (option_map g a) (option_map g b).
Proof. destruct a; reflexivity. Qed.

Theorem chains_agree_infallible : forall m k ty,
    field_chain m k false ty = option_map ma_core (applicable_field_attr m k false ty).
Proof.
  intros m k ty. unfold field_chain, applicable_field_attr, field_attr_core.
  destruct k; cbn [kind_eqb andb]; rewrite ?or_else_map;
    repeat match goal with |- context [field_attr ?a ?b ?c ?d] => destruct (field_attr a b c d); cbn [or_else option_map] end; reflexivity.
Qed.

(* validation looks instructions up with fallible = false even for fallible conversions: the copies
   differ there (finding F-05a); witness: one fallible member instruction *)
Definition f05a_attr : member_attr :=
  {| ma_core := {| mc_ty := None; mc_member := Some (MNamed "x"); mc_action := None |}; ma_fallible := true; ma_instr := "try_into";
     ma_appl := [true; true; false; false; false; false] |}.
Theorem chains_disagree_fallible :
  exists m k ty, field_chain m k true ty <> option_map ma_core (applicable_field_attr m k false ty).
Proof.
  exists (with_attrs empty_member_attrs [f05a_attr]), OwnedInto,
         {| tp_path := []; tp_str := "D"; tp_generics := None; tp_nameless := false |}.
  vm_compute. discriminate.
Qed.

Example levels_example : levels OwnedIntoExisting true = [(OwnedIntoExisting, true); (OwnedIntoExisting, false); (OwnedInto, true); (OwnedInto, false)].
Proof. reflexivity. Qed.

(* ---- lifting to the generated impl: rendering reads the views only ---- *)
Definition set_field_attrs (fld : field) (l : list member_attr) : field :=
  {| f_attrs := with_attrs (f_attrs fld) l; f_idx := f_idx fld; f_member := f_member fld; f_member_str := f_member_str fld; f_ty := f_ty fld |}.

Definition set_fields (s : struct_) (fs : list field) : struct_ :=
  {| s_attrs := s_attrs s; s_ident := s_ident s; s_generics := s_generics s; s_fields := fs; s_named := s_named s; s_unit := s_unit s; s_where := s_where s |}.

(* inserting, anywhere among the instructions of any field of a struct, an instruction that is not
   applicable to the conversion of impl context c leaves that impl token-identical *)
Theorem impl_unchanged_by_inapplicable : forall s pre fld post l1 a l2 c,
    applicable_somewhere a (c_kind c) (c_fallible c) (c_ty c) = false ->
    expand_impl (DStruct (set_fields s (pre ++ set_field_attrs fld (l1 ++ a :: l2) :: post))) c
    = expand_impl (DStruct (set_fields s (pre ++ set_field_attrs fld (l1 ++ l2) :: post))) c.
Proof.
  intros s pre fld post l1 a l2 c H. unfold expand_impl. f_equal. unfold view_type. cbn [dt_ident dt_generics dt_get_attrs set_fields s_attrs s_ident s_generics].
  f_equal. f_equal. unfold view_struct. cbn [set_fields s_fields s_named s_unit s_attrs]. f_equal.
  rewrite !map_app. cbn [map]. f_equal. f_equal.
  exact (view_field_not_applicable fld l1 a l2 (c_kind c) (c_fallible c) (c_ty c) H).
Qed.
