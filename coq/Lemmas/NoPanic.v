(* C16: guarded panic sites of the model are unreachable (the lemmas named in Lemmas/Sites.v). *)
From Coq Require Import List String Ascii Bool Arith.
From O2o.Model Require Import Tok Syn Attr Ast Lookup Validate Expand Derive.
From O2o.Gen Require Import Skeleton.
From O2o.Lemmas Require Import Rules Contexts Params.
Import ListNotations.
Open Scope list_scope.

(* ---- "13" / "14": the error-instruction lists only ever hold the three error classes ---- *)
Definition is_err_dt (i : dt_instr) : bool := match i with DMisplaced _ _ | DMisnamed _ _ _ | DUnrecErr _ => true | _ => false end.
Definition is_err_mb (i : mb_instr) : bool := match i with MMisplaced _ _ | MMisnamed _ _ _ | MUnrecErr _ => true | _ => false end.

Lemma forallb_snoc {A} (p : A -> bool) l x : forallb p (l ++ [x]) = forallb p l && p x.
Proof. rewrite forallb_app. cbn. rewrite andb_true_r. reflexivity. Qed.

Lemma collect_dt_errs : forall instrs m acc d,
    collect_dt_attrs instrs m acc = Ok d -> forallb is_err_dt (d_errs acc) = true -> forallb is_err_dt (d_errs d) = true.
Proof.
  induction instrs as [|i rest IH]; intros m acc d H Hacc; cbn [collect_dt_attrs] in H.
  - injection H as <-. exact Hacc.
  - destruct i; try (eapply IH; [exact H | cbn [d_errs]; try rewrite forallb_snoc; try rewrite Hacc; reflexivity]).
    (* DMap *)
    match type of H with bind ?r _ = _ => destruct r as [[m2 ta']| | |]; cbn [bind] in H; try discriminate H end.
    eapply IH; [exact H | exact Hacc].
Qed.

Theorem error_instrs_never_panic : forall be attrs d bark is_enum,
    get_data_type_attrs be attrs = Ok (d, bark) -> exists l, validate_error_instrs is_enum d = Ok l.
Proof.
  intros be attrs d bark is_enum H. unfold get_data_type_attrs in H.
  destruct (dt_instrs be attrs true) as [[instrs b]| | |]; cbn [bind] in H; try discriminate.
  destruct (collect_dt_attrs instrs [] empty_dt_attrs) as [d0| | |] eqn:E; cbn [bind] in H; try discriminate.
  injection H as <- <-. assert (Hf := collect_dt_errs _ _ _ _ E eq_refl).
  unfold validate_error_instrs. induction (d_errs d0) as [|e l IH]; [exists []; reflexivity|].
  cbn [forallb] in Hf. apply andb_prop in Hf. destruct Hf as [He Hl]. destruct (IH Hl) as [l' Hl']. cbn [mapM]. rewrite Hl'.
  destruct e; cbn in He; try discriminate He; cbn [bind];
    repeat match goal with |- context [if ?b then _ else _] => destruct b end; cbn [bind]; eexists; reflexivity.
Qed.

Lemma collect_mb_errs : forall ty instrs acc m,
    collect_member_attrs ty instrs acc = Ok m -> forallb is_err_mb (m_errs acc) = true -> forallb is_err_mb (m_errs m) = true.
Proof.
  intros ty. induction instrs as [|i rest IH]; intros acc m H Hacc; cbn [collect_member_attrs] in H.
  - injection H as <-. exact Hacc.
  - destruct i; try (eapply IH; [exact H | cbn [m_errs]; try rewrite forallb_snoc; try rewrite Hacc; reflexivity]).
    destruct ty; [|discriminate H]. eapply IH; [exact H | exact Hacc].
Qed.

Theorem member_error_instrs_never_panic : forall be ty attrs bark m is_enum,
    get_member_attrs be ty attrs bark = Ok m -> exists l, validate_member_error_instrs is_enum m = Ok l.
Proof.
  intros be ty attrs bark m is_enum H. unfold get_member_attrs in H.
  destruct (mb_instrs be attrs bark) as [instrs| | |]; cbn [bind] in H; try discriminate.
  assert (Hf := collect_mb_errs _ _ _ _ H eq_refl).
  unfold validate_member_error_instrs. induction (m_errs m) as [|e l IH]; [exists []; reflexivity|].
  cbn [forallb] in Hf. apply andb_prop in Hf. destruct Hf as [He Hl]. destruct (IH Hl) as [l' Hl']. cbn [mapM]. rewrite Hl'.
  destruct e; cbn in He; try discriminate He; cbn [bind];
    repeat match goal with |- context [if ?b then _ else _] => destruct b end; cbn [bind]; eexists; reflexivity.
Qed.

(* ---- "5": render_parent has a template for every non-From kind (regenerated table) ---- *)
Theorem render_parent_total : forall f c, is_from (c_kind c) = false -> exists ts, render_parent f c = Ok ts.
Proof.
  intros f c H. unfold render_parent. destruct (c_kind c) eqn:K; cbn in H; try discriminate H; destruct (c_fallible c);
    vm_compute; eexists; reflexivity.
Qed.

(* ---- "4": the destructuring form is always one of the three ---- *)
Lemma mapM_panic {A B} (f : A -> res B) : forall l s, mapM f l = Panic s -> exists x, In x l /\ f x = Panic s.
Proof.
  induction l as [|a l IH]; intros s H; cbn [mapM] in H; [discriminate|].
  destruct (f a) as [b| |s'|] eqn:E; cbn [bind] in H; try discriminate.
  - destruct (mapM f l) as [bs| |s'|] eqn:El; cbn [bind] in H; try discriminate.
    injection H as <-. destruct (IH s' eq_refl) as [x [Hx Hf]]. exists x. split; [right; exact Hx | exact Hf].
  - injection H as <-. exists a. split; [left; reflexivity | exact E].
Qed.

Theorem destruct_form_total : forall s c, variant_destruct_block s c <> Panic "4".
Proof.
  intros s c H. unfold variant_destruct_block in H. cbv zeta in H.
  match type of H with bind ?r _ = _ => destruct r as [[idents th]| |s1|] eqn:E1; cbn [bind] in H; try discriminate end.
  - (* the form is computed: th is Struct, Unit or Tuple *)
    assert (Hth : th <> HUnspecified).
    { repeat match type of E1 with
             | (if ?b then _ else _) = _ => destruct b
             | bind ?r _ = _ => destruct r; cbn [bind] in E1; try discriminate E1
             end; injection E1 as _ <-; discriminate. }
    match type of H with bind ?r _ = _ => destruct r as [gs| |s2|] eqn:E2; cbn [bind] in H; try discriminate end.
    + destruct th; try discriminate H. apply Hth. reflexivity.
    + injection H as ->.
      repeat match type of E2 with
             | (if ?b then _ else _) = _ => destruct b
             | match ?o with Some _ => _ | None => _ end = _ => destruct o
             end; try discriminate E2.
      apply mapM_panic in E2. destruct E2 as [x [_ Hx]]. destruct (gd_ident x) as [[?|?]|?]; discriminate Hx.
  - injection H as ->.
    repeat match type of E1 with
           | (if ?b then _ else _) = _ => destruct b
           end; try discriminate E1.
    match type of E1 with bind ?r _ = _ => destruct r as [ids| |s3|] eqn:E3; cbn [bind] in E1; try discriminate E1 end.
    injection E1 as ->. apply mapM_panic in E3. destruct E3 as [x [_ Hx]].
    repeat match type of Hx with
           | (if ?b then _ else _) = _ => destruct b; try discriminate Hx
           | match ?o with Some _ => _ | None => _ end = _ => destruct o; try discriminate Hx
           end.
    match type of Hx with bind ?r _ = _ => destruct r as [n0| |s4|] eqn:E4; cbn [bind] in Hx; try discriminate Hx end.
    injection Hx as ->. destruct a as [mc|g|p k]; cbn [get_field_name_or] in E4; try discriminate E4.
    destruct (get_for_kind p k); discriminate E4.
Qed.

(* ---- err_ty.unwrap(): a validated input has an error type on every fallible instruction ---- *)
Theorem fallible_has_error_type : forall order_tp d c,
    validate_msgs order_tp d = Ok [] -> In c (impl_contexts d) -> c_fallible c = true -> exists e, err_env c = Ok e.
Proof.
  intros order_tp d c Hv Hc Hf. unfold err_env.
  destruct (tc_err (c_core c)) as [e|] eqn:E; [eexists; reflexivity|]. exfalso.
  unfold impl_contexts in Hc. apply in_flat_map in Hc. destruct Hc as [kf [_ Hc]]. apply in_map_iff in Hc. destruct Hc as [a [<- Ha]].
  unfold iter_for_kind in Ha. apply filter_In in Ha. destruct Ha as [Ha Hp]. apply andb_prop in Hp. destruct Hp as [Hfal Happl].
  cbn [c_fallible c_core] in *. apply Bool.eqb_prop in Hfal.
  assert (X := rule_missing_error_type order_tp d [] a (fst kf) Hv Ha ltac:(congruence) Happl E). destruct X.
Qed.

(* ---- a #[parent] on a variant never reaches todo!(): validation barks at it ---- *)
Theorem variant_parent_rejected : forall order_tp e v p,
    In v (e_variants e) -> In p (m_parent (v_attrs v)) ->
    forall msgs, validate_msgs order_tp (DEnum e) = Ok msgs -> msgs <> [].
Proof.
  intros order_tp e v p Hv Hp msgs H. destruct (validate_msgs_parts _ _ _ H) as [m1 [m6 [-> Hm6]]]. cbn [dt_get_attrs] in *.
  destruct (mapM_in _ _ _ v Hm6 Hv) as [y [Hy Hiny]].
  unfold validate_member in Hy. destruct (validate_member_error_instrs true (v_attrs v)) as [errs| | |]; cbn [bind] in Hy; try discriminate.
  injection Hy as <-.
  intro Hnil. assert (Hin : In ("Instruction #[parent(...)] is not supported for this member."%string)
      ((if is_empty_list (d_attrs (e_attrs e)) then ["At least one trait instruction is expected."%string] else []) ++ m1 ++
       flat_map (fun kf => validate_struct_attrs (e_attrs e) (fst kf) (snd kf)) flavours_validate_order ++
       flat_map (fun k => validate_ghost_attrs k (d_ghosts (e_attrs e)) (map (fun x => tc_ty (ta_core x)) (d_attrs (e_attrs e))))
         [FromOwned; FromRef; OwnedInto; RefInto; OwnedIntoExisting; RefIntoExisting] ++
       validate_child_parents_attrs (d_child_parents (e_attrs e)) (map (fun x => tc_ty (ta_core x)) (d_attrs (e_attrs e))) ++
       validate_where_attrs (d_where (e_attrs e)) (map (fun x => tc_ty (ta_core x)) (d_attrs (e_attrs e))) ++
       List.concat m6 ++ flat_map (fun v0 => validate_variant_fields v0 (e_attrs e)) (e_variants e))).
  { do 6 (apply in_or_app; right). apply in_or_app. left. apply in_concat. eexists. split; [exact Hiny|].
    apply in_or_app. right. apply in_or_app. left. apply in_or_app. left.
    unfold bark_at_member_attr. apply in_map_iff. exists p. split; [reflexivity | exact Hp]. }
  rewrite Hnil in Hin. exact Hin.
Qed.
