(* C04 / C12: the regenerated instruction tables against the regenerated README tables. Finite
   statements, proved by computation, re-proved on every run against what the sources say now. *)
From Coq Require Import List String Ascii Bool Arith.
From O2o.Model Require Import Tok Syn Attr.
From O2o.Gen Require Import Tables Readme Skeleton.
Import ListNotations.
Open Scope string_scope.
Open Scope list_scope.

Definition kind_of_name (s : string) : option kind :=
  find (fun k => String.eqb (kind_name k) s) all_kinds.

(* spelling of a basic instruction: the code's own FallibleKind Display table *)
Definition basic_name (k : kind) (fallible : bool) : string :=
  match find (fun e => String.eqb (fst (fst e)) (kind_name k) && Bool.eqb (snd (fst e)) fallible) fallible_kind_display with
  | Some e => snd e | None => "?" end.
Definition kind_of_basic (n : string) : option (kind * bool) :=
  match find (fun e => String.eqb (snd e) n) fallible_kind_display with
  | Some e => match kind_of_name (fst (fst e)) with Some k => Some (k, snd (fst e)) | None => None end
  | None => None
  end.

(* README: documented (kinds, fallible) of a trait instruction name *)
Definition kinds_of_rows (rows : list string) : list kind :=
  flat_map (fun r => match kind_of_basic r with Some (k, false) => [k] | _ => [] end) rows.
Definition documented_infallible : list (string * list kind) :=
  map (fun r => (r, kinds_of_rows [r])) readme_basic_rows ++
  map (fun c => (fst c, kinds_of_rows (snd c))) readme_shortcuts.
Definition try_spelling (n : string) (ks : list kind) : string :=
  if str_in n readme_basic_rows then match ks with [k] => basic_name k true | _ => "?" end
  else "try_" ^^ n.
Definition documented : list (string * (list kind * bool)) :=
  map (fun e => (fst e, (snd e, false))) documented_infallible ++
  (if readme_fallible_same then map (fun e => (try_spelling (fst e) (snd e), (snd e, true))) documented_infallible else []).

(* code: (kinds, fallible) of a name through the arms of parse_data_type_instruction / parse_member_instruction *)
Definition kinds_of_appl (a : appl) : list kind := filter (appl_get a) all_kinds.
Definition dt_code_kinds (n : string) : option (list kind * bool) :=
  match find_arm dt_arms n false true with
  | Some (DcMap f, slots) => Some (kinds_of_appl (appl_of_slots slots n), f)
  | _ => None
  end.
Definition mb_code_kinds (n : string) : option (list kind * bool) :=
  match find_arm mb_arms n false true with
  | Some (McMap f, slots) => Some (kinds_of_appl (appl_of_slots slots n), f)
  | _ => None
  end.

Definition kinds_eqb (a b : list kind) : bool :=
  forallb (fun k => existsb (kind_eqb k) b) a && forallb (fun k => existsb (kind_eqb k) a) b &&
  Nat.eqb (List.length a) (List.length b).

Definition same_doc (code : option (list kind * bool)) (doc : list kind * bool) : bool :=
  match code with
  | Some (ks, f) => kinds_eqb ks (fst doc) && Bool.eqb f (snd doc)
  | None => false
  end.

Definition dt_map_names : list string :=
  flat_map (fun a => match a with (names, _, DcMap _, _) => names | _ => [] end) dt_arms.
Definition mb_map_names : list string :=
  flat_map (fun a => match a with (names, _, McMap _, _) => names | _ => [] end) mb_arms.

(* every documented name means, in the code, exactly the documented kinds and fallibility *)
Lemma dt_tables_match : forallb (fun e => same_doc (dt_code_kinds (fst e)) (snd e)) documented = true.
Proof. vm_compute. reflexivity. Qed.
(* and nothing else is a trait instruction; there are 24 of them *)
Lemma dt_names_documented :
  forallb (fun n => str_in n (map fst documented)) dt_map_names = true /\
  forallb (fun n => str_in n dt_map_names) (map fst documented) = true /\
  List.length dt_map_names = 24 /\ List.length documented = 24.
Proof. vm_compute. auto. Qed.

(* member level: the same names except the three try_*_into_existing, same meaning *)
Lemma mb_tables_match :
  forallb (fun n => match assoc_str n documented with
                    | Some d => same_doc (mb_code_kinds n) d
                    | None => false end) mb_map_names = true /\
  List.length mb_map_names = 21.
Proof. vm_compute. auto. Qed.

(* nested [instr(..)] inside #[parent(..)]: the twelve infallible names, same slots *)
Lemma nested_tables_match :
  forallb (fun n => match assoc_str n documented with
                    | Some (ks, false) => kinds_eqb (kinds_of_appl (appl_of_slots nested_map_slots n)) ks
                    | _ => false end) nested_map_names = true /\ List.length nested_map_names = 12.
Proof. vm_compute. auto. Qed.

(* C12: a shortcut's applicability is the union of its basics'; basics are singletons *)
Definition basics_of (n : string) : list string :=
  match assoc_str n documented with
  | Some (ks, f) => map (fun k => basic_name k f) ks
  | None => []
  end.
Definition or_appl (l : list appl) : appl :=
  map (fun k => existsb (fun a => appl_get a k) l) all_kinds.
Definition appl_of_name (n : string) : appl :=
  match find_arm dt_arms n false true with Some (_, slots) => appl_of_slots slots n | None => [] end.
Definition fallible_of_name (n : string) : bool :=
  match find_arm dt_arms n false true with Some (DcMap f, _) => f | _ => false end.

Lemma shortcut_is_union :
  forallb (fun n => appl_eqb (map (appl_get (appl_of_name n)) all_kinds) (or_appl (map appl_of_name (basics_of n)))
                    && forallb (fun b => Bool.eqb (fallible_of_name b) (fallible_of_name n)) (basics_of n)
                    && negb (is_empty_list (basics_of n)))
          dt_map_names = true.
Proof. vm_compute. reflexivity. Qed.

Lemma basics_are_singletons :
  forallb (fun kf => match dt_code_kinds (basic_name (fst kf) (snd kf)) with
                     | Some ([k], f) => kind_eqb k (fst kf) && Bool.eqb f (snd kf)
                     | _ => false end)
          (list_prod all_kinds [false; true]) = true.
Proof. vm_compute. reflexivity. Qed.

(* name |-> (applicable_to, fallible) is injective on the 24 names (trait-level repeat is keyed by it) *)
Lemma key_injective :
  forallb (fun n => forallb (fun m => String.eqb n m ||
                                      negb (appl_eqb (appl_of_name n) (appl_of_name m) && Bool.eqb (fallible_of_name n) (fallible_of_name m)))
                            dt_map_names) dt_map_names = true.
Proof. vm_compute. reflexivity. Qed.

(* ghost / ghosts are the union of their _owned and _ref forms, on every kind *)
Definition ghost_appl (arms : list (list string * guard * mb_class * list string)) (n : string) : appl :=
  match find_arm arms n false true with Some (_, slots) => appl_of_slots slots n | None => [] end.
Lemma ghost_is_union :
  appl_eqb (map (appl_get (ghost_appl mb_arms "ghost")) all_kinds)
           (or_appl [ghost_appl mb_arms "ghost_owned"; ghost_appl mb_arms "ghost_ref"]) = true /\
  appl_eqb (map (appl_get (ghost_appl mb_arms "ghosts")) all_kinds)
           (or_appl [ghost_appl mb_arms "ghosts_owned"; ghost_appl mb_arms "ghosts_ref"]) = true /\
  (* owned forms apply to exactly the owned kinds, ref forms to the by-reference kinds *)
  forallb (fun k => Bool.eqb (appl_get (ghost_appl mb_arms "ghost_owned") k) (negb (is_ref k))
                    && Bool.eqb (appl_get (ghost_appl mb_arms "ghost_ref") k) (is_ref k)
                    && Bool.eqb (appl_get (ghost_appl mb_arms "ghosts_owned") k) (negb (is_ref k))
                    && Bool.eqb (appl_get (ghost_appl mb_arms "ghosts_ref") k) (is_ref k)) all_kinds = true.
Proof. vm_compute. auto. Qed.

(* the README listing's comments name the code's spelling of each basic instruction, but for two typos *)
Definition listing_kind (e : string * string * bool * bool) : option (kind * bool) :=
  let '(_, tr, aref, sref) := e in
  let last := fun s => String.eqb tr s in
  if last "::core::convert::From" then Some (if aref then FromRef else FromOwned, false)
  else if last "::core::convert::TryFrom" then Some (if aref then FromRef else FromOwned, true)
  else if last "::core::convert::Into" then Some (if sref then RefInto else OwnedInto, false)
  else if last "::core::convert::TryInto" then Some (if sref then RefInto else OwnedInto, true)
  else if last "o2o::traits::IntoExisting" then Some (if sref then RefIntoExisting else OwnedIntoExisting, false)
  else if last "o2o::traits::TryIntoExisting" then Some (if sref then RefIntoExisting else OwnedIntoExisting, true)
  else None.
Definition readme_listing_typos : list string := ["try_owned_into"; "try_ref_into"].
Lemma listing_names :
  forallb (fun e => match listing_kind e with
                    | Some (k, f) => String.eqb (fst (fst (fst e))) (basic_name k f) || str_in (fst (fst (fst e))) readme_listing_typos
                    | None => false end) readme_listing = true /\
  (* the listing covers the 12 (kind, fallible) pairs once each *)
  forallb (fun kf => Nat.eqb 1 (List.length (filter (fun e => match listing_kind e with
                                                              | Some (k, f) => kind_eqb k (fst kf) && Bool.eqb f (snd kf)
                                                              | None => false end) readme_listing)))
          (list_prod all_kinds [false; true]) = true.
Proof. vm_compute. auto. Qed.
