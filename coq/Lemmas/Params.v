(* C08: where the trait-instruction parameters land in the (regenerated) quote! skeletons. *)
From Coq Require Import List String Ascii Bool Arith.
From O2o.Model Require Import Tok Syn Attr Ast Lookup Expand.
From O2o.Gen Require Import Skeleton.
From O2o.Lemmas Require Import Contexts.
Import ListNotations.
Open Scope string_scope.
Open Scope list_scope.

Definition is_hole (h : string) (t : stok) : bool := match t with SH x => String.eqb x h | _ => false end.
Definition is_ident (s : string) (t : stok) : bool := match t with SI x => String.eqb x s | _ => false end.

Fixpoint index_where (p : stok -> bool) (l : list stok) : option nat :=
  match l with
  | [] => None
  | x :: r => if p x then Some 0 else option_map S (index_where p r)
  end.

Definition fn_body (sk : list stok) : list stok :=
  match last (body_group sk) (SI "") with SG DBrace b => b | _ => [] end.

(* #impl_attr is the first token of the item, before `impl` *)
Definition impl_attr_first (sk : list stok) : bool :=
  match sk with SH "impl_attr" :: SI "impl" :: _ => true | _ => false end.
(* #attr sits immediately before `fn` inside the impl body *)
Definition attr_before_fn (sk : list stok) : bool :=
  match index_where (is_hole "attr") (body_group sk), index_where (is_ident "fn") (body_group sk) with
  | Some a, Some f => Nat.eqb (S a) f
  | _, _ => false
  end.
(* #inner_attr is the first thing in the fn body *)
Definition inner_attr_first (sk : list stok) : bool :=
  match fn_body sk with SH "inner_attr" :: _ => true | _ => false end.

(* the vars bindings (#pre_init) come right after the inner attribute, before the result (#init) *)
Definition pre_init_then_init (body : list stok) : bool :=
  match body with
  | SH "inner_attr" :: SH "pre_init" :: SH "init" :: _ => true
  | _ => false
  end.

Definition skeleton_param_facts : bool :=
  forallb (fun sk => impl_attr_first sk && attr_before_fn sk && inner_attr_first sk)
          [sk_from; sk_try_from; sk_into; sk_try_into; sk_into_existing; sk_try_into_existing] &&
  forallb (fun sk => pre_init_then_init (fn_body sk)) [sk_from; sk_try_from; sk_into_existing; sk_try_into_existing] &&
  (* into / try_into: the fn body is `#inner_attr #body`, and the two body forms put the bindings before the result;
     the post-init form (bare #[parent]) evaluates them after `let mut obj ... ;` and before any assignment *)
  forallb (fun sk => match fn_body sk with [SH "inner_attr"; SH "body"] => true | _ => false end) [sk_into; sk_try_into] &&
  forallb (fun b => match b with [SH "pre_init"; SH "init"] => true | _ => false end) [sk_into_body_plain; sk_try_into_body_plain] &&
  forallb (fun b => match index_where (is_hole "pre_init") b, index_where (is_hole "init") b, index_where (is_hole "post_init") b,
                          index_where (is_ident "obj") b with
                    | Some p, Some i, Some q, Some o => Nat.ltb o p && Nat.eqb (S p) i && Nat.eqb (S i) q
                    | _, _, _, _ => false end) [sk_into_body_post; sk_try_into_body_post] &&
  (* every hole occurs once *)
  forallb (fun sk => Nat.eqb 1 (List.length (filter (is_hole "attr") (body_group sk))) &&
                     Nat.eqb 1 (List.length (filter (is_hole "impl_attr") sk)) &&
                     Nat.eqb 1 (List.length (filter (is_hole "inner_attr") (fn_body sk))))
          [sk_from; sk_try_from; sk_into; sk_try_into; sk_into_existing; sk_try_into_existing].

Lemma skeleton_params : skeleton_param_facts = true.
Proof. vm_compute. reflexivity. Qed.

(* vars: one `let` per declared binding, in declaration order *)
Lemma pre_init_in_order : forall c l,
    tc_init (c_core c) = Some l ->
    struct_pre_init c = Some (flat_map (fun x => [TIdent "let"; TIdent (id_ident x); P1 "="] ++ quote_action (id_action x) None c ++ [semi]) l).
Proof. intros c l H. unfold struct_pre_init. rewrite H. reflexivity. Qed.

(* return: replaces the generated body (an assignment through `other` for into_existing) *)
Lemma quick_return_replaces : forall d c qr,
    tc_qret (c_core c) = Some qr ->
    main_code_block d c = Ok (quick_return_block qr c) /\ main_code_block_ok d c = Ok (quick_return_block qr c) /\
    quick_return_block qr c = (if is_into_existing (c_kind c) then [P1 "*"; TIdent "other"; P1 "="] ++ quote_action qr None c ++ [semi]
                               else quote_action qr None c).
Proof. intros d c qr H. unfold main_code_block, main_code_block_ok. rewrite H. auto. Qed.

(* every impl an instruction produces carries that instruction's parameters *)
Lemma contexts_carry_core : forall d c, In c (impl_contexts d) -> exists a, In a (d_attrs (dt_get_attrs d)) /\ c_core c = ta_core a /\ c_fallible c = ta_fallible a.
Proof.
  intros d c H. unfold impl_contexts in H. apply in_flat_map in H. destruct H as [kf [_ H]].
  apply in_map_iff in H. destruct H as [a [<- Ha]]. unfold iter_for_kind in Ha. apply filter_In in Ha. destruct Ha as [Ha Hp].
  exists a. cbn [c_core c_fallible]. split; [exact Ha|]. split; [reflexivity|].
  apply andb_prop in Hp. destruct Hp as [Hp _]. apply Bool.eqb_prop in Hp. symmetry. exact Hp.
Qed.

(* the environment handed to the skeleton holds the instruction's three attributes verbatim *)
Lemma env_attrs : forall t c,
    assoc_str "attr" (trait_env t c) = Some (match tc_attr (c_core c) with Some a => a | None => [] end) /\
    assoc_str "impl_attr" (trait_env t c) = Some (match tc_impl_attr (c_core c) with Some a => a | None => [] end) /\
    assoc_str "inner_attr" (trait_env t c) = Some (match tc_inner_attr (c_core c) with Some a => a | None => [] end).
Proof. intros. unfold trait_env. cbn. auto. Qed.

(* `return expr` replaces the WHOLE body - also when a member carries a bare #[parent]: no post-init statement is generated (the
   repaired finding F-08b / F-17b); the item is the skeleton with vars, then the expression, and nothing else in the fn *)
Definition no_post (c0 : ictx) : ictx :=
  {| c_kind := c_kind c0; c_fallible := c_fallible c0; c_core := c_core c0; c_hint := c_hint c0; c_impl_type := c_impl_type c0;
     c_dst := c_dst c0; c_src := c_src c0; c_post_init := false; c_named := c_named c0 |}.

Theorem return_replaces_whole_body : forall t c0 qr,
    tc_qret (c_core c0) = Some qr -> c_fallible c0 = false ->
    let c := no_post c0 in
    let e1 := ("pre_init", opt_toks (struct_pre_init c0)) :: ("init", quick_return_block qr c) :: ("post_init", []) :: trait_env t c in
    quote_trait t c0 =
    Ok (if is_from (c_kind c0) then inst (("pre_init", opt_toks (struct_pre_init c0)) :: ("init", quick_return_block qr c) :: trait_env t c) sk_from
        else if is_intoish (c_kind c0) then inst (("body", inst e1 sk_into_body_plain) :: e1) sk_into
        else inst e1 sk_into_existing).
Proof.
  intros t c0 qr Hq Hf c e1. unfold quote_trait. rewrite Hq. cbn [is_some bind opt_toks].
  fold (no_post c0). fold c. cbn [c_kind c_fallible]. change (c_kind c) with (c_kind c0). change (c_fallible c) with (c_fallible c0). rewrite Hf.
  assert (Hqc : tc_qret (c_core c) = Some qr) by exact Hq.
  destruct (quick_return_replaces (tv_data t) c qr Hqc) as [Hm _]. rewrite Hm. cbn [bind].
  destruct (is_from (c_kind c0)); [reflexivity|]. destruct (is_intoish (c_kind c0)); reflexivity.
Qed.
