(* C12, lifted to the generated code: replacing a type-level trait instruction by its split into single-kind instructions (same
   arguments, same position) leaves the whole generated code unchanged - the same impls, token for token, in the same order. *)
From Coq Require Import List String Ascii Bool Arith Permutation.
From O2o.Gen Require Import Tables.
From O2o.Model Require Import Tok Syn Attr Ast Lookup Validate Expand Derive.
From O2o.Lemmas Require Import TablesFacts Contexts Shortcuts.
Import ListNotations.
Open Scope list_scope.

Definition set_trait_attrs (d : data_type) (l : list trait_attr) : data_type :=
  let upd (a : dt_attrs) := {| d_attrs := l; d_ghosts := d_ghosts a; d_where := d_where a; d_child_parents := d_child_parents a; d_errs := d_errs a |} in
  match d with
  | DStruct s => DStruct {| s_attrs := upd (s_attrs s); s_ident := s_ident s; s_generics := s_generics s; s_fields := s_fields s;
                            s_named := s_named s; s_unit := s_unit s; s_where := s_where s |}
  | DEnum e => DEnum {| e_attrs := upd (e_attrs e); e_ident := e_ident e; e_generics := e_generics e; e_variants := e_variants e; e_where := e_where e |}
  end.

(* nothing the renderer looks at depends on the list of trait instructions, except the impl contexts themselves *)
Lemma view_type_ignores_trait_attrs k f ty d l : view_type k f ty (set_trait_attrs d l) = view_type k f ty d.
Proof. destruct d as [s|e]; reflexivity. Qed.

Lemma cores_of_split a k f :
  map ta_core (filter (fun x => Bool.eqb (ta_fallible x) f && appl_get (ta_appl x) k) (split_trait_attr a))
  = map ta_core (filter (fun x => Bool.eqb (ta_fallible x) f && appl_get (ta_appl x) k) [a]).
Proof.
  unfold split_trait_attr. cbn [filter].
  destruct (Bool.eqb (ta_fallible a) f) eqn:Ef; cbn [andb].
  - assert (H : forall l, map ta_core (filter (fun x => Bool.eqb (ta_fallible x) f && appl_get (ta_appl x) k)
                    (map (fun k0 => {| ta_core := ta_core a; ta_fallible := ta_fallible a; ta_appl := singleton_appl k0 |}) l))
                = map (fun _ => ta_core a) (filter (fun k0 => kind_eqb k0 k) l)).
    { induction l as [|k0 l IH]; [reflexivity|]. cbn [map filter ta_fallible ta_appl]. rewrite Ef, singleton_get. cbn [andb].
      destruct (kind_eqb k0 k); cbn [map ta_core]; rewrite IH; reflexivity. }
    rewrite H. destruct (appl_get (ta_appl a) k) eqn:Ea.
    + assert (Hk : filter (fun k0 => kind_eqb k0 k) (filter (appl_get (ta_appl a)) kinds_expand_order) = [k]).
      { clear H. revert Ea. generalize (ta_appl a) as ap. intros ap Ea. destruct k; revert Ea; unfold kinds_expand_order;
          cbn [filter]; intro Ea;
          repeat match goal with |- context [appl_get ap ?kk] => destruct (appl_get ap kk) eqn:?; cbn [filter kind_eqb] end;
          try reflexivity; congruence. }
      rewrite Hk. reflexivity.
    + assert (Hk : filter (fun k0 => kind_eqb k0 k) (filter (appl_get (ta_appl a)) kinds_expand_order) = []).
      { clear H. revert Ea. generalize (ta_appl a) as ap. intros ap Ea. destruct k; revert Ea; unfold kinds_expand_order;
          cbn [filter]; intro Ea;
          repeat match goal with |- context [appl_get ap ?kk] => destruct (appl_get ap kk) eqn:?; cbn [filter kind_eqb] end;
          try reflexivity; congruence. }
      rewrite Hk. reflexivity.
  - induction (filter (appl_get (ta_appl a)) kinds_expand_order) as [|k0 l IH]; [reflexivity|].
    cbn [map filter ta_fallible]. rewrite Ef. cbn [andb]. exact IH.
Qed.

Lemma cores_for_kind l1 a l2 k f :
  map ta_core (filter (fun x => Bool.eqb (ta_fallible x) f && appl_get (ta_appl x) k) (l1 ++ split_trait_attr a ++ l2))
  = map ta_core (filter (fun x => Bool.eqb (ta_fallible x) f && appl_get (ta_appl x) k) (l1 ++ a :: l2)).
Proof.
  change (a :: l2) with ([a] ++ l2). rewrite !filter_app, !map_app, cores_of_split. reflexivity.
Qed.

Lemma map_via_core {B} (g : trait_core -> B) l l' : map ta_core l = map ta_core l' -> map (fun a => g (ta_core a)) l = map (fun a => g (ta_core a)) l'.
Proof. intro H. rewrite <- (map_map ta_core g l), <- (map_map ta_core g l'), H. reflexivity. Qed.

Lemma contexts_of_split d l1 a l2 :
  d_attrs (dt_get_attrs d) = l1 ++ a :: l2 ->
  impl_contexts (set_trait_attrs d (l1 ++ split_trait_attr a ++ l2)) = impl_contexts d.
Proof.
  intro Hd. unfold impl_contexts.
  assert (Hi : dt_ident (set_trait_attrs d (l1 ++ split_trait_attr a ++ l2)) = dt_ident d) by (destruct d; reflexivity).
  assert (Hn : match set_trait_attrs d (l1 ++ split_trait_attr a ++ l2) with DStruct s => s_named s | DEnum _ => false end
               = match d with DStruct s => s_named s | DEnum _ => false end) by (destruct d; reflexivity).
  assert (Ht : match set_trait_attrs d (l1 ++ split_trait_attr a ++ l2) with DStruct _ => ITStruct | DEnum _ => ITEnum end
               = match d with DStruct _ => ITStruct | DEnum _ => ITEnum end) by (destruct d; reflexivity).
  rewrite Hi, Hn, Ht. apply flat_map_ext. intros [k f]. cbn [fst snd].
  unfold iter_for_kind.
  assert (Ha : d_attrs (dt_get_attrs (set_trait_attrs d (l1 ++ split_trait_attr a ++ l2))) = l1 ++ split_trait_attr a ++ l2) by (destruct d; reflexivity).
  rewrite Ha, Hd.
  apply (map_via_core (fun core => {| c_kind := k; c_fallible := f; c_core := core; c_hint := tc_hint core;
                                      c_impl_type := match d with DStruct _ => ITStruct | DEnum _ => ITEnum end;
                                      c_dst := if is_from k then [TIdent (dt_ident d)] else tp_path (tc_ty core);
                                      c_src := if is_from k then tp_path (tc_ty core) else [TIdent (dt_ident d)];
                                      c_post_init := false; c_named := match d with DStruct s => s_named s | DEnum _ => false end |})).
  apply cores_for_kind.
Qed.

(* the generated code *)
Theorem split_whole_impl : forall d l1 a l2,
    d_attrs (dt_get_attrs d) = l1 ++ a :: l2 ->
    data_type_impl (set_trait_attrs d (l1 ++ split_trait_attr a ++ l2)) = data_type_impl d.
Proof.
  intros d l1 a l2 Hd. unfold data_type_impl. rewrite (contexts_of_split d l1 a l2 Hd).
  assert (E : forall c, expand_impl (set_trait_attrs d (l1 ++ split_trait_attr a ++ l2)) c = expand_impl d c).
  { intro c. unfold expand_impl. rewrite view_type_ignores_trait_attrs. reflexivity. }
  assert (M : forall cs, mapM (expand_impl (set_trait_attrs d (l1 ++ split_trait_attr a ++ l2))) cs = mapM (expand_impl d) cs).
  { induction cs as [|c cs IH]; [reflexivity|]. cbn [mapM]. rewrite E, IH. reflexivity. }
  rewrite M. reflexivity.
Qed.

(* ---------------- member level ---------------- *)
Definition set_m_attrs (m : member_attrs) (l : list member_attr) : member_attrs :=
  {| m_attrs := l; m_child := m_child m; m_parent := m_parent m; m_ghost := m_ghost m; m_ghosts := m_ghosts m; m_lit := m_lit m;
     m_pat := m_pat m; m_repeat := m_repeat m; m_skip := m_skip m; m_stop := m_stop m; m_hint := m_hint m; m_errs := m_errs m |}.
Definition set_field_attrs (f : field) (l : list member_attr) : field :=
  {| f_attrs := set_m_attrs (f_attrs f) l; f_idx := f_idx f; f_member := f_member f; f_member_str := f_member_str f; f_ty := f_ty f |}.

Lemma applicable_attr_split m l1 a l2 k fl ty :
  m_attrs m = l1 ++ a :: l2 ->
  applicable_attr (set_m_attrs m (l1 ++ split_member_attr a ++ l2)) k fl ty = applicable_attr m k fl ty.
Proof.
  intro Hm. unfold applicable_attr.
  change (m_ghost_for (set_m_attrs m (l1 ++ split_member_attr a ++ l2)) ty k) with (m_ghost_for m ty k).
  destruct (m_ghost_for m ty k); [reflexivity|]. f_equal.
  assert (E : forall k0 f0, field_attr_core (set_m_attrs m (l1 ++ split_member_attr a ++ l2)) k0 f0 ty = field_attr_core m k0 f0 ty).
  { intros k0 f0. unfold field_attr_core, field_attr. cbn [set_m_attrs m_attrs]. rewrite Hm. apply split_member_lookup. }
  unfold field_chain. rewrite !E. reflexivity.
Qed.

Lemma view_field_split k fl ty f l1 a l2 :
  m_attrs (f_attrs f) = l1 ++ a :: l2 ->
  view_field k fl ty (set_field_attrs f (l1 ++ split_member_attr a ++ l2)) = view_field k fl ty f.
Proof.
  intro Hm. unfold view_field. cbn [set_field_attrs f_attrs f_member f_idx f_member_str f_ty].
  rewrite (applicable_attr_split (f_attrs f) l1 a l2 k fl ty Hm). reflexivity.
Qed.

(* a member-level shortcut on any field of a struct, written out: same generated code *)
Theorem split_member_whole_impl : forall s fs1 f fs2 l1 a l2,
    s_fields s = fs1 ++ f :: fs2 -> m_attrs (f_attrs f) = l1 ++ a :: l2 ->
    let f' := set_field_attrs f (l1 ++ split_member_attr a ++ l2) in
    let s' := {| s_attrs := s_attrs s; s_ident := s_ident s; s_generics := s_generics s; s_fields := fs1 ++ f' :: fs2;
                 s_named := s_named s; s_unit := s_unit s; s_where := s_where s |} in
    data_type_impl (DStruct s') = data_type_impl (DStruct s).
Proof.
  intros s fs1 f fs2 l1 a l2 Hs Hm f' s'. unfold data_type_impl.
  assert (Hc : impl_contexts (DStruct s') = impl_contexts (DStruct s)) by reflexivity. rewrite Hc.
  assert (E : forall c, expand_impl (DStruct s') c = expand_impl (DStruct s) c).
  { intro c. unfold expand_impl. f_equal. unfold view_type. cbn [dt_ident dt_generics dt_get_attrs dt_where]. f_equal.
    unfold view_struct, s'. cbn [s_fields s_named s_unit s_attrs]. rewrite Hs, !map_app. cbn [map].
    unfold f'. rewrite (view_field_split _ _ _ f l1 a l2 Hm). reflexivity. }
  assert (M : forall cs, mapM (expand_impl (DStruct s')) cs = mapM (expand_impl (DStruct s)) cs).
  { induction cs as [|c cs IH]; [reflexivity|]. cbn [mapM]. rewrite E, IH. reflexivity. }
  rewrite M. reflexivity.
Qed.
