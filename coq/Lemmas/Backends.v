(* C18: the cfg-split code of the two back-ends. *)
From Coq Require Import List String Ascii Bool Arith.
From O2o.Model Require Import Tok Syn Attr Ast.
From O2o.Gen Require Import SynIdents.
Import ListNotations.
Open Scope list_scope.

(* the attribute shapes syn hands over: a bare path, a delimited list, or `= value` *)
Inductive attr_shape (a : raw_attr) : Prop :=
| ShPath : ra_toks a = [] -> attr_shape a
| ShList : forall d inner, ra_toks a = [TGroup d inner] -> attr_shape a
| ShNameValue : forall j rest, ra_toks a = TPunct "=" j :: rest -> attr_shape a.

Definition same_verdict {A} (x y : res A) : Prop :=
  match x, y with
  | Ok a, Ok b => a = b
  | Err _, Err _ => True
  | _, _ => False
  end.

(* both back-ends extract the same argument tokens from a bare attribute, and reject the same shapes
   (`#[n{..}]`, `#[n[..]]`, `#[n = v]`) - the wording of the rejection is the library's under syn 1 *)
Theorem extraction_agrees : forall a, attr_shape a -> same_verdict (bare_attr_tokens S1 a) (bare_attr_tokens S2 a).
Proof.
  intros a [H | d inner H | j rest H]; unfold bare_attr_tokens; rewrite H.
  - cbn. reflexivity.
  - destruct d; cbn; auto.
  - cbn. exact Logic.I.
Qed.

(* accepted exactly for the path and the parenthesised list *)
Theorem extraction_accepts : forall be a inner,
    bare_attr_tokens be a = Ok inner -> attr_shape a -> (ra_toks a = [] /\ inner = []) \/ ra_toks a = [TGroup DParen inner].
Proof.
  intros be a inner H [E | d i E | j rest E]; unfold bare_attr_tokens in H; rewrite E in H.
  - left. destruct be; cbn in H; injection H as <-; auto.
  - right. destruct be, d; cbn in H; try discriminate H; injection H as <-; exact E.
  - destruct be; cbn in H; discriminate H.
Qed.

(* the only other place the back-end enters the model: which identifiers syn accepts as plain
   identifiers; the back-ends differ on four reserved words only *)
Theorem ident_classes_differ_only_on : forall s, is_plain_ident S1 s <> is_plain_ident S2 s -> str_in s keywords_s2_only = true.
Proof.
  intros s H. unfold is_plain_ident in H. destruct (str_in s keywords_common); cbn [negb andb] in H; [congruence|].
  destruct (str_in s keywords_s2_only); [reflexivity | cbn in H; congruence].
Qed.


(* the model's identifier classes ARE the two accept_as_ident functions of the syn versions Cargo.lock pins (lists regenerated
   from the vendored sources on every run) *)
Lemma str_in_In s l : str_in s l = true <-> In s l.
Proof.
  unfold str_in. rewrite existsb_exists. split.
  - intros [x [Hx He]]. apply String.eqb_eq in He. subst. exact Hx.
  - intro H. exists s. split; [exact H | apply String.eqb_refl].
Qed.
Lemma str_in_same_elements s l1 l2 :
  forallb (fun x => str_in x l2) l1 = true -> forallb (fun x => str_in x l1) l2 = true -> str_in s l1 = str_in s l2.
Proof.
  intros H1 H2. rewrite forallb_forall in H1, H2.
  destruct (str_in s l1) eqn:E1; destruct (str_in s l2) eqn:E2; try reflexivity.
  - apply str_in_In in E1. apply H1 in E1. congruence.
  - apply str_in_In in E2. apply H2 in E2. congruence.
Qed.
Lemma str_in_app s l1 l2 : str_in s (l1 ++ l2) = str_in s l1 || str_in s l2.
Proof. unfold str_in. apply existsb_app. Qed.

Theorem ident_classes_are_syn_s : forall s,
    is_plain_ident S1 s = negb (str_in s syn1_refused_idents) /\ is_plain_ident S2 s = negb (str_in s syn2_refused_idents).
Proof.
  intro s. unfold is_plain_ident. split.
  - rewrite andb_true_r. f_equal; try (apply str_in_same_elements; vm_compute; reflexivity).
  - rewrite <- negb_orb, <- str_in_app. f_equal; try (apply str_in_same_elements; vm_compute; reflexivity).
Qed.
