(* C18: the cfg-split code of the two back-ends. *)
From Coq Require Import List String Ascii Bool Arith.
From O2o.Model Require Import Tok Syn Attr Ast.
Import ListNotations.
Open Scope list_scope.

(* the attribute shapes syn hands over: a bare path, a delimited list, or `= value` *)
Inductive attr_shape (a : raw_attr) : Prop :=
| ShPath : ra_toks a = [] -> attr_shape a
| ShList : forall d inner, ra_toks a = [TGroup d inner] -> attr_shape a
| ShNameValue : forall j rest, ra_toks a = TPunct "=" j :: rest -> attr_shape a.

Definition same_verdict {A} (x y : res A) : Prop :=
  match x, y with
  | Ok a, Ok b => a = b
  | Err _, Err _ => True
  | _, _ => False
  end.

(* both back-ends extract the same argument tokens from a bare attribute, and reject the same shapes
   (`#[n{..}]`, `#[n[..]]`, `#[n = v]`) - the wording of the rejection is the library's under syn 1 *)
Theorem extraction_agrees : forall a, attr_shape a -> same_verdict (bare_attr_tokens S1 a) (bare_attr_tokens S2 a).
Proof.
  intros a [H | d inner H | j rest H]; unfold bare_attr_tokens; rewrite H.
  - cbn. reflexivity.
  - destruct d; cbn; auto.
  - cbn. exact Logic.I.
Qed.

(* accepted exactly for the path and the parenthesised list *)
Theorem extraction_accepts : forall be a inner,
    bare_attr_tokens be a = Ok inner -> attr_shape a -> (ra_toks a = [] /\ inner = []) \/ ra_toks a = [TGroup DParen inner].
Proof.
  intros be a inner H [E | d i E | j rest E]; unfold bare_attr_tokens in H; rewrite E in H.
  - left. destruct be; cbn in H; injection H as <-; auto.
  - right. destruct be, d; cbn in H; try discriminate H; injection H as <-; exact E.
  - destruct be; cbn in H; discriminate H.
Qed.

(* the only other place the back-end enters the model: which identifiers syn accepts as plain
   identifiers; the back-ends differ on four reserved words only *)
Theorem ident_classes_differ_only_on : forall s, is_plain_ident S1 s <> is_plain_ident S2 s -> str_in s keywords_s2_only = true.
Proof.
  intros s H. unfold is_plain_ident in H. destruct (str_in s keywords_common); cbn [negb andb] in H; [congruence|].
  destruct (str_in s keywords_s2_only); [reflexivity | cbn in H; congruence].
Qed.

