(* C07: fallible = infallible for whole bodies.  The generated body does not depend on the fallibility of the conversion (the fallible
   skeleton wraps it in Ok(..): C07_try_body) - for every struct and enum without #[parent] members.  (A bare #[parent] is converted
   by `try_into()?` / `try_into_existing(..)?` in the fallible flavours: that is the one place where fallibility shows, by design.) *)
From Coq Require Import List String Ascii Bool Arith Lia.
From O2o.Model Require Import Tok Syn Attr Ast Lookup Validate Expand Derive.
From O2o.Lemmas Require Import PanicFree Designated Flavours Descent KindClass.
Import ListNotations.
Open Scope string_scope.
Open Scope list_scope.

Section Fallible.
  Variable c : ictx.
  Variable b : bool.
  Let c' := set_fallible c b.

  Lemma member_loop_fallible fc hint cf cf2 gf gf2 pf pf2 :
    (forall ch ms line, Forall container_ok ms -> cf2 ch ms line = cf ch ms line) ->
    (forall cp ms, Forall container_ok ms -> gf2 cp ms = gf cp ms) ->
    (forall ch ms line, suffix_of ms (cf ch ms line)) -> (forall cp ms, suffix_of ms (gf cp ms)) ->
    forall n members idx acc, Forall container_ok members ->
      member_loop c' fc hint cf2 gf2 pf2 n members idx acc = member_loop c fc hint cf gf pf n members idx acc.
  Proof.
    intros Ecf Egf Scf Sgf. induction n as [|n IH]; intros members idx acc Hok; cbn [member_loop]; [reflexivity|].
    destruct members as [|m rest]; [reflexivity|]. inversion Hok as [|? ? Hm Hrest]; subst.
    destruct (match fc with Some (cp, _, depth) => _ | None => _ end) as [brk| | |]; cbn [bind]; try reflexivity.
    destruct brk; [reflexivity|]. unfold container_ok in Hm.
    destruct (fc_data m) as [f|g|f p]; [| |contradiction Hm].
    - change (c_kind c') with (c_kind c).
      destruct (negb (is_from (c_kind c)) && (is_some (fv_ghost f) || fv_has_parent f)); [apply IH; exact Hrest|].
      destruct (is_from (c_kind c) && _); [apply IH; exact Hrest|].
      unfold c' at 1 2. rewrite (line_fallible f c b hint idx None Hm).
      destruct (fv_child f) as [ch|].
      + rewrite (Ecf ch (m :: rest) _ Hok). specialize (Scf ch (m :: rest) (render_struct_line f c hint idx None)).
        destruct (cf ch (m :: rest) _) as [[frag rest']| | |]; cbn [bind]; try reflexivity.
        apply IH. destruct (Scf frag rest' eq_refl) as [consumed E]. rewrite E in Hok. apply Forall_app in Hok. exact (proj2 Hok).
      + destruct (render_struct_line f c hint idx None) as [line| | |]; cbn [bind]; try reflexivity. apply IH. exact Hrest.
    - destruct (gd_path g) as [gp|]; [|reflexivity]. rewrite (Egf gp (m :: rest) Hok). specialize (Sgf gp (m :: rest)).
      destruct (gf gp (m :: rest)) as [[frag rest']| | |]; cbn [bind]; try reflexivity.
      apply IH. destruct (Sgf frag rest' eq_refl) as [consumed E]. rewrite E in Hok. apply Forall_app in Hok. exact (proj2 Hok).
  Qed.

  Variable s : sview.

  Lemma descent_fallible : forall fuel,
      (forall members named fc, Forall container_ok members ->
          init_inner s c' fuel members named fc = init_inner s c fuel members named fc) /\
      (forall cp members depth hint line, Forall container_ok members ->
          child_fragment s c' fuel cp members depth hint line = child_fragment s c fuel cp members depth hint line) /\
      (forall cd members named cp depth hint, Forall container_ok members ->
          render_child s c' fuel cd members named cp depth hint = render_child s c fuel cd members named cp depth hint).
  Proof.
    induction fuel as [|fuel [IHi [IHc IHr]]]; [repeat split; intros; reflexivity|].
    destruct (descent_mutual s c fuel) as [_ [Sc [_ _]]].
    split; [|split].
    - intros members named fc Hok. rewrite !init_inner_S. cbv zeta.
      change (c_hint c') with (c_hint c).
      set (hint := match fc with Some (_, Some (_, h), _) => h | _ => c_hint c end).
      set (dopt := option_map (fun x : list member * option child_render * nat => snd x) fc).
      rewrite (member_loop_fallible fc hint
                 (fun ch ms line => child_fragment s c fuel ch ms dopt hint line) (fun ch ms line => child_fragment s c' fuel ch ms dopt hint line)
                 (fun cp ms => child_fragment s c fuel cp ms dopt hint (Ok [])) (fun cp ms => child_fragment s c' fuel cp ms dopt hint (Ok []))
                 (fun f p ms line => parent_child_fragment s c fuel f p ms (pcf_named p) dopt line)
                 (fun f p ms line => parent_child_fragment s c' fuel f p ms (pcf_named p) dopt line));
        [| intros; apply IHc; assumption | intros; apply IHc; assumption | intros; apply Sc | intros; apply Sc | exact Hok].
      reflexivity.
    - intros cp members depth hint line Hok. rewrite !child_fragment_S. cbv zeta.
      change (c_kind c') with (c_kind c). change (c_named c') with (c_named c).
      destruct (match depth with None => true | Some d => _ end); [|reflexivity].
      destruct (is_intoish (c_kind c)).
      + destruct (sv_child_parents s) as [cpa|]; [|reflexivity].
        destruct (nth_str _ _) as [p| | |]; cbn [bind]; try reflexivity.
        destruct (find _ _) as [cd|]; [|reflexivity]. apply IHr. exact Hok.
      + destruct (is_into_existing (c_kind c)); [|reflexivity].
        destruct (nth_str _ _) as [p| | |]; cbn [bind]; try reflexivity. apply IHi. exact Hok.
    - intros cd members named cp depth hint Hok. rewrite !render_child_S.
      destruct (nth_error cp depth) as [name|]; [|reflexivity]. rewrite (IHi members named _ Hok). reflexivity.
  Qed.

  Lemma struct_init_block_fallible : no_parents s -> struct_init_block s c' = struct_init_block s c.
  Proof.
    intro Hn. unfold struct_init_block. change (c_kind c') with (c_kind c). change (c_hint c') with (c_hint c).
    destruct (_ || _); [reflexivity|]. cbv zeta.
    destruct (descent_fallible (4 * (List.length (sorted_containers s) + 2) * (max_path_len (sorted_containers s) + 2))) as [Hi _].
    rewrite (Hi _ _ _ (containers_ok s Hn)). reflexivity.
  Qed.
End Fallible.

Lemma enum_line_fallible c b v : variant_no_parents v -> render_enum_line v (set_fallible c b) = render_enum_line v c.
Proof.
  intro Hn. unfold render_enum_line. cbv zeta. cbn [set_fallible c_kind c_fallible c_core c_dst c_src c_post_init].
  set (nc := {| c_kind := c_kind c; c_fallible := c_fallible c; c_core := c_core c;
                c_hint := match vv_hint v with Some h => th_hint h | None => HUnspecified end; c_impl_type := ITVariant;
                c_dst := c_dst c; c_src := c_src c; c_post_init := c_post_init c; c_named := sv_named (vv_struct v) |}).
  change {| c_kind := c_kind c; c_fallible := b; c_core := c_core c;
            c_hint := match vv_hint v with Some h => th_hint h | None => HUnspecified end; c_impl_type := ITVariant;
            c_dst := c_dst c; c_src := c_src c; c_post_init := c_post_init c; c_named := sv_named (vv_struct v) |} with (set_fallible nc b).
  rewrite (struct_init_block_fallible nc b _ Hn).
  change (variant_destruct_block (vv_struct v) (set_fallible nc b)) with (variant_destruct_block (vv_struct v) nc).
  reflexivity.
Qed.

Theorem body_same_fallible : forall d c b,
    dview_no_parents d -> main_code_block d (set_fallible c b) = main_code_block d c.
Proof.
  intros d c b Hn. unfold main_code_block. change (tc_qret (c_core (set_fallible c b))) with (tc_qret (c_core c)).
  destruct (tc_qret (c_core c)) as [qr|]; [reflexivity|].
  destruct d as [s|vs g]; cbn [data_main_code_block dview_no_parents] in *.
  - unfold struct_main_code_block. rewrite (struct_init_block_fallible c b s Hn). reflexivity.
  - unfold enum_main_code_block, enum_init_block. change (c_kind (set_fallible c b)) with (c_kind c).
    rewrite (mapM_ext_in (fun v => if is_from (c_kind c) && is_some (vv_ghost v) then Ok []
                                   else if negb (is_from (c_kind c)) && match vv_ghost v with Some g => negb (is_some (fg_action g)) | None => false end then Ok []
                                   else render_enum_line v (set_fallible c b))
                         (fun v => if is_from (c_kind c) && is_some (vv_ghost v) then Ok []
                                   else if negb (is_from (c_kind c)) && match vv_ghost v with Some g => negb (is_some (fg_action g)) | None => false end then Ok []
                                   else render_enum_line v c) vs).
    2:{ intros v Hv. rewrite Forall_forall in Hn. rewrite (enum_line_fallible c b v (Hn v Hv)). reflexivity. }
    reflexivity.
Qed.

Theorem body_same_flavour : forall d c k' b,
    same_class (c_kind c) k' -> dview_no_parents d ->
    main_code_block d (set_fallible (set_kind c k') b) = main_code_block d c.
Proof.
  intros d c k' b Hc Hn. rewrite (body_same_fallible d (set_kind c k') b Hn). exact (proj1 (body_same_class d c k' Hc Hn)).
Qed.
