(* C20: a concrete input satisfies the hypotheses of the closed-world provenance theorem (non-vacuity). *)
From Coq Require Import List String Ascii Bool Arith.
From O2o.Model Require Import Tok Syn Attr Ast Lookup Validate Expand Derive.
From O2o.Lemmas Require Import NoStd IdentBase IdentProv.
Import ListNotations.
Open Scope string_scope.
Open Scope list_scope.

(* non-vacuity: a concrete input (renamed field, expressions in both directions, a ghost field, a #[ghosts] entry, two trait
   instructions) parses to a data type that satisfies data_ok for this instance and expands *)
Definition example_raw : raw_input :=
  {| ri_ident := "Rec"; ri_generics := []; ri_where := []; ri_attrs := [{| ra_path := Some "map"; ra_toks := [(TGroup DParen [(TIdent "Dto")])] |}; {| ra_path := Some "into_existing"; ra_toks := [(TGroup DParen [(TIdent "Dto")])] |}; {| ra_path := Some "ghosts"; ra_toks := [(TGroup DParen [(TIdent "extra"); (TPunct ":"%char false); (TGroup DBrace [(TLit "7")])])] |}]; ri_data := RStruct ShNamed [{| rf_member := (MNamed "id"); rf_typath := Some [(TIdent "u32")]; rf_ty := [(TIdent "u32")]; rf_attrs := [{| ra_path := Some "map"; ra_toks := [(TGroup DParen [(TIdent "ident")])] |}] |}; {| rf_member := (MNamed "name"); rf_typath := Some [(TIdent "String")]; rf_ty := [(TIdent "String")]; rf_attrs := [{| ra_path := Some "into"; ra_toks := [(TGroup DParen [(TPunct "~"%char true); (TPunct "."%char false); (TIdent "len"); (TGroup DParen [])])] |}; {| ra_path := Some "from"; ra_toks := [(TGroup DParen [(TPunct "~"%char true); (TPunct "."%char false); (TIdent "to_string"); (TGroup DParen [])])] |}] |}; {| rf_member := (MNamed "cache"); rf_typath := Some [(TIdent "Option"); (TPunct "<"%char false); (TIdent "u8"); (TPunct ">"%char false)]; rf_ty := [(TIdent "Option"); (TPunct "<"%char false); (TIdent "u8"); (TPunct ">"%char false)]; rf_attrs := [{| ra_path := Some "ghost"; ra_toks := [(TGroup DParen [(TGroup DBrace [(TIdent "None")])])] |}] |}] |}.

Definition example_pair : option (data_type * list tok) :=
  Eval vm_compute in (match parse_input S1 example_raw with
                      | Ok d => match data_type_impl d with Ok ts => Some (d, ts) | _ => None end
                      | _ => None end).

Ltac ti_concrete :=
  let i := fresh "i" in let H := fresh "H" in
  intros i H; vm_compute in H;
  repeat (destruct H as [H|H]; [subst i; split; intro; discriminate|]); contradiction.

Lemma provenance_example : exists d ts, @data_ok no_std_prov d /\ data_type_impl d = Ok ts /\ ts <> [].
Proof.
  let v := eval vm_compute in example_pair in
  match v with Some (?d, ?ts) => exists d, ts end.
  split; [|split; [vm_compute; reflexivity | discriminate]].
  unfold data_ok, dt_attrs_ok. cbn [dt_ident dt_generics dt_get_attrs s_ident s_generics s_attrs s_fields d_attrs d_ghosts d_where d_child_parents].
  repeat match goal with
         | |- _ /\ _ => split
         | |- Forall _ [] => constructor
         | |- Forall _ (_ :: _) => constructor
         | |- True => exact Logic.I
         | |- no_std_P _ => split; intro; discriminate
         | |- _ <> _ => intro; discriminate
         | |- TI _ => ti_concrete
         | |- core_ok _ => unfold core_ok, type_path_ok; cbn [opt_ok fst snd]
         | |- field_ok _ => unfold field_ok, member_attrs_ok; cbn [opt_ok fst snd]
         | |- ghosts_ok _ => unfold ghosts_ok; cbn [opt_ok fst snd]
         | |- ghost_data_ok _ => unfold ghost_data_ok; cbn [opt_ok fst snd]
         | |- oTI _ => unfold oTI; cbn [opt_ok fst snd]
         | |- omember_ok _ => unfold omember_ok; cbn [opt_ok fst snd]
         | |- P _ => cbn [P no_std_prov]
         | |- member_ok _ => progress cbn
         | |- opt_ok _ _ => progress cbn
         | |- Forall _ _ => progress cbn
         | |- match _ with _ => _ end => progress cbn
         end.
Qed.
