(* C11: generics, lifetimes and where-clauses in the impl header (get_quote_trait_params). *)
From Coq Require Import List String Ascii Bool Arith.
From O2o.Model Require Import Tok Syn Attr Ast Lookup Expand.
From O2o.Lemmas Require Import SortPerm.
Import ListNotations.
Open Scope list_scope.

Definition lt_names (gens : list gparam) : list string := map gp_name (filter gp_is_lt gens).

Lemma lt_names_push : forall gens g, gp_is_lt g = true -> lt_names (push_param gens g) = lt_names gens ++ [gp_name g].
Proof.
  intros gens g Hg. unfold lt_names, push_param. rewrite filter_app, map_app. cbn [filter]. rewrite Hg. cbn [map]. f_equal.
  induction gens as [|x gens IH]; [reflexivity|]. cbn [map filter].
  change (gp_is_lt {| gp_k := gp_k x; gp_name := gp_name x; gp_punct := true; gp_decl := gp_decl x |}) with (gp_is_lt x).
  destruct (gp_is_lt x); cbn [map gp_name]; rewrite ?IH; reflexivity.
Qed.

Lemma missing_iff : forall gens lt,
    forallb (fun g => if gp_is_lt g then negb (String.eqb (gp_name g) lt) else true) gens = negb (str_in lt (lt_names gens)).
Proof.
  intros gens lt. unfold lt_names, str_in. induction gens as [|x gens IH]; [reflexivity|]. cbn [forallb filter].
  destruct (gp_is_lt x); cbn [map existsb]; rewrite IH; [|reflexivity].
  rewrite (String.eqb_sym lt (gp_name x)). destruct (String.eqb (gp_name x) lt); reflexivity.
Qed.

Definition mk_lt (lt : string) : gparam := {| gp_k := GPLt; gp_name := lt; gp_punct := false; gp_decl := lifetime lt |}.

Lemma add_missing_step : forall gens lt r,
    add_missing_lts gens (lt :: r) = add_missing_lts (if negb (str_in lt (lt_names gens)) then push_param gens (mk_lt lt) else gens) r.
Proof. intros. cbn [add_missing_lts]. rewrite missing_iff. reflexivity. Qed.

(* what was declared stays declared *)
Lemma add_missing_mono : forall lts gens x, In x (lt_names gens) -> In x (lt_names (add_missing_lts gens lts)).
Proof.
  induction lts as [|lt r IH]; intros gens x H; [exact H|]. rewrite add_missing_step. apply IH.
  destruct (negb (str_in lt (lt_names gens))); [|exact H]. rewrite lt_names_push by reflexivity. apply in_or_app. left. exact H.
Qed.

(* every lifetime of the counterpart path is declared on the impl *)
Theorem missing_lifetimes_declared : forall lts gens lt, In lt lts -> In lt (lt_names (add_missing_lts gens lts)).
Proof.
  induction lts as [|l r IH]; intros gens lt H; [destruct H|]. rewrite add_missing_step. destruct H as [<-|H]; [|apply IH; exact H].
  apply add_missing_mono. destruct (str_in l (lt_names gens)) eqn:E; cbn [negb].
  - apply str_in_In. exact E.
  - rewrite lt_names_push by reflexivity. apply in_or_app. right. left. reflexivity.
Qed.

Lemma nodup_snoc {A} (l : list A) x : NoDup l -> ~ In x l -> NoDup (l ++ [x]).
Proof.
  induction l as [|y l IH]; intros H Hx; cbn [app]; [repeat constructor; intros []|].
  inversion H as [|? ? Hy Hl]; subst. constructor.
  - intro Hin. apply in_app_or in Hin. destruct Hin as [Hin|[<-|[]]]; [exact (Hy Hin) | apply Hx; left; reflexivity].
  - apply IH; [exact Hl | intro Hin; apply Hx; right; exact Hin].
Qed.

(* ... exactly once, even when the path mentions a lifetime several times or shares one with the type *)
Theorem lifetimes_declared_once : forall lts gens, NoDup (lt_names gens) -> NoDup (lt_names (add_missing_lts gens lts)).
Proof.
  induction lts as [|l r IH]; intros gens H; [exact H|]. rewrite add_missing_step. apply IH.
  destruct (str_in l (lt_names gens)) eqn:E; cbn [negb]; [exact H|].
  rewrite lt_names_push by reflexivity. cbn [mk_lt gp_name].
  apply nodup_snoc; [exact H|]. intro Hx. assert (str_in l (lt_names gens) = true) by (apply str_in_In; exact Hx). congruence.
Qed.

(* nothing else is added: the non-lifetime parameters are the type's own, in order *)
Lemma push_keeps_others : forall gens g, gp_is_lt g = true ->
    map gp_name (filter (fun x => negb (gp_is_lt x)) (push_param gens g)) = map gp_name (filter (fun x => negb (gp_is_lt x)) gens).
Proof.
  intros gens g Hg. unfold push_param. rewrite filter_app, map_app. cbn [filter]. rewrite Hg. cbn [negb map]. rewrite app_nil_r.
  induction gens as [|x gens IH]; [reflexivity|]. cbn [map filter].
  change (gp_is_lt {| gp_k := gp_k x; gp_name := gp_name x; gp_punct := true; gp_decl := gp_decl x |}) with (gp_is_lt x).
  destruct (gp_is_lt x); cbn [negb map gp_name]; rewrite ?IH; reflexivity.
Qed.

Theorem others_untouched : forall lts gens,
    map gp_name (filter (fun x => negb (gp_is_lt x)) (add_missing_lts gens lts)) = map gp_name (filter (fun x => negb (gp_is_lt x)) gens).
Proof.
  induction lts as [|l r IH]; intro gens; [reflexivity|]. rewrite add_missing_step, IH.
  destruct (negb (str_in l (lt_names gens))); [apply push_keeps_others; reflexivity | reflexivity].
Qed.

(* the environment of the header *)
Definition env_get (e : env) (k : string) : list tok := match assoc_str k e with Some ts => ts | None => [] end.

(* the deriving type is applied to its parameters in argument form (names only): TypeGenerics *)
Theorem self_type_in_argument_form : forall t c, env_get (trait_env t c) "these_gens" = print_type_generics (tv_generics t).
Proof. intros. unfold trait_env, env_get. cbn. reflexivity. Qed.

(* by-reference conversions with relevant lifetimes: a fresh 'o2o outliving them, declared last, is the lifetime of the borrow *)
Theorem o2o_lifetime : forall t c,
    is_ref (c_kind c) = true ->
    let these_lts := flat_map (fun g => if gp_is_lt g then [gp_name g] else []) (tv_generics t) in
    let those_lts := declarable_lts (angle_lts (tp_generics (c_ty c))) in
    let ref_lts := if is_from (c_kind c) then these_lts else those_lts in
    ref_lts <> [] ->
    env_get (trait_env t c) "r" = P1 "&" :: lifetime "o2o" /\
    env_get (trait_env t c) "impl_gens" =
      print_impl_generics (push_param (add_missing_lts (tv_generics t) those_lts)
                             {| gp_k := GPLt; gp_name := "o2o"; gp_punct := false; gp_decl := lifetime "o2o" ++ [P1 ":"] ++ join_plus ref_lts |}).
Proof.
  intros t c Hr these_lts those_lts ref_lts Hne. unfold trait_env, env_get. rewrite Hr.
  fold these_lts those_lts. fold ref_lts. destruct ref_lts as [|x l] eqn:E; [congruence|]. cbn. split; reflexivity.
Qed.

(* owned conversions, and by-reference ones without relevant lifetimes, add no 'o2o *)
Theorem no_o2o_otherwise : forall t c,
    is_ref (c_kind c) = false ->
    env_get (trait_env t c) "r" = [] /\
    env_get (trait_env t c) "impl_gens" = print_impl_generics (add_missing_lts (tv_generics t) (declarable_lts (angle_lts (tp_generics (c_ty c))))).
Proof. intros t c Hr. unfold trait_env, env_get. rewrite Hr. cbn. split; reflexivity. Qed.

(* the where-clause attached is the one dedicated to the counterpart, else the default one *)
Theorem where_clause_choice : forall k f ty d c,
    env_get (trait_env (view_type k f ty d) c) "where_clause" =
    print_where_all (dt_where d) (find_for wa_ty (fun _ => true) (d_where (dt_get_attrs d)) ty).
Proof. intros. unfold trait_env, env_get, view_type, where_attr_for. cbn. reflexivity. Qed.

(* the deriving type's own where-predicates are carried, first and in order, whatever #[where_clause] applies *)
Theorem own_where_carried : forall own w, own <> [] ->
    exists rest, print_where_all own w = TIdent "where" :: join_preds own ++ rest /\
                 rest = match w with Some a => [comma] ++ join_preds (wa_preds a) | None => [] end.
Proof.
  intros own w Hne. destruct own as [|p own']; [contradiction Hne; reflexivity|]. unfold print_where_all.
  destruct w as [a|]; eexists; split; try reflexivity. rewrite app_nil_r. reflexivity.
Qed.
(* and a type without where-clause gets exactly what it got before *)
Theorem no_own_where : forall w, print_where_all [] w = print_where w.
Proof. reflexivity. Qed.

(* 'static and '_ are never declared (nor bound by 'o2o); every other lifetime of the counterpart path is *)
Theorem declarable_spec : forall l x, In x (declarable_lts l) <-> In x l /\ x <> "static"%string /\ x <> "_"%string.
Proof.
  intros l x. unfold declarable_lts. rewrite filter_In. split.
  - intros [Hin Hb]. apply andb_prop in Hb. destruct Hb as [H1 H2]. apply negb_true_iff in H1, H2.
    split; [exact Hin|]. split; intro E; subst x; cbn in *; discriminate.
  - intros [Hin [H1 H2]]. split; [exact Hin|]. apply andb_true_intro. split; apply negb_true_iff; apply String.eqb_neq; assumption.
Qed.

(* every lifetime argument of the counterpart path that can be a parameter is declared on the impl; 'static and '_ never are
   (unless the deriving type itself declares them, which rustc rejects at the type) *)
Theorem counterpart_lifetimes_declared : forall gens l lt,
    In lt l -> lt <> "static" -> lt <> "_" -> In lt (lt_names (add_missing_lts gens (declarable_lts l))).
Proof. intros gens l lt Hin H1 H2. apply missing_lifetimes_declared. apply declarable_spec. repeat split; assumption. Qed.

(* conversely, 'static / '_ are declared only if the deriving type's own parameter list names them *)
Theorem static_never_added : forall gens l lt,
    (lt = "static" \/ lt = "_") -> In lt (lt_names (add_missing_lts gens (declarable_lts l))) -> In lt (lt_names gens).
Proof.
  intros gens l lt Hs. generalize (declarable_lts l) (fun x => proj1 (declarable_spec l x)). intros dl Hdl. revert gens.
  induction dl as [|x r IH]; intros gens Hin; [exact Hin|].
  rewrite add_missing_step in Hin.
  assert (Hx : x <> lt). { destruct (Hdl x (or_introl eq_refl)) as [_ [H1 H2]]. destruct Hs; subst lt; auto. }
  apply IH in Hin; [|intros y Hy; apply Hdl; right; exact Hy].
  destruct (negb (str_in x (lt_names gens))); [|exact Hin].
  rewrite lt_names_push in Hin by reflexivity. apply in_app_or in Hin. destruct Hin as [Hin|[Heq|[]]]; [exact Hin | cbn in Heq; contradiction].
Qed.

Example lifetimes_example :
  lt_names (add_missing_lts [mk_lt "a"] ["c"; "c"; "a"]%string) = ["a"; "c"]%string.
Proof. reflexivity. Qed.
