(* C10 / C17: substitution is context-free (a token's replacement does not depend on its
   neighbours) and total (no marker survives when the replacements carry none). *)
From Coq Require Import List String Ascii Bool Arith.
From O2o.Model Require Import Tok Syn Attr Ast Lookup Expand.
From O2o.Lemmas Require Import Subst.
Import ListNotations.
Open Scope list_scope.

Definition marker_free (l : list ftok) : bool :=
  forallb (fun k => negb (is_tilde k) && negb (is_at k)) l.

Lemma marker_free_app : forall a b, marker_free (a ++ b) = marker_free a && marker_free b.
Proof. intros. unfold marker_free. apply forallb_app. Qed.

Section Clean.
  Variables at_ tilde : list tok.

  (* the replacement of a token sequence is the concatenation of the replacements of its parts:
     what stands before or after a marker plays no role *)
  Lemma subst_app : forall a b, subst at_ tilde (a ++ b) = subst at_ tilde a ++ subst at_ tilde b.
  Proof. intros. unfold subst. apply flat_map_app. Qed.

  Lemma subst_cons : forall t ts, subst at_ tilde (t :: ts) = subst_tok at_ tilde t ++ subst at_ tilde ts.
  Proof. intros. reflexivity. Qed.

  Lemma subst_marker_anywhere : forall pre post c j,
      (Ascii.eqb c "@" = true -> Ascii.eqb c "~" = false ->
       subst at_ tilde (pre ++ TPunct c j :: post) = subst at_ tilde pre ++ at_ ++ subst at_ tilde post) /\
      (Ascii.eqb c "~" = true ->
       subst at_ tilde (pre ++ TPunct c j :: post) = subst at_ tilde pre ++ tilde ++ subst at_ tilde post).
  Proof.
    intros pre post c j. split.
    - intros Ha Ht. rewrite subst_app, subst_cons. cbn [subst_tok]. rewrite Ht, Ha. reflexivity.
    - intros Ht. rewrite subst_app, subst_cons. cbn [subst_tok]. rewrite Ht. reflexivity.
  Qed.

  Hypothesis at_clean : marker_free (flatten at_) = true.
  Hypothesis tilde_clean : marker_free (flatten tilde) = true.

  Lemma subst_leaf_clean : forall k, marker_free (subst_leaf at_ tilde k) = true.
  Proof.
    intro k. unfold subst_leaf.
    destruct (is_tilde k) eqn:Ht; [exact tilde_clean|].
    destruct (is_at k) eqn:Ha; [exact at_clean|].
    cbn [marker_free forallb]. rewrite Ht, Ha. reflexivity.
  Qed.

  Theorem subst_removes_markers : forall ts, marker_free (flatten (subst at_ tilde ts)) = true.
  Proof.
    intro ts. rewrite subst_flatten. induction (flatten ts) as [|k l IH]; [reflexivity|].
    cbn [flat_map]. rewrite marker_free_app, subst_leaf_clean, IH. reflexivity.
  Qed.
End Clean.

(* lifted to the expression rendered for a member: when the postfix path and the destination type
   carry no marker of their own, no `@` and no `~` is left in the rendered action, wherever in the
   user's expression the markers stood (after a keyword, an identifier, inside any group) *)
Theorem quote_action_removes_markers : forall action post c,
    marker_free (flatten (match post with Some p => p | None => [] end)) = true ->
    marker_free (flatten (c_dst c)) = true ->
    marker_free (flatten (quote_action action post c)) = true.
Proof.
  intros action post c Hp Hd. unfold quote_action. apply subst_removes_markers.
  - unfold src_ident. destruct (is_from (c_kind c)); reflexivity.
  - destruct (c_impl_type c).
    + rewrite !flatten_app, !marker_free_app, Hp. unfold src_ident. destruct (is_from (c_kind c)); reflexivity.
    + rewrite !flatten_app, !marker_free_app, Hp, Hd. reflexivity.
    + exact Hp.
Qed.

(* `for x in @.items` : the marker after an identifier is replaced like any other *)
Example marker_after_identifier :
  subst [TIdent "self"] [TIdent "self"; TPunct "." false; TIdent "a"]
        [TIdent "for"; TIdent "x"; TIdent "in"; TPunct "@" false; TPunct "." false; TIdent "items"]
  = [TIdent "for"; TIdent "x"; TIdent "in"; TIdent "self"; TPunct "." false; TIdent "items"].
Proof. reflexivity. Qed.
