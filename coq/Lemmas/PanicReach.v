(* C16: which of the 30 inventoried panic sites of the model can be reached at all.  PanicFree.v shows that a model panic is
   always at one of the 30 named sites.  Here the guards are proved: for every input the model never panics at the sites the
   inventory classifies as guarded (by the surrounding control flow, by an invariant of the descent, or by validation having
   accepted the input), so every model panic is at one of the known-reachable sites - each of which is a recorded finding. *)
From Coq Require Import List String Ascii Bool Arith Lia.
From O2o.Model Require Import Tok Syn Attr Ast Lookup Validate Expand Derive.
From O2o.Gen Require Import Tables.
From O2o.Lemmas Require Import Rules Sites NoPanic PanicFree.
Import ListNotations.
Open Scope string_scope.
Open Scope list_scope.

Definition reach_sites : list string :=
  ["1"; "2"; "6"; "8"; "10"; "11"; "12"; "15"; "16"; "17"; "18"; "19"; "todo";
   "child_parents-unwrap"; "child_data-unwrap"; "field-ty-unwrap";
   (* the attempt to prove this one unreachable found finding F-16m: validation applies "Field 'x' should have type here" to struct
      fields only, an untyped nested parent on a variant payload field reaches the unwrap *) "sub_path-type-unwrap"].

Notation NPR := (NP reach_sites).

Ltac inreach := cbn; tauto.
Ltac rs_step :=
  match goal with
  | |- NP _ (Ok _) => apply NP_ok
  | |- NP _ (Err _) => apply NP_err
  | |- NP _ (Oom _) => apply NP_oom
  | |- NP _ lib_err => apply NP_lib
  | |- NP _ (Panic _) => apply NP_panic; inreach
  | |- NP _ (bind _ _) => apply NP_bind; [|intro]
  | |- NP _ (mapM _ _) => apply NP_mapM; intro
  | |- NP _ (let '(_, _) := ?x in _) => destruct x
  | |- NP _ (if ?b then _ else _) => destruct b
  | |- NP _ (match ?x with _ => _ end) => destruct x
  end.
Ltac rs := repeat rs_step.

(* ---- kinds ---- *)
Lemma from_not_intoish k : is_from k = true -> is_intoish k = false /\ is_into_existing k = false.
Proof. destruct k; cbn; intro H; try discriminate H; split; reflexivity. Qed.
Lemma intoish_not_from k : is_intoish k = true -> is_from k = false.
Proof. destruct k; cbn; intro H; try discriminate H; reflexivity. Qed.
Lemma existing_not_from k : is_into_existing k = true -> is_from k = false.
Proof. destruct k; cbn; intro H; try discriminate H; reflexivity. Qed.

(* ---- view invariants: a ghost instruction in effect is the one the ghost lookup returns ---- *)
Definition fview_inv (f : fview) : Prop := forall g, fv_attr f = Some (AGhost g) -> fv_ghost f = Some g.
Definition vview_inv (v : vview) : Prop := forall g, vv_attr v = Some (AGhost g) -> vv_ghost v = Some g.

Lemma applicable_attr_ghost m k fl ty g : applicable_attr m k fl ty = Some (AGhost g) -> m_ghost_for m ty k = Some g.
Proof.
  unfold applicable_attr. destruct (m_ghost_for m ty k) as [g'|]; [intro H; injection H as <-; reflexivity|].
  destruct (field_chain m k fl ty); cbn; intro H; discriminate H.
Qed.
Lemma view_field_inv k fl ty f : fview_inv (view_field k fl ty f).
Proof. intros g H. cbn [fv_attr fv_ghost view_field] in *. apply applicable_attr_ghost in H. exact H. Qed.
Lemma view_variant_inv k fl ty v : vview_inv (view_variant k fl ty v).
Proof. intros g H. cbn [vv_attr vv_ghost view_variant] in *. apply applicable_attr_ghost in H. exact H. Qed.

(* ---- helpers with their guards ---- *)
Lemma NPR_get_ident a : (forall g, a <> AGhost g) -> NPR (get_ident a).
Proof. intro H. unfold get_ident. destruct a as [mc|g|p k]; [rs | exfalso; exact (H g eq_refl) | rs]. Qed.

Lemma NPR_get_field_name_or a f : NPR (get_field_name_or a f).
Proof. unfold get_field_name_or. rs. Qed.
Lemma NPR_get_action_or a p c o : NPR (get_action_or a p c o).
Proof. unfold get_action_or. rs. Qed.

Lemma NPR_get_stuff a obj fp c o : (forall g, a = AGhost g -> is_some (fg_action g) = true) -> NPR (get_stuff a obj fp c o).
Proof.
  intro H. unfold get_stuff. destruct a as [mc|g|p k]; [rs | | rs].
  specialize (H g eq_refl). destruct (fg_action g); [apply NP_ok | cbn in H; discriminate H].
Qed.

Lemma NPR_nth_str l n : n < List.length l -> NPR (nth_str l n).
Proof.
  intro H. unfold nth_str. destruct (nth_error l n) eqn:E; [apply NP_ok|]. apply nth_error_None in E. lia.
Qed.

Lemma NPR_wrap_struct c h n f : NPR (wrap_struct c h n f).
Proof. unfold wrap_struct. rs. Qed.

Lemma NPR_render_ghost_line g c : is_from (c_kind c) = false -> NPR (render_ghost_line g c).
Proof.
  intro F. unfold render_ghost_line. cbv zeta. destruct (gd_ident g); [|rs].
  destruct (is_intoish (c_kind c)) eqn:E1; [rs|]. destruct (is_into_existing (c_kind c)) eqn:E2; [rs|].
  exfalso. destruct (c_kind c); cbn in *; discriminate.
Qed.

Lemma NPR_render_enum_ghost_line g c : NPR (render_enum_ghost_line g c).
Proof. unfold render_enum_ghost_line. cbv zeta. rs. Qed.

(* ---- render_struct_line: `9` and the ghost-action unwrap are guarded by the loop's skip conditions ---- *)
Lemma NPR_render_struct_line f c hint idx pc :
  fview_inv f ->
  (is_from (c_kind c) = false -> fv_ghost f = None) ->
  (forall g, fv_ghost f = Some g -> is_from (c_kind c) = true -> is_some (fg_action g) = true) ->
  NPR (render_struct_line f c hint idx pc).
Proof.
  intros Hinv Hnf Hfr. unfold render_struct_line. cbv zeta.
  destruct pc as [p|].
  - unfold get_ident, get_field_name_or, get_action_or, get_stuff. rs.
  - destruct (fv_attr f) as [[mc|g|p k]|] eqn:EA.
    + unfold get_ident, get_field_name_or, get_action_or, get_stuff. rs.
    + assert (Hg := Hinv g EA). destruct (is_from (c_kind c)) eqn:F.
      * destruct (from_not_intoish _ F) as [F1 F2]. rewrite F1, F2. cbn [andb].
        assert (Ha : is_some (fg_action g) = true) by (apply Hfr; [exact Hg | reflexivity]).
        unfold get_stuff. destruct (fg_action g) as [act|]; [|cbn in Ha; discriminate Ha]. rs.
      * rewrite (Hnf eq_refl) in Hg. discriminate Hg.
    + unfold get_ident, get_field_name_or, get_action_or, get_stuff. rs.
    + rs.
Qed.

(* ---- results that carry the remaining containers ---- *)
Definition RRp {A} (Q : A -> Prop) (r : res A) : Prop := forall a, r = Ok a -> Q a.
Lemma RRp_bind {A B} (Q1 : A -> Prop) (Q2 : B -> Prop) (r : res A) (k : A -> res B) :
  RRp Q1 r -> (forall a, Q1 a -> RRp Q2 (k a)) -> RRp Q2 (bind r k).
Proof. intros Hr Hk b E. destruct r as [a| | |]; cbn [bind] in E; try discriminate. exact (Hk a (Hr a eq_refl) b E). Qed.

Definition cinv (x : container) : Prop :=
  match fc_data x with
  | FdField f => fview_inv f /\ (forall ch, fv_child f = Some ch -> ch <> [])
  | FdGhost g => exists cp, gd_path g = Some cp /\ cp <> []
  | FdParentChild f p => fview_inv f
  end.
Definition Qr (p : list tok * list container) : Prop := Forall cinv (snd p).
Definition G (r : res (list tok * list container)) : Prop := NPR r /\ RRp Qr r.

Lemma G_ok ts rest : Forall cinv rest -> G (Ok (ts, rest)).
Proof. intro H. split; [apply NP_ok|]. intros a E. injection E as <-. exact H. Qed.
Lemma G_panic s : In s reach_sites -> G (Panic s).
Proof. intro H. split; [apply NP_panic; exact H|]. intros a E. discriminate E. Qed.
Lemma G_oom w : G (Oom w).
Proof. split; [apply NP_oom|]. intros a E. discriminate E. Qed.
Lemma G_bind {A} (Q1 : A -> Prop) (r : res A) k : NPR r -> RRp Q1 r -> (forall a, Q1 a -> G (k a)) -> G (bind r k).
Proof.
  intros Hn Hq Hk. split.
  - intros s E. destruct r as [a| |site|]; cbn [bind] in E; try discriminate; [exact (proj1 (Hk a (Hq a eq_refl)) s E)|]. injection E as <-. exact (Hn site eq_refl).
  - apply (RRp_bind Q1); [exact Hq|]. intros a Ha. exact (proj2 (Hk a Ha)).
Qed.
Lemma G_bind_G r k : G r -> (forall ts rest, Forall cinv rest -> G (k (ts, rest))) -> G (bind r k).
Proof. intros [Hn Hq] Hk. apply (G_bind Qr); [exact Hn | exact Hq|]. intros [ts rest] H. apply Hk. exact H. Qed.
Lemma RRp_true {A} (r : res A) : RRp (fun _ => True) r.
Proof. intros a _. exact Logic.I. Qed.

Lemma Forall_tl' {A} (Q : A -> Prop) l : Forall Q l -> Forall Q (tl l).
Proof. destruct 1; [constructor | assumption]. Qed.

Lemma child_path_strs_aux_length : forall l pre first, List.length (child_path_strs_aux pre first l) = List.length l.
Proof. induction l as [|m r IH]; intros pre first; cbn [child_path_strs_aux List.length]; [reflexivity|]. rewrite IH. reflexivity. Qed.
Lemma child_path_strs_length l : List.length (child_path_strs l) = List.length l.
Proof. apply child_path_strs_aux_length. Qed.

Definition fc_wf (fc : option fctx) : Prop :=
  match fc with Some (cp, _, d) => d < List.length cp | None => True end.

(* ---- the while loop ---- *)
Lemma G_member_loop (c : ictx) fc hint cf gf pf :
  fc_wf fc ->
  (forall ch ms line, ch <> [] -> Forall cinv ms -> NPR line -> G (cf ch ms line)) ->
  (forall cp ms, cp <> [] -> Forall cinv ms -> G (gf cp ms)) ->
  (forall f p ms line, Forall cinv ms -> NPR line -> G (pf f p ms line)) ->
  forall n members idx acc, Forall cinv members -> G (member_loop c fc hint cf gf pf n members idx acc).
Proof.
  intros Hfc Hcf Hgf Hpf. induction n as [|n IH]; intros members idx acc Hms; cbn [member_loop]; [apply G_oom|].
  destruct members as [|m rest]; [apply G_ok; constructor|].
  inversion Hms as [|? ? Hm Hrest]; subst.
  apply (G_bind (fun _ : bool => True)); [|apply RRp_true|].
  { destruct fc as [[[cp o] depth]|]; [|apply NP_ok]. cbn [fc_wf] in Hfc.
    apply NP_bind; [apply NPR_nth_str; rewrite child_path_strs_length; exact Hfc|]. intro p. apply NP_ok. }
  intros brk _. destruct brk; [apply G_ok; exact Hms|].
  unfold cinv in Hm. destruct (fc_data m) as [f|g|f p].
  - destruct Hm as [Hinv Hch].
    assert (Hline : forall pc : unit, (is_from (c_kind c) = false -> fv_ghost f = None) ->
                               (forall g, fv_ghost f = Some g -> is_from (c_kind c) = true -> is_some (fg_action g) = true) ->
                               G ('(frag, rest') <- match fv_child f with
                                                    | Some ch => cf ch (m :: rest) (render_struct_line f c hint idx None)
                                                    | None => line <- render_struct_line f c hint idx None;; Ok (line, rest)
                                                    end;; member_loop c fc hint cf gf pf n rest' (S idx) (acc ++ frag))).
    { intros _ H1 H2. assert (HL : NPR (render_struct_line f c hint idx None)) by (apply NPR_render_struct_line; assumption).
      apply G_bind_G.
      - destruct (fv_child f) as [ch|] eqn:Ech; [apply Hcf; [apply Hch; reflexivity | exact Hms | exact HL]|].
        apply (G_bind (fun _ : list tok => True)); [exact HL | apply RRp_true|]. intros line _. apply G_ok. exact Hrest.
      - intros frag rest' Hr. apply IH. exact Hr. }
    destruct (is_from (c_kind c)) eqn:F; destruct (fv_ghost f) as [g|] eqn:EG; cbn [negb andb orb is_some].
    + destruct (is_some (fg_action g)) eqn:EA; cbn [negb]; [|apply IH; exact Hrest].
      apply (Hline tt); [intro X; discriminate X|]. intros g' E _. injection E as <-. exact EA.
    + apply (Hline tt); [intro X; discriminate X|]. intros g' E _. discriminate E.
    + apply IH. exact Hrest.
    + destruct (fv_has_parent f); [apply IH; exact Hrest|]. apply (Hline tt); [reflexivity|]. intros g' E X. discriminate X.
  - destruct Hm as (cp & Ecp & Hne). rewrite Ecp. apply G_bind_G; [apply Hgf; assumption|]. intros frag rest' Hr. apply IH. exact Hr.
  - apply G_bind_G.
    + apply Hpf; [exact Hms|]. unfold render_struct_line. cbv zeta. unfold get_ident, get_field_name_or, get_action_or, get_stuff. rs.
    + intros frag rest' Hr. apply IH. exact Hr.
Qed.

(* ---- the descent: every index is in range, every path non-empty ---- *)
Definition sview_inv (s : sview) : Prop :=
  Forall (fun f => fview_inv f /\ (forall ch, fv_child f = Some ch -> ch <> [])) (sv_fields s).

Section Descent.
  Variable s : sview.
  Variable c : ictx.

  Lemma G_init_mutual : forall fuel,
    (forall members named fc, Forall cinv members -> fc_wf fc -> G (init_inner s c fuel members named fc)) /\
    (forall cp members depth hint line, cp <> [] -> Forall cinv members -> NPR line ->
                                        G (child_fragment s c fuel cp members depth hint line)) /\
    (forall cd members named cp depth hint, depth < List.length cp -> Forall cinv members ->
                                            G (render_child s c fuel cd members named cp depth hint)) /\
    (forall f p members named depth line, Forall cinv members -> NPR line ->
                                          G (parent_child_fragment s c fuel f p members named depth line)).
  Proof.
    induction fuel as [|fuel [IHi [IHc [IHr IHp]]]].
    - split; [|split; [|split]]; intros; cbn; apply G_oom.
    - split; [|split; [|split]].
      + intros members named fc Hms Hfc. rewrite init_inner_S. cbv zeta.
        apply G_bind_G.
        * apply G_member_loop; try assumption.
          -- intros ch ms line Hch Hm Hl. apply IHc; assumption.
          -- intros cp ms Hcp Hm. apply IHc; [assumption | assumption | apply NP_ok].
          -- intros f p ms line Hm Hl. apply IHp; assumption.
        * intros frags rest Hrest.
          apply (G_bind (fun _ : list (list tok) => True)); [|apply RRp_true|].
          { destruct (is_from (c_kind c)) eqn:F; cbn [negb]; [apply NP_ok|].
            destruct (sv_ghosts s) as [ga|]; [|apply NP_ok].
            apply NP_mapM. intro x. destruct (gd_path x) as [gp|], fc as [[[cp o] depth]|]; try apply NP_ok; try (apply NPR_render_ghost_line; exact F).
            cbn [fc_wf] in Hfc. apply NP_bind; [apply NPR_nth_str; rewrite child_path_strs_length; exact Hfc|]. intro pstr.
            destruct (String.eqb (child_path_last gp) pstr); [apply NPR_render_ghost_line; exact F | apply NP_ok]. }
          intros ghosts _.
          apply (G_bind (fun _ : list tok => True)); [apply NPR_wrap_struct | apply RRp_true|]. intros toks _. apply G_ok. exact Hrest.
      + intros cp members depth hint line Hcp Hms Hl. rewrite child_fragment_S. cbv zeta.
        assert (Hline : G (l <- line;; Ok (l, tl members))).
        { apply (G_bind (fun _ : list tok => True)); [exact Hl | apply RRp_true|]. intros l _. apply G_ok. apply Forall_tl'. exact Hms. }
        assert (Hlen : 0 < List.length cp) by (destruct cp; [contradiction Hcp; reflexivity | cbn; lia]).
        destruct (match depth with None => true | Some d => Nat.ltb d (List.length (child_path_strs cp) - 1) end) eqn:Ed; [|exact Hline].
        assert (Hnd : (match depth with None => 0 | Some d => S d end) < List.length cp).
        { destruct depth as [d|]; [|exact Hlen]. apply Nat.ltb_lt in Ed. rewrite child_path_strs_length in Ed. lia. }
        destruct (is_intoish (c_kind c)).
        * destruct (sv_child_parents s) as [cpa|]; [|apply G_panic; inreach].
          apply (G_bind (fun _ : string => True)); [apply NPR_nth_str; rewrite child_path_strs_length; exact Hnd | apply RRp_true|]. intros pstr _.
          destruct (find (fun x => String.eqb (cd_str x) pstr) (ca_data cpa)) as [cd|]; [|apply G_panic; inreach].
          apply IHr; assumption.
        * destruct (is_into_existing (c_kind c)); [|exact Hline].
          apply (G_bind (fun _ : string => True)); [apply NPR_nth_str; rewrite child_path_strs_length; exact Hnd | apply RRp_true|]. intros pstr _.
          apply IHi; [exact Hms | cbn [fc_wf]; exact Hnd].
      + intros cd members named cp depth hint Hd Hms. rewrite render_child_S.
        destruct (nth_error cp depth) as [name|] eqn:E; [|apply nth_error_None in E; lia].
        apply G_bind_G; [apply IHi; [exact Hms | cbn [fc_wf]; exact Hd]|]. intros init rest Hr. cbv zeta.
        destruct (c_named c), hint; try (apply G_panic; inreach); apply G_ok; exact Hr.
      + intros f p members named depth line Hms Hl. rewrite parent_child_fragment_S. cbv zeta.
        assert (Hline : G (l <- line;; Ok (l, tl members))).
        { apply (G_bind (fun _ : list tok => True)); [exact Hl | apply RRp_true|]. intros l _. apply G_ok. apply Forall_tl'. exact Hms. }
        destruct (match depth with None => true | Some d => Nat.ltb d (List.length (pc_sub p)) end) eqn:Ed; [|exact Hline].
        destruct (is_from (c_kind c)); [|exact Hline].
        apply (G_bind (fun _ : list tok => True)); [|apply RRp_true|].
        { destruct depth as [d|].
          - apply Nat.ltb_lt in Ed. destruct (nth_error (pc_sub p) d) as [[m [t|]]|] eqn:E; [apply NP_ok | | apply nth_error_None in E; lia].
            apply NP_panic; inreach.
          - destruct (fv_ty f); [apply NP_ok | apply NP_panic; inreach]. }
        intros ty _. apply IHr; [|exact Hms]. cbn [List.length]. rewrite map_length.
        destruct depth as [d|]; [apply Nat.ltb_lt in Ed; lia | lia].
  Qed.
End Descent.

(* ---- the containers handed to the descent ---- *)
Lemma position_none s : forall l, position s l = None -> ~ In s l.
Proof.
  induction l as [|x r IH]; cbn [position]; [intros _ []|].
  destruct (String.eqb x s) eqn:E; [discriminate|]. destruct (position s r); [discriminate|]. intros _ [H|H].
  - subst x. rewrite String.eqb_refl in E. discriminate E.
  - exact (IH eq_refl H).
Qed.

(* a ghost entry becomes a container only when its path opens a new group, i.e. is none of the groups seen so far ("" is one) *)
Lemma assign_groups_new items : forall groups, In "" groups ->
  Forall (fun x => fc_path x <> "") (fst (assign_groups items groups true)).
Proof.
  induction items as [|[p d] items IH]; intros groups Hin; cbn [assign_groups]; [constructor|].
  destruct (group_of groups p) as [g|] eqn:E.
  - specialize (IH groups Hin). destruct (assign_groups items groups true) as [cs gs]. exact IH.
  - assert (Hp : p <> ""). { intro X. subst p. exact (position_none _ _ E Hin). }
    specialize (IH (groups ++ [p]) (in_or_app _ _ _ (or_introl Hin))). destruct (assign_groups items (groups ++ [p]) true) as [cs gs]. cbn [fst] in *.
    constructor; [exact Hp | exact IH].
Qed.

Lemma assign_groups_from items : forall groups only_new x,
  In x (fst (assign_groups items groups only_new)) -> In (fc_path x, fc_data x) items.
Proof.
  induction items as [|[p d] items IH]; intros groups only_new x; cbn [assign_groups]; [intros []|].
  destruct (group_of groups p) as [g|].
  - specialize (IH groups only_new x). destruct (assign_groups items groups only_new) as [cs gs]. cbn [fst] in *.
    intro H. apply in_app_or in H. destruct H as [H|H]; [|right; exact (IH H)]. destruct only_new; [destruct H|]. destruct H as [<-|[]]. left. reflexivity.
  - specialize (IH (groups ++ [p]) only_new x). destruct (assign_groups items (groups ++ [p]) only_new) as [cs gs]. cbn [fst] in *.
    intros [<-|H]; [left; reflexivity | right; exact (IH H)].
Qed.

Lemma assign_groups_groups items : forall groups only_new, incl groups (snd (assign_groups items groups only_new)).
Proof.
  induction items as [|[p d] items IH]; intros groups only_new; cbn [assign_groups]; [apply incl_refl|].
  destruct (group_of groups p) as [g|].
  - specialize (IH groups only_new). destruct (assign_groups items groups only_new) as [cs gs]. exact IH.
  - specialize (IH (groups ++ [p]) only_new). destruct (assign_groups items (groups ++ [p]) only_new) as [cs gs]. cbn [snd] in *.
    intros y Hy. apply IH. apply in_or_app. left. exact Hy.
Qed.

Lemma child_path_last_nil : child_path_last [] = "".
Proof. reflexivity. Qed.

Lemma sorted_containers_inv s : sview_inv s -> Forall cinv (sorted_containers s).
Proof.
  intro Hs. unfold sorted_containers.
  destruct (assign_groups (field_items s) [""] false) as [c1 g1] eqn:E1.
  destruct (assign_groups (ghost_items s) g1 true) as [c2 g2] eqn:E2.
  apply Forall_flat_map. rewrite Forall_forall. intros g _. rewrite Forall_forall. intros x Hx. apply filter_In in Hx. destruct Hx as [Hx _].
  apply in_app_or in Hx. destruct Hx as [Hx|Hx].
  - assert (H := assign_groups_from (field_items s) [""] false x). rewrite E1 in H. specialize (H Hx).
    unfold field_items in H. apply in_flat_map in H. destruct H as (f & Hf & Hin). unfold sview_inv in Hs. rewrite Forall_forall in Hs. specialize (Hs f Hf).
    unfold cinv. destruct (fv_pparent f) as [ps|].
    + apply in_map_iff in Hin. destruct Hin as (p & Ep & _). injection Ep as _ <-. exact (proj1 Hs).
    + destruct Hin as [Ep|[]]. injection Ep as _ <-. exact Hs.
  - assert (Hg1 : In "" g1). { assert (H := assign_groups_groups (field_items s) [""] false). rewrite E1 in H. apply H. left. reflexivity. }
    assert (Hne := assign_groups_new (ghost_items s) g1 Hg1). rewrite E2 in Hne. cbn [fst] in Hne. rewrite Forall_forall in Hne. specialize (Hne x Hx).
    assert (H := assign_groups_from (ghost_items s) g1 true x). rewrite E2 in H. specialize (H Hx).
    unfold ghost_items in H. destruct (sv_ghosts s) as [gs|]; [|destruct H]. apply in_map_iff in H. destruct H as (gd & Ep & _).
    injection Ep as Epath Edata. unfold cinv. rewrite <- Edata. destruct (gd_path gd) as [cp|].
    + exists cp. split; [reflexivity|]. intro X. subst cp. apply Hne. rewrite <- Epath. reflexivity.
    + exfalso. apply Hne. rewrite <- Epath. reflexivity.
Qed.

Lemma NPR_struct_init_block s c : sview_inv s -> NPR (struct_init_block s c).
Proof.
  intro Hs. unfold struct_init_block. destruct (_ || _); [apply NP_ok|]. cbv zeta.
  destruct (G_init_mutual s c (4 * (List.length (sorted_containers s) + 2) * (max_path_len (sorted_containers s) + 2))) as [Hi _].
  destruct (Hi (sorted_containers s) (sv_named s) None (sorted_containers_inv s Hs) Logic.I) as [Hn _].
  apply NP_bind; [exact Hn|]. intros [toks r]. apply NP_ok.
Qed.

(* ---- enums ---- *)
Lemma NP_drop {A} L s (r : res A) : NP (s :: L) r -> r <> Panic s -> NP L r.
Proof. intros H Hne s' E. destruct (H s' E) as [<-|Hin]; [exfalso; exact (Hne E) | exact Hin]. Qed.

Lemma NP_mapM_in {A B} L (f : A -> res B) l : (forall x, In x l -> NP L (f x)) -> NP L (mapM f l).
Proof.
  induction l as [|x l IH]; intro H; cbn [mapM]; [apply NP_ok|].
  apply NP_bind; [apply H; left; reflexivity|]. intro y. apply NP_bind; [apply IH; intros z Hz; apply H; right; exact Hz|]. intro ys. apply NP_ok.
Qed.

Lemma NPR_variant_destruct_block s c : NPR (variant_destruct_block s c).
Proof.
  apply (NP_drop reach_sites "4"); [|apply destruct_form_total].
  apply NP_variant_destruct_block; cbn; tauto.
Qed.

Definition vinv (v : vview) : Prop := vview_inv v /\ sview_inv (vv_struct v).

Lemma NPR_render_enum_line v c :
  sview_inv (vv_struct v) ->
  (forall g, vv_attr v = Some (AGhost g) -> is_intoish (c_kind c) = true -> is_some (fg_action g) = true) ->
  NPR (render_enum_line v c).
Proof.
  intros Hs Hg. unfold render_enum_line. cbv zeta.
  apply NP_bind.
  { repeat match goal with |- NP _ (if ?b then _ else _) => destruct b end; try apply NP_ok. apply NPR_variant_destruct_block. }
  intro destr. apply NP_bind.
  { destruct (_ || _); [apply NP_ok|]. apply NPR_struct_init_block. exact Hs. }
  intro init.
  destruct (vv_attr v) as [a|] eqn:EA, (vv_lit v) as [lit|], (vv_pat v) as [pat|].
  all: repeat match goal with
         | |- NP _ (if ?b then _ else _) => destruct b eqn:?
         | |- NP _ (Panic _) => apply NP_panic; inreach
         | |- NP _ (Ok _) => apply NP_ok
         | |- NP _ (bind (get_action_or _ _ _ _) _) => apply NP_bind; [apply NPR_get_action_or | intro]
         | |- NP _ (bind (get_field_name_or _ _) _) => apply NP_bind; [apply NPR_get_field_name_or | intro]
         | |- NP _ (bind (get_stuff _ _ _ _ _) _) => apply NP_bind; [apply NPR_get_stuff; intros ? ->; apply Hg; first [reflexivity | assumption] | intro]
         end.
Qed.

Lemma NPR_enum_init_block vs ghosts c : Forall vinv vs -> NPR (enum_init_block vs ghosts c).
Proof.
  intro Hvs. unfold enum_init_block. cbv zeta.
  apply NP_bind.
  { apply NP_mapM_in. intros v Hv. rewrite Forall_forall in Hvs. destruct (Hvs v Hv) as [Hvi Hsi].
    destruct (is_from (c_kind c)) eqn:F; cbn [negb andb].
    - destruct (is_some (vv_ghost v)); [apply NP_ok|]. apply NPR_render_enum_line; [exact Hsi|].
      intros g _ EI. apply intoish_not_from in EI. rewrite F in EI. discriminate EI.
    - destruct (vv_ghost v) as [g0|] eqn:EG.
      + destruct (is_some (fg_action g0)) eqn:EA; cbn [negb]; [|apply NP_ok]. apply NPR_render_enum_line; [exact Hsi|].
        intros g E _. apply Hvi in E. rewrite EG in E. injection E as <-. exact EA.
      + apply NPR_render_enum_line; [exact Hsi|]. intros g E _. apply Hvi in E. rewrite EG in E. discriminate E. }
  intro vfr. apply NP_bind.
  { destruct ghosts; [|apply NP_ok]. apply NP_mapM. intro x. apply NPR_render_enum_ghost_line. }
  intro gfr. apply NP_ok.
Qed.

(* ---- bodies ---- *)
Definition dinv (d : dview) : Prop :=
  match d with
  | VStruct s => sview_inv s
  | VEnum vs _ => Forall vinv vs /\ Forall (fun v => vv_has_pl_parent v = false) vs
  end.

Lemma NPR_data_main_code_block d c : dinv d -> NPR (data_main_code_block d c).
Proof.
  intro Hd. unfold data_main_code_block, struct_main_code_block, enum_main_code_block. destruct d as [s|vs g]; cbn [dinv] in Hd.
  - apply NP_bind; [apply NPR_struct_init_block; exact Hd|]. intro init. rs.
  - apply NP_bind; [apply NPR_enum_init_block; exact (proj1 Hd)|]. intro init. rs.
Qed.
Lemma NPR_main_code_block d c : dinv d -> NPR (main_code_block d c).
Proof. intro Hd. unfold main_code_block. destruct (tc_qret (c_core c)); [apply NP_ok | apply NPR_data_main_code_block; exact Hd]. Qed.
Lemma NPR_main_code_block_ok d c : dinv d -> NPR (main_code_block_ok d c).
Proof.
  intro Hd. unfold main_code_block_ok. destruct (tc_qret (c_core c)); [apply NP_ok|].
  apply NP_bind; [apply NPR_data_main_code_block; exact Hd|]. intro inner. rs.
Qed.

Lemma NPR_render_parent f c : is_from (c_kind c) = false -> NPR (render_parent f c).
Proof. intro F. destruct (render_parent_total f c F) as [ts E]. rewrite E. apply NP_ok. Qed.

Lemma NPR_struct_post_init d c : dinv d -> NPR (struct_post_init d c).
Proof.
  intro Hd. unfold struct_post_init. destruct (is_from (c_kind c)) eqn:F; [apply NP_ok|].
  apply NP_bind.
  - destruct d as [s|vs g]; cbn [dinv] in Hd.
    + apply NP_mapM. intro f. destruct (fv_has_pl_parent f); [apply NPR_render_parent; exact F | apply NP_ok].
    + apply NP_mapM_in. intros v Hv. destruct Hd as [_ Hp]. rewrite Forall_forall in Hp. rewrite (Hp v Hv). apply NP_ok.
  - intro frags. rs.
Qed.

Lemma NPR_err_env c : tc_err (c_core c) <> None -> NPR (err_env c).
Proof. intro H. unfold err_env. destruct (tc_err (c_core c)); [apply NP_ok | contradiction H; reflexivity]. Qed.

Lemma NPR_quote_trait t c0 :
  dinv (tv_data t) -> (c_fallible c0 = true -> tc_err (c_core c0) <> None) -> NPR (quote_trait t c0).
Proof.
  intros Hd He. unfold quote_trait. cbv zeta.
  apply NP_bind; [destruct (is_some (tc_qret (c_core c0))); [apply NP_ok | apply NPR_struct_post_init; exact Hd]|]. intro post.
  repeat match goal with
         | |- NP _ (if ?b then _ else _) => destruct b eqn:?
         | |- NP _ (bind (main_code_block _ _) _) => apply NP_bind; [apply NPR_main_code_block; exact Hd | intro]
         | |- NP _ (bind (main_code_block_ok _ _) _) => apply NP_bind; [apply NPR_main_code_block_ok; exact Hd | intro]
         | |- NP _ (bind (err_env _) _) => apply NP_bind; [apply NPR_err_env; cbn [c_core]; apply He; assumption | intro]
         | |- NP _ (Ok _) => apply NP_ok
         end.
Qed.

(* ---- what parsing guarantees: child paths are non-empty, the error-instruction lists hold error instructions only ---- *)
Definition wf_mb (i : mb_instr) : Prop := match i with MChild a => ch_path a <> [] | _ => True end.
Definition mwf (m : member_attrs) : Prop :=
  Forall (fun a => ch_path a <> []) (m_child m) /\ forallb is_err_mb (m_errs m) = true.

Lemma bind_ok {A B} (r : res A) (k : A -> res B) b : bind r k = Ok b -> exists a, r = Ok a /\ k a = Ok b.
Proof. destruct r as [a| | |]; cbn [bind]; intro H; try discriminate H. exists a. split; [reflexivity | exact H]. Qed.

Lemma sep_nonempty {A} (elem : parser A) c : forall fuel ts l r, parse_separated_nonempty elem c fuel ts = Ok (l, r) -> l <> [].
Proof.
  destruct fuel as [|f]; intros ts l r H; cbn [parse_separated_nonempty] in H; [discriminate|].
  apply bind_ok in H. destruct H as ([v rest] & _ & H). cbv zeta in H.
  destruct (peek_punct c rest).
  - apply bind_ok in H. destruct H as ([vs r2] & _ & H). injection H as <- _. discriminate.
  - injection H as <- _. discriminate.
Qed.

Lemma parse_child_attr_ne be ts a : parse_child_attr be ts = Ok a -> ch_path a <> [].
Proof.
  unfold parse_child_attr. intro H. apply bind_ok in H. destruct H as ([ty r1] & _ & H). cbv zeta in H.
  apply bind_ok in H. destruct H as (p & Hp & H). injection H as <-. cbn [ch_path].
  unfold finish in Hp. apply bind_ok in Hp. destruct Hp as ([p' rest] & Hs & Hp). cbv zeta in Hp.
  destruct (is_empty rest); [|discriminate Hp]. injection Hp as <-. exact (sep_nonempty _ _ _ _ _ _ Hs).
Qed.

Lemma parse_member_instruction_wf be n ts own bark i : parse_member_instruction be n ts own bark = Ok i -> wf_mb i.
Proof.
  unfold parse_member_instruction. destruct (find_arm mb_arms n own bark) as [[cl slots]|]; [|discriminate].
  destruct cl; intro H;
    try (apply bind_ok in H; destruct H as (a & Ha & H)); injection H as <-; cbn [wf_mb]; try exact Logic.I.
  exact (parse_child_attr_ne be ts a Ha).
Qed.

Lemma parse_terminated_all {A} (Q : A -> Prop) (elem : parser A) :
  (forall ts a r, elem ts = Ok (a, r) -> Q a) -> forall fuel ts l, parse_terminated elem fuel ts = Ok l -> Forall Q l.
Proof.
  intro He. induction fuel as [|f IH]; intros ts l H; cbn [parse_terminated] in H; [discriminate|].
  destruct (is_empty ts); [injection H as <-; constructor|].
  apply bind_ok in H. destruct H as ([v rest] & Hv & H). cbv zeta in H.
  destruct (is_empty rest); [injection H as <-; constructor; [exact (He _ _ _ Hv) | constructor]|].
  apply bind_ok in H. destruct H as ([u rest1] & _ & H). cbv zeta in H.
  apply bind_ok in H. destruct H as (vs & Hvs & H). injection H as <-. constructor; [exact (He _ _ _ Hv) | exact (IH _ _ Hvs)].
Qed.

Lemma o2o_item_wf be ts i r : o2o_item be (parse_member_instruction be) ts = Ok (i, r) -> wf_mb i.
Proof.
  unfold o2o_item. intro H. apply bind_ok in H. destruct H as ([instr r1] & _ & H). cbv zeta in H.
  apply bind_ok in H. destruct H as ([content r2] & _ & H). cbv zeta in H.
  apply bind_ok in H. destruct H as (i' & Hi & H). injection H as <- _. exact (parse_member_instruction_wf _ _ _ _ _ _ Hi).
Qed.

Lemma mb_instrs_wf be : forall attrs bark l, mb_instrs be attrs bark = Ok l -> Forall wf_mb l.
Proof.
  induction attrs as [|a rest IH]; intros bark l H; cbn [mb_instrs] in H; [injection H as <-; constructor|].
  destruct (ra_path a) as [p|]; [|exact (IH _ _ H)]. destruct (String.eqb p "doc"); [exact (IH _ _ H)|].
  destruct (String.eqb p "o2o").
  - apply bind_ok in H. destruct H as (content & _ & H). apply bind_ok in H. destruct H as (news & Hn & H).
    apply bind_ok in H. destruct H as (more & Hm & H). injection H as <-. apply Forall_app. split; [|exact (IH _ _ Hm)].
    apply (parse_terminated_all wf_mb _ (fun ts i r => o2o_item_wf be ts i r) _ _ _ Hn).
  - apply bind_ok in H. destruct H as (toks & _ & H). apply bind_ok in H. destruct H as (i & Hi & H).
    apply bind_ok in H. destruct H as (more & Hm & H). injection H as <-. constructor; [exact (parse_member_instruction_wf _ _ _ _ _ _ Hi) | exact (IH _ _ Hm)].
Qed.

Lemma collect_member_attrs_wf ty : forall instrs acc m,
    collect_member_attrs ty instrs acc = Ok m -> Forall wf_mb instrs -> mwf acc -> mwf m.
Proof.
  induction instrs as [|i rest IH]; intros acc m H Hi Hacc; cbn [collect_member_attrs] in H; [injection H as <-; exact Hacc|].
  inversion Hi as [|? ? Hi1 Hi2]; subst. destruct Hacc as [Hc He].
  destruct i; try (destruct ty; [|discriminate H]);
    (eapply IH; [exact H | exact Hi2 | split; cbn [m_child m_errs]; try exact Hc; try exact He]).
  - apply Forall_app. split; [exact Hc | constructor; [exact Hi1 | constructor]].
  - rewrite forallb_app, He. reflexivity.
  - rewrite forallb_app, He. reflexivity.
  - rewrite forallb_app, He. reflexivity.
Qed.

Lemma get_member_attrs_wf be ty attrs bark m : get_member_attrs be ty attrs bark = Ok m -> mwf m.
Proof.
  unfold get_member_attrs. intro H. apply bind_ok in H. destruct H as (instrs & Hi & H).
  eapply collect_member_attrs_wf; [exact H | exact (mb_instrs_wf _ _ _ _ Hi) | split; [constructor | reflexivity]].
Qed.

Lemma merge_wf a b : mwf a -> mwf b -> mwf (merge_member_attrs a b).
Proof.
  intros [Ha1 Ha2] [Hb1 Hb2]. unfold merge_member_attrs. destruct (m_skip a); [split; assumption|].
  destruct (m_repeat b) as [r|]; [|split; assumption]. split; cbn [m_child m_errs]; [|exact Ha2].
  apply Forall_app. split; [exact Ha1|]. destruct (rep_flag r 1); [exact Hb1 | constructor].
Qed.

Definition opt_mwf {C} (get : C -> member_attrs) (ctx : option C) : Prop :=
  match ctx with Some c => mwf (get c) | None => True end.

Lemma thread_repeat_wf {C} (mk : member_attrs -> mrepeat_attr -> C) (get : C -> member_attrs) ctx attrs ctx' attrs' :
  (forall a r, mwf a -> mwf (get (mk a r))) ->
  thread_repeat mk get ctx attrs = Ok (ctx', attrs') -> opt_mwf get ctx -> mwf attrs -> opt_mwf get ctx' /\ mwf attrs'.
Proof.
  intros Hmk H Hctx Ha. unfold thread_repeat in H. cbv zeta in H.
  assert (Hctx1 : opt_mwf get (if m_stop attrs then None else ctx)) by (destruct (m_stop attrs); [exact Logic.I | exact Hctx]).
  destruct (m_repeat attrs) as [r|].
  - destruct (if m_stop attrs then None else ctx) as [c1|].
    + destruct (negb (m_stop attrs)); [discriminate H|]. injection H as <- <-. split; [cbn [opt_mwf]; apply Hmk; exact Ha | exact Ha].
    + injection H as <- <-. split; [cbn [opt_mwf]; apply Hmk; exact Ha | exact Ha].
  - destruct (if m_stop attrs then None else ctx) as [c1|] eqn:E.
    + injection H as <- <-. split; [exact Hctx1 | apply merge_wf; [exact Ha | exact Hctx1]].
    + injection H as <- <-. split; [exact Logic.I | exact Ha].
Qed.

Definition field_wf (f : field) : Prop := mwf (f_attrs f).

Lemma fields_from_syn_wf be bark : forall fs ctx i fields ctx',
    fields_from_syn be bark ctx i fs = Ok (fields, ctx') -> opt_mwf fst ctx -> Forall field_wf fields /\ opt_mwf fst ctx'.
Proof.
  induction fs as [|rf rest IH]; intros ctx i fields ctx' H Hctx; cbn [fields_from_syn] in H; [injection H as <- <-; split; [constructor | exact Hctx]|].
  apply bind_ok in H. destruct H as (attrs & Ha & H). apply bind_ok in H. destruct H as ([c1 a1] & Ht & H). cbv zeta in H.
  apply bind_ok in H. destruct H as ([more c2] & Hm & H). injection H as <- <-.
  destruct (thread_repeat_wf _ _ _ _ _ _ (fun a r Hx => Hx) Ht Hctx (get_member_attrs_wf _ _ _ _ _ Ha)) as [H1 H2].
  destruct (IH _ _ _ _ Hm H1) as [H3 H4]. split; [constructor; [exact H2 | exact H3] | exact H4].
Qed.

Definition variant_wf (v : variant) : Prop := mwf (v_attrs v) /\ Forall field_wf (v_fields v).

Lemma variants_from_syn_wf be bark : forall vs vctx fctx variants,
    variants_from_syn be bark vctx fctx vs = Ok variants -> opt_mwf (fun a => a) vctx -> opt_mwf fst fctx -> Forall variant_wf variants.
Proof.
  induction vs as [|rv rest IH]; intros vctx fctx variants H Hv Hf; cbn [variants_from_syn] in H; [injection H as <-; constructor|].
  apply bind_ok in H. destruct H as ([fields fctx1] & Hfs & H). cbv zeta in H.
  apply bind_ok in H. destruct H as (attrs & Ha & H). apply bind_ok in H. destruct H as ([vctx' attrs'] & Ht & H). cbv zeta in H.
  apply bind_ok in H. destruct H as (more & Hm & H). injection H as <-.
  destruct (fields_from_syn_wf _ _ _ _ _ _ _ Hfs Hf) as [H1 H2].
  destruct (thread_repeat_wf _ _ _ _ _ _ (fun a r Hx => Hx) Ht Hv (get_member_attrs_wf _ _ _ _ _ Ha)) as [H3 H4].
  constructor; [split; [exact H4 | exact H1]|]. apply (IH _ _ _ Hm H3). destruct fctx1 as [[a [|]]|]; [exact H2 | exact Logic.I | exact Logic.I].
Qed.

Definition data_wf (d : data_type) : Prop :=
  forallb is_err_dt (d_errs (dt_get_attrs d)) = true /\
  match d with DStruct s => Forall field_wf (s_fields s) | DEnum e => Forall variant_wf (e_variants e) end.

Lemma get_data_type_attrs_errs be attrs d bark : get_data_type_attrs be attrs = Ok (d, bark) -> forallb is_err_dt (d_errs d) = true.
Proof.
  unfold get_data_type_attrs. intro H. apply bind_ok in H. destruct H as ([instrs b] & _ & H). cbv zeta in H.
  apply bind_ok in H. destruct H as (d0 & Hd & H). injection H as <- _. exact (collect_dt_errs _ _ _ _ Hd eq_refl).
Qed.

Lemma parse_input_wf be x d : parse_input be x = Ok d -> data_wf d.
Proof.
  unfold parse_input. destruct (ri_data x) as [sh fs|vs|]; intro H; [| |discriminate H].
  - apply bind_ok in H. destruct H as (s & Hs & H). injection H as <-. unfold struct_from_syn in Hs.
    apply bind_ok in Hs. destruct Hs as ([attrs bark] & Ha & Hs). cbv zeta in Hs.
    apply bind_ok in Hs. destruct Hs as ([fields c'] & Hf & Hs). injection Hs as <-. split; cbn [dt_get_attrs s_attrs s_fields].
    + exact (get_data_type_attrs_errs _ _ _ _ Ha).
    + exact (proj1 (fields_from_syn_wf _ _ _ _ _ _ _ Hf Logic.I)).
  - apply bind_ok in H. destruct H as (e & He & H). injection H as <-. unfold enum_from_syn in He.
    apply bind_ok in He. destruct He as ([attrs bark] & Ha & He). cbv zeta in He.
    apply bind_ok in He. destruct He as (variants & Hv & He). injection He as <-. split; cbn [dt_get_attrs e_attrs e_variants].
    + exact (get_data_type_attrs_errs _ _ _ _ Ha).
    + exact (variants_from_syn_wf _ _ _ _ _ _ Hv Logic.I Logic.I).
Qed.

(* ---- validation never reaches "13" / "14" on a parsed input ---- *)
Lemma NPR_validate_error_instrs e d : forallb is_err_dt (d_errs d) = true -> NPR (validate_error_instrs e d).
Proof.
  intro H. unfold validate_error_instrs. apply NP_mapM_in. intros x Hx. rewrite forallb_forall in H. specialize (H x Hx).
  destruct x; cbn in H; try discriminate H; rs.
Qed.
Lemma NPR_validate_member_error_instrs e m : forallb is_err_mb (m_errs m) = true -> NPR (validate_member_error_instrs e m).
Proof.
  intro H. unfold validate_member_error_instrs. apply NP_mapM_in. intros x Hx. rewrite forallb_forall in H. specialize (H x Hx).
  destruct x; cbn in H; try discriminate H; rs.
Qed.

Lemma NPR_validate_msgs o d : data_wf d -> NPR (validate_msgs o d).
Proof.
  intros [He Hm]. unfold validate_msgs. cbv zeta.
  apply NP_bind; [apply NPR_validate_error_instrs; exact He|]. intro m1.
  apply NP_bind; [|intro m6; apply NP_ok].
  destruct d as [s|e]; apply NP_mapM_in; intros x Hx; rewrite Forall_forall in Hm; specialize (Hm x Hx);
    unfold validate_member; cbv zeta; (apply NP_bind; [apply NPR_validate_member_error_instrs; apply Hm | intro errs; apply NP_ok]).
Qed.

(* ---- the views of a parsed input satisfy the invariants of the descent ---- *)
Lemma find_for_in {A} ty_of ok (l : list A) ty x : find_for ty_of ok l ty = Some x -> In x l.
Proof.
  unfold find_for. destruct (find _ l) as [y|] eqn:E1; [intro H; injection H as <-; exact (proj1 (find_some _ _ E1))|].
  intro H. exact (proj1 (find_some _ _ H)).
Qed.

Lemma view_field_finv k fl ty f : field_wf f ->
  fview_inv (view_field k fl ty f) /\ (forall ch, fv_child (view_field k fl ty f) = Some ch -> ch <> []).
Proof.
  intros [Hc _]. split; [apply view_field_inv|]. intros ch H. cbn [fv_child view_field] in H.
  unfold m_child_for in H. destruct (find_for ch_ty (fun _ => true) (m_child (f_attrs f)) ty) as [a|] eqn:E; [|discriminate H].
  cbn [option_map] in H. injection H as <-. rewrite Forall_forall in Hc. exact (Hc a (find_for_in _ _ _ _ _ E)).
Qed.

Lemma view_fields_sinv k fl ty fs : Forall field_wf fs ->
  Forall (fun f => fview_inv f /\ (forall ch, fv_child f = Some ch -> ch <> [])) (map (view_field k fl ty) fs).
Proof. intro H. rewrite Forall_forall in *. intros x Hx. apply in_map_iff in Hx. destruct Hx as (f & <- & Hf). apply view_field_finv, H, Hf. Qed.

Lemma view_variant_vinv k fl ty v : variant_wf v -> vinv (view_variant k fl ty v).
Proof. intros [_ Hf]. split; [apply view_variant_inv|]. unfold sview_inv. cbn [vv_struct view_variant sv_fields]. apply view_fields_sinv. exact Hf. Qed.

Lemma has_pl_parent_in m ty : has_parameterless_parent_attr m ty = true -> exists p, In p (m_parent m).
Proof. unfold has_parameterless_parent_attr. intro H. apply existsb_exists in H. destruct H as (p & Hp & _). exists p. exact Hp. Qed.

Lemma view_type_dinv order_tp k fl ty d : data_wf d -> validate_msgs order_tp d = Ok [] -> dinv (tv_data (view_type k fl ty d)).
Proof.
  intros [_ Hm] Hv. cbn [tv_data view_type]. destruct d as [s|e]; cbn [dinv].
  - unfold sview_inv. cbn [view_struct sv_fields]. apply view_fields_sinv. exact Hm.
  - split.
    + rewrite Forall_forall in *. intros x Hx. apply in_map_iff in Hx. destruct Hx as (v & <- & Hin). apply view_variant_vinv, Hm, Hin.
    + rewrite Forall_forall. intros x Hx. apply in_map_iff in Hx. destruct Hx as (v & <- & Hin). cbn [vv_has_pl_parent view_variant].
      destruct (has_parameterless_parent_attr (v_attrs v) ty) eqn:E; [|reflexivity]. exfalso.
      destruct (has_pl_parent_in _ _ E) as [p Hp]. exact (variant_parent_rejected order_tp e v p Hin Hp [] Hv eq_refl).
Qed.

Lemma NPR_data_type_impl order_tp d : data_wf d -> validate_msgs order_tp d = Ok [] -> NPR (data_type_impl d).
Proof.
  intros Hw Hv. unfold data_type_impl. apply NP_bind; [|intro impls; apply NP_ok].
  apply NP_mapM_in. intros c Hc. unfold expand_impl. apply NPR_quote_trait.
  - exact (view_type_dinv order_tp _ _ _ d Hw Hv).
  - intros Hf E. destruct (fallible_has_error_type order_tp d c Hv Hc Hf) as [env Henv]. unfold err_env in Henv. rewrite E in Henv. discriminate Henv.
Qed.

(* ---- the whole pipeline ---- *)
Lemma NP_bind_eq {A B} L (r : res A) (k : A -> res B) : NP L r -> (forall a, r = Ok a -> NP L (k a)) -> NP L (bind r k).
Proof. intros Hr Hk s E. destruct r as [a| |site|]; cbn [bind] in E; try discriminate; [exact (Hk a eq_refl s E)|]. injection E as <-. exact (Hr site eq_refl). Qed.

Lemma emit_nil order msgs : (forall l, Permutation.Permutation (order l) l) -> emit_errors order msgs = [] -> msgs = [].
Proof.
  intros Hp E. destruct msgs as [|m ms]; [reflexivity|]. exfalso.
  assert (H : In m (emit_errors order (m :: ms))) by (apply emit_keeps_all; [exact Hp | left; reflexivity]). rewrite E in H. exact H.
Qed.

Theorem model_panics_only_at_known_sites : forall be order order_tp x s,
    (forall l, Permutation.Permutation (order l) l) ->
    derive_model be order order_tp x = OPanic s -> In s reach_sites.
Proof.
  intros be order order_tp x s Hp H. unfold derive_model in H. destruct (raw_has_none x); [discriminate|].
  destruct (derive_res be order order_tp x) as [[ts|errs]|m|site|w] eqn:E; try discriminate. injection H as <-.
  assert (N : NPR (derive_res be order order_tp x)).
  { unfold derive_res. apply NP_bind_eq; [apply NP_parse_input; cbn; tauto|]. intros d Hd.
    assert (Hw := parse_input_wf be x d Hd).
    unfold validate. apply NP_bind_eq; [apply NP_bind; [apply NPR_validate_msgs; exact Hw | intro msgs; apply NP_ok]|].
    intros errs He. destruct errs as [|e es]; [|apply NP_ok].
    apply bind_ok in He. destruct He as (msgs & Hm & He). injection He as He. apply (emit_nil order msgs Hp) in He. subst msgs.
    apply NP_bind; [exact (NPR_data_type_impl order_tp d Hw Hm) | intro ts; apply NP_ok]. }
  apply (N site). exact E.
Qed.

(* the sites left are exactly the ones the inventory classifies as known-reachable (each a recorded finding) *)
Lemma reach_sites_are_known : forall s, In s reach_sites <-> In s known_reachable.
Proof.
  assert (H : forallb (fun s => str_in s known_reachable) reach_sites && forallb (fun s => str_in s reach_sites) known_reachable = true) by (vm_compute; reflexivity).
  apply andb_prop in H. destruct H as [H1 H2]. rewrite forallb_forall in H1, H2. intro s. split; intro Hs.
  - specialize (H1 s Hs). unfold str_in in H1. apply existsb_exists in H1. destruct H1 as (x & Hx & E). apply String.eqb_eq in E. subst x. exact Hx.
  - specialize (H2 s Hs). unfold str_in in H2. apply existsb_exists in H2. destruct H2 as (x & Hx & E). apply String.eqb_eq in E. subst x. exact Hx.
Qed.

Theorem model_panics_only_at_findings : forall be order order_tp x s,
    (forall l, Permutation.Permutation (order l) l) ->
    derive_model be order order_tp x = OPanic s -> In s known_reachable.
Proof. intros be order order_tp x s Hp H. apply reach_sites_are_known. exact (model_panics_only_at_known_sites be order order_tp x s Hp H). Qed.
