(* C16: classification of every panic-capable site of the source (Gen/Sites.v is regenerated from /repo on every run).
   L = dead by the enclosing match / a test two tokens earlier; T = the call cannot be typed in the model; Lib = invariant of syn / quote;
   G = guarded by validation or by an invariant of the descent (note names the lemma / argument); K = known reachable (finding id).
   The table is written by hand; the obligation below says it covers exactly what the scan finds. *)
From Coq Require Import List String Ascii Bool Arith.
From O2o.Gen Require Import Sites.
Import ListNotations.
Open Scope string_scope.

Inductive site_class := CL | CT | CLib | CG | CK.

(* (file, fn, kind, detail, occurrences in that fn, class, site name in the model, argument) *)
Definition site_table : list (string * string * string * string * nat * site_class * string * string) :=
  [
   ("ast.rs", "named_fields", "panic", "Method 'named_fields' is not supposed to", 1, CT, "", "named_fields is only called on structs / the synthetic struct of a variant");
   ("attr.rs", "from", "unwrap", "value.segments.last()", 1, CLib, "", "a parsed syn::Path has at least one segment");
   ("attr.rs", "from", "unwrap", "cl.segments.last_mut()", 1, CLib, "", "a parsed syn::Path has at least one segment");
   ("attr.rs", "index", "index", "self[0]", 1, CL, "", "fixed-size array indexed through a total Index impl / by a constant");
   ("attr.rs", "index", "index", "self[1]", 1, CL, "", "fixed-size array indexed through a total Index impl / by a constant");
   ("attr.rs", "index", "index", "self[2]", 1, CL, "", "fixed-size array indexed through a total Index impl / by a constant");
   ("attr.rs", "index", "index", "self[3]", 1, CL, "", "fixed-size array indexed through a total Index impl / by a constant");
   ("attr.rs", "index", "index", "self[4]", 1, CL, "", "fixed-size array indexed through a total Index impl / by a constant");
   ("attr.rs", "index", "index", "self[5]", 1, CL, "", "fixed-size array indexed through a total Index impl / by a constant");
   ("attr.rs", "iter_for_kind", "index", "x.applicable_to[kind]", 1, CL, "", "fixed-size array indexed through a total Index impl / by a constant");
   ("attr.rs", "ghosts_attr", "index", "x.applicable_to[kind]", 2, CL, "", "fixed-size array indexed through a total Index impl / by a constant");
   ("attr.rs", "ghosts_attr", "unwrap", "x.attr.container_ty.as_ref()", 1, CL, "", "guarded by is_some() / is_none() in the same closure");
   ("attr.rs", "where_attr", "unwrap", "x.container_ty.as_ref()", 1, CL, "", "guarded by is_some() / is_none() in the same closure");
   ("attr.rs", "child_parents_attr", "unwrap", "x.container_ty.as_ref()", 1, CL, "", "guarded by is_some() / is_none() in the same closure");
   ("attr.rs", "parse", "index", "repeat_for[idx]", 1, CL, "", "fixed-size array indexed through a total Index impl / by a constant");
   ("attr.rs", "child", "unwrap", "x.container_ty.as_ref()", 1, CL, "", "guarded by is_some() / is_none() in the same closure");
   ("attr.rs", "ghost", "index", "x.applicable_to[kind]", 2, CL, "", "fixed-size array indexed through a total Index impl / by a constant");
   ("attr.rs", "ghost", "unwrap", "x.attr.container_ty.as_ref()", 1, CL, "", "guarded by is_some() / is_none() in the same closure");
   ("attr.rs", "lit", "unwrap", "x.container_ty.as_ref()", 1, CL, "", "guarded by is_some() / is_none() in the same closure");
   ("attr.rs", "pat", "unwrap", "x.container_ty.as_ref()", 1, CL, "", "guarded by is_some() / is_none() in the same closure");
   ("attr.rs", "type_hint", "unwrap", "x.container_ty.as_ref()", 1, CL, "", "guarded by is_some() / is_none() in the same closure");
   ("attr.rs", "has_parent_attr", "unwrap", "x.container_ty.as_ref()", 1, CL, "", "guarded by is_some() / is_none() in the same closure");
   ("attr.rs", "has_parameterless_parent_attr", "unwrap", "x.container_ty.as_ref()", 1, CL, "", "guarded by is_some() / is_none() in the same closure");
   ("attr.rs", "parameterized_parent_attr", "unwrap", "x.container_ty.as_ref()", 1, CL, "", "guarded by is_some() / is_none() in the same closure");
   ("attr.rs", "field_attr", "unwrap", "x.attr.container_ty.as_ref()", 1, CL, "", "guarded by is_some() / is_none() in the same closure");
   ("attr.rs", "field_attr_core", "unwrap", "x.container_ty.as_ref()", 1, CL, "", "guarded by is_some() / is_none() in the same closure");
   ("attr.rs", "merge", "index", "repeat.repeat_for[&MemberAttrType::Attr]", 1, CL, "", "fixed-size array indexed through a total Index impl / by a constant");
   ("attr.rs", "merge", "index", "repeat.repeat_for[&MemberAttrType::Child", 1, CL, "", "fixed-size array indexed through a total Index impl / by a constant");
   ("attr.rs", "merge", "index", "repeat.repeat_for[&MemberAttrType::Paren", 1, CL, "", "fixed-size array indexed through a total Index impl / by a constant");
   ("attr.rs", "merge", "index", "repeat.repeat_for[&MemberAttrType::Ghost", 1, CL, "", "fixed-size array indexed through a total Index impl / by a constant");
   ("attr.rs", "merge", "index", "repeat.repeat_for[&MemberAttrType::TypeH", 1, CL, "", "fixed-size array indexed through a total Index impl / by a constant");
   ("attr.rs", "parse", "index", "repeat[idx]", 1, CL, "", "fixed-size array indexed through a total Index impl / by a constant");
   ("attr.rs", "merge", "index", "attr_to_repeat[&TraitAttrType::Vars]", 1, CL, "", "fixed-size array indexed through a total Index impl / by a constant");
   ("attr.rs", "merge", "index", "attr_to_repeat[&TraitAttrType::Update]", 1, CL, "", "fixed-size array indexed through a total Index impl / by a constant");
   ("attr.rs", "merge", "index", "attr_to_repeat[&TraitAttrType::QuickRetu", 1, CL, "", "fixed-size array indexed through a total Index impl / by a constant");
   ("attr.rs", "merge", "index", "attr_to_repeat[&TraitAttrType::DefaultCa", 1, CL, "", "fixed-size array indexed through a total Index impl / by a constant");
   ("attr.rs", "get_ident", "unreachable", "16", 1, CK, "16", "F-16k");
   ("attr.rs", "get_child_path_str", "index", "self.child_path_str[depth]", 1, CG, "child_path_str-index", "depth_in_range");
   ("attr.rs", "get_for_kind", "index", "x.applicable_to[kind]", 1, CL, "", "fixed-size array indexed through a total Index impl / by a constant");
   ("attr.rs", "get_member_attrs", "unreachable", "1", 1, CK, "1", "F-16l");
   ("attr.rs", "try_parse_container_ident", "unwrap", "", 1, CL, "", "parse after a successful peek / fork");
   ("attr.rs", "try_parse_optional_ident", "unwrap", "", 2, CL, "", "parse after a successful peek / fork");
   ("expand.rs", "struct_init_block", "unwrap", "group_paths.get(&path)", 1, CL, "", "contains_key just before");
   ("expand.rs", "struct_init_block", "unwrap", "a.child_fields.as_ref()", 1, CL, "", "parameterized_parent_attr only returns attrs with child_fields");
   ("expand.rs", "struct_init_block_inner", "unwrap", "g.child_path.as_ref()", 1, CG, "ghost-child-path-unwrap", "a ghost entry is pushed only when its path opens a new group");
   ("expand.rs", "struct_init_block_inner", "unreachable", "2", 1, CK, "2", "F-16e");
   ("expand.rs", "variant_destruct_block", "unreachable", "3", 1, CL, "3", "local: the three hint forms are matched before");
   ("expand.rs", "variant_destruct_block", "unreachable", "4", 1, CL, "4", "local: th is one of Struct/Unit/Tuple");
   ("expand.rs", "render_child_fragment", "unwrap", "depth", 1, CL, "", "depth.is_none() || tested first");
   ("expand.rs", "render_child_fragment", "unwrap", ".child_parents_attr(&ctx.struct_attr.ty)", 1, CK, "child_parents-unwrap", "F-16d");
   ("expand.rs", "render_child_fragment", "unwrap", "", 1, CK, "child_data-unwrap", "F-16d");
   ("expand.rs", "render_parent_child_fragment", "unwrap", "depth", 1, CL, "", "tested first");
   ("expand.rs", "render_parent_child_fragment", "index", "parent_child_field.sub_path[depth]", 1, CG, "sub_path-index", "depth_in_range");
   ("expand.rs", "render_parent_child_fragment", "unwrap", "t_child_field.sub_path[depth].1.as_ref()", 1, CK, "sub_path-type-unwrap", "F-16m");
   ("expand.rs", "render_parent_child_fragment", "unwrap", "field.ty.as_ref()", 1, CK, "field-ty-unwrap", "F-16l");
   ("expand.rs", "struct_post_init", "todo", "", 1, CG, "todo-variant-parent", "validation: #[parent] is not supported on a variant");
   ("expand.rs", "render_parent", "unreachable", "5", 1, CG, "5", "render_parent_total");
   ("expand.rs", "render_child", "index", "child_path.child_path[field_ctx.1]", 1, CG, "child_path-index", "depth_in_range");
   ("expand.rs", "render_child", "unreachable", "15", 1, CK, "15", "F-16e");
   ("expand.rs", "render_struct_line", "unreachable", "6", 1, CK, "6", "F-16f");
   ("expand.rs", "render_enum_line", "todo", "", 1, CK, "todo", "F-16c");
   ("expand.rs", "render_ghost_line", "unreachable", "7", 1, CG, "7", "ghost lines are rendered for non-From kinds only");
   ("expand.rs", "render_enum_ghost_line", "unreachable", "17", 1, CK, "17", "F-16k");
   ("expand.rs", "get_quote_trait_params", "parse_quote", "", 2, CLib, "", "the interpolated tokens are lifetimes");
   ("expand.rs", "quote_try_from_trait", "unwrap", "ctx.struct_attr.err_ty.as_ref()", 1, CG, "err_ty-unwrap", "fallible_has_error_type");
   ("expand.rs", "quote_try_into_trait", "unwrap", "ctx.struct_attr.err_ty.as_ref()", 1, CG, "err_ty-unwrap", "fallible_has_error_type");
   ("expand.rs", "quote_try_into_existing_trait", "unwrap", "ctx.struct_attr.err_ty.as_ref()", 1, CG, "err_ty-unwrap", "fallible_has_error_type");
   ("expand.rs", "get_ident", "unreachable", "8", 1, CK, "8", "F-16g");
   ("expand.rs", "get_ident", "unreachable", "18", 1, CK, "18", "F-16h");
   ("expand.rs", "get_ident", "unreachable", "19", 1, CK, "19", "F-16h");
   ("expand.rs", "get_ident", "unreachable", "9", 1, CG, "9", "ghost fields are skipped before get_ident");
   ("expand.rs", "get_field_name_or", "unreachable", "10", 1, CK, "10", "F-16j");
   ("expand.rs", "get_action_or", "unreachable", "11", 1, CK, "11", "F-16j");
   ("expand.rs", "get_stuff", "unreachable", "12", 1, CK, "12", "F-16i");
   ("expand.rs", "get_stuff", "unwrap", "attr", 1, CL, "", "is_some_and just before");
   ("expand.rs", "get_stuff", "unwrap", "ghost_attr.action.as_ref()", 1, CG, "ghost-action-unwrap", "From skips default-less ghosts");
   ("validate.rs", "validate", "index", "x.applicable_to[&Kind::OwnedInto]", 2, CL, "", "fixed-size array indexed through a total Index impl / by a constant");
   ("validate.rs", "validate", "index", "x.applicable_to[&Kind::RefInto]", 2, CL, "", "fixed-size array indexed through a total Index impl / by a constant");
   ("validate.rs", "validate", "index", "applicable_to[&Kind::RefInto]", 1, CL, "", "fixed-size array indexed through a total Index impl / by a constant");
   ("validate.rs", "validate", "index", "applicable_to[&Kind::OwnedInto]", 1, CL, "", "fixed-size array indexed through a total Index impl / by a constant");
   ("validate.rs", "validate_error_instrs", "unreachable", "13", 1, CG, "13", "errs_are_error_instrs");
   ("validate.rs", "validate_member_error_instrs", "unreachable", "14", 1, CG, "14", "errs_are_error_instrs");
   ("validate.rs", "validate_struct_attrs", "unwrap", "attr.err_ty.as_ref()", 1, CL, "", "is_some() in the same condition");
   ("validate.rs", "validate_ghost_attrs", "index", "x.applicable_to[kind]", 2, CL, "", "fixed-size array indexed through a total Index impl / by a constant");
   ("validate.rs", "validate_ghost_attrs", "unwrap", "ghost_attr.attr.container_ty.as_ref()", 1, CL, "", "guarded by is_some() / is_none() in the same closure");
   ("validate.rs", "validate_parent_attrs", "unwrap", "p.container_ty.as_ref()", 2, CL, "", "guarded by is_some() / is_none() in the same closure")
  ].

Definition key_eqb (a : string * string * string * string * nat) (e : string * string * string * string * nat * site_class * string * string) : bool :=
  let '(f, fn, k, d, o) := a in
  let '(f', fn', k', d', m, _, _, _) := e in
  String.eqb f f' && String.eqb fn fn' && String.eqb k k' && String.eqb d d' && Nat.leb o m.

(* every site the scan finds is classified (a new unwrap / unreachable! / todo! / index in the source is not) ... *)
Definition sites_covered : bool := forallb (fun s => existsb (key_eqb s) site_table) gen_sites.
(* ... and the table has no stale entry: each of its rows is met by the scan with its full multiplicity *)
Definition table_fresh : bool :=
  forallb (fun e => let '(f, fn, k, d, m, _, _, _) := e in
                    existsb (fun s => let '(f', fn', k', d', o) := s in
                                      String.eqb f f' && String.eqb fn fn' && String.eqb k k' && String.eqb d d' && Nat.eqb o m) gen_sites) site_table.

Lemma sites_covered_ok : sites_covered = true.
Proof. vm_compute. reflexivity. Qed.
Lemma table_fresh_ok : table_fresh = true.
Proof. vm_compute. reflexivity. Qed.

Definition known_reachable : list string :=
  flat_map (fun e => let '(_, _, _, _, _, c, site, _) := e in match c with CK => [site] | _ => [] end) site_table.
Definition guarded_sites : list string :=
  flat_map (fun e => let '(_, _, _, _, _, c, site, _) := e in match c with CG => [site] | _ => [] end) site_table.

