(* C06: the impls for one counterpart are those of the input with every instruction concerning the
   other counterparts removed. *)
From Coq Require Import List String Ascii Bool Arith.
From O2o.Model Require Import Tok Syn Attr Ast Lookup Expand.
Import ListNotations.
Open Scope list_scope.

(* dedicated to another counterpart than ty *)
Definition other (ty : type_path) (o : option type_path) : bool :=
  match o with Some t => negb (tp_eqb t ty) | None => false end.
Definition keep {A} (ty_of : A -> option type_path) (ty : type_path) (x : A) : bool := negb (other ty (ty_of x)).

Definition project_member (ty : type_path) (m : member_attrs) : member_attrs :=
  {| m_attrs := filter (keep (fun x => mc_ty (ma_core x)) ty) (m_attrs m);
     m_child := filter (keep ch_ty ty) (m_child m);
     m_parent := filter (keep pa_ty ty) (m_parent m);
     m_ghost := filter (keep (fun x => fg_ty (gh_core x)) ty) (m_ghost m);
     m_ghosts := filter (keep (fun x => sg_ty (ga_core x)) ty) (m_ghosts m);
     m_lit := filter (keep lp_ty ty) (m_lit m);
     m_pat := filter (keep lp_ty ty) (m_pat m);
     m_repeat := m_repeat m; m_skip := m_skip m; m_stop := m_stop m;
     m_hint := filter (keep th_ty ty) (m_hint m);
     m_errs := m_errs m |}.

Definition project_field (ty : type_path) (f : field) : field :=
  {| f_attrs := project_member ty (f_attrs f); f_idx := f_idx f; f_member := f_member f;
     f_member_str := f_member_str f; f_ty := f_ty f |}.

Definition project_variant (ty : type_path) (v : variant) : variant :=
  {| v_attrs := project_member ty (v_attrs v); v_ident := v_ident v; v_fields := map (project_field ty) (v_fields v);
     v_named := v_named v; v_unit := v_unit v |}.

Definition project_dt_attrs (ty : type_path) (d : dt_attrs) : dt_attrs :=
  {| d_attrs := filter (fun a => tp_eqb (tc_ty (ta_core a)) ty) (d_attrs d);
     d_ghosts := filter (keep (fun x => sg_ty (ga_core x)) ty) (d_ghosts d);
     d_where := filter (keep wa_ty ty) (d_where d);
     d_child_parents := filter (keep ca_ty ty) (d_child_parents d);
     d_errs := d_errs d |}.

Definition project (ty : type_path) (d : data_type) : data_type :=
  match d with
  | DStruct s => DStruct {| s_attrs := project_dt_attrs ty (s_attrs s); s_ident := s_ident s; s_generics := s_generics s;
                            s_fields := map (project_field ty) (s_fields s); s_named := s_named s; s_unit := s_unit s; s_where := s_where s |}
  | DEnum e => DEnum {| e_attrs := project_dt_attrs ty (e_attrs e); e_ident := e_ident e; e_generics := e_generics e;
                        e_variants := map (project_variant ty) (e_variants e); e_where := e_where e |}
  end.

(* ---- list lemmas ---- *)
Lemma find_filter {A} (p q : A -> bool) l : (forall x, p x = true -> q x = true) -> find p (filter q l) = find p l.
Proof.
  intro H. induction l as [|x l IH]; cbn [filter find]; [reflexivity|].
  destruct (q x) eqn:Q; cbn [find].
  - destruct (p x); [reflexivity | exact IH].
  - destruct (p x) eqn:P; [rewrite (H x P) in Q; discriminate | exact IH].
Qed.

Lemma existsb_filter {A} (p q : A -> bool) l : (forall x, p x = true -> q x = true) -> existsb p (filter q l) = existsb p l.
Proof.
  intro H. induction l as [|x l IH]; cbn [filter existsb]; [reflexivity|].
  destruct (q x) eqn:Q; cbn [existsb].
  - rewrite IH. reflexivity.
  - destruct (p x) eqn:P; [rewrite (H x P) in Q; discriminate | exact IH].
Qed.

Lemma keep_of_is {A} (ty_of : A -> option type_path) ty x : ty_is (ty_of x) ty = true -> keep ty_of ty x = true.
Proof. unfold keep, other, ty_is. destruct (ty_of x); [intro H; rewrite H; reflexivity | discriminate]. Qed.
Lemma keep_of_none {A} (ty_of : A -> option type_path) ty x : ty_none (ty_of x) = true -> keep ty_of ty x = true.
Proof. unfold keep, other, ty_none. destruct (ty_of x); [discriminate | reflexivity]. Qed.

Lemma find_for_project {A} (ty_of : A -> option type_path) ok l ty :
  find_for ty_of ok (filter (keep ty_of ty) l) ty = find_for ty_of ok l ty.
Proof.
  unfold find_for. rewrite !find_filter; [reflexivity| |].
  - intros x H. apply andb_prop in H. apply keep_of_none, H.
  - intros x H. apply andb_prop in H. apply keep_of_is, H.
Qed.

(* ---- every lookup at ty ignores what was removed ---- *)
Lemma has_parent_project : forall m ty, has_parent_attr (project_member ty m) ty = has_parent_attr m ty.
Proof.
  intros. unfold has_parent_attr. cbn [project_member m_parent]. apply existsb_filter.
  intros x H. apply orb_prop in H. destruct H; [apply keep_of_none | apply keep_of_is]; assumption.
Qed.
Lemma has_pl_parent_project : forall m ty, has_parameterless_parent_attr (project_member ty m) ty = has_parameterless_parent_attr m ty.
Proof.
  intros. unfold has_parameterless_parent_attr. cbn [project_member m_parent]. apply existsb_filter.
  intros x H. apply andb_prop in H. destruct H as [_ H]. apply orb_prop in H. destruct H; [apply keep_of_none | apply keep_of_is]; assumption.
Qed.

Lemma field_attr_project : forall m k f ty, field_attr (project_member ty m) k f ty = field_attr m k f ty.
Proof. intros. unfold field_attr. cbn [project_member m_attrs]. apply find_for_project. Qed.

Lemma applicable_project : forall m k f ty, applicable_attr (project_member ty m) k f ty = applicable_attr m k f ty.
Proof.
  intros. unfold applicable_attr, m_ghost_for, field_chain, field_attr_core. cbn [project_member m_ghost].
  rewrite find_for_project. rewrite !field_attr_project. reflexivity.
Qed.

Lemma view_field_project : forall k f ty fld, view_field k f ty (project_field ty fld) = view_field k f ty fld.
Proof.
  intros. unfold view_field. cbn [project_field f_attrs f_idx f_member f_member_str f_ty].
  rewrite applicable_project, has_parent_project, has_pl_parent_project.
  unfold m_child_for, m_ghost_for, parameterized_parent_attr. cbn [project_member m_child m_ghost m_parent].
  rewrite !find_for_project. reflexivity.
Qed.

Lemma map_view_field_project : forall k f ty l, map (view_field k f ty) (map (project_field ty) l) = map (view_field k f ty) l.
Proof. intros. rewrite map_map. apply map_ext. intro. apply view_field_project. Qed.

Lemma view_variant_project : forall k f ty v, view_variant k f ty (project_variant ty v) = view_variant k f ty v.
Proof.
  intros. unfold view_variant. cbn [project_variant v_attrs v_ident v_fields v_named v_unit].
  rewrite map_view_field_project, applicable_project, has_pl_parent_project.
  unfold variant_ghosts, m_ghost_for, m_lit_for, m_pat_for, m_hint_for. cbn [project_variant project_member v_attrs m_ghosts m_ghost m_lit m_pat m_hint].
  rewrite !find_for_project. reflexivity.
Qed.

Theorem view_type_project : forall k f ty d, view_type k f ty (project ty d) = view_type k f ty d.
Proof.
  intros k f ty d. unfold view_type. destruct d as [s|e]; cbn [project dt_ident dt_generics dt_get_attrs s_attrs s_ident s_generics e_attrs e_ident e_generics].
  - unfold view_struct. cbn [s_fields s_named s_unit s_attrs]. rewrite map_view_field_project.
    unfold ghosts_attr_for, child_parents_attr_for, where_attr_for. cbn [project_dt_attrs d_ghosts d_child_parents d_where].
    rewrite !find_for_project. reflexivity.
  - cbn [e_variants]. rewrite map_map. rewrite (map_ext _ _ (view_variant_project k f ty)).
    unfold ghosts_attr_for, where_attr_for. cbn [project_dt_attrs d_ghosts d_where].
    rewrite !find_for_project. reflexivity.
Qed.

(* lookups depend on the counterpart only through its printed path *)
Lemma tp_eqb_congr : forall a b t, tp_eqb a b = true -> tp_eqb t a = tp_eqb t b.
Proof. intros a b t H. unfold tp_eqb in *. apply String.eqb_eq in H. rewrite H. reflexivity. Qed.

Lemma keep_congr {A} (ty_of : A -> option type_path) a b : tp_eqb a b = true -> forall x, keep ty_of a x = keep ty_of b x.
Proof. intros H x. unfold keep, other. destruct (ty_of x); [rewrite (tp_eqb_congr a b t H); reflexivity | reflexivity]. Qed.

Lemma filter_ext' {A} (p q : A -> bool) l : (forall x, p x = q x) -> filter p l = filter q l.
Proof. intro H. induction l as [|x l IH]; cbn; [reflexivity|]. rewrite H, IH. reflexivity. Qed.

Lemma project_member_congr : forall a b m, tp_eqb a b = true -> project_member a m = project_member b m.
Proof.
  intros a b m H. unfold project_member.
  rewrite (filter_ext' _ _ (m_attrs m) (keep_congr (fun x => mc_ty (ma_core x)) a b H)).
  rewrite (filter_ext' _ _ (m_child m) (keep_congr ch_ty a b H)).
  rewrite (filter_ext' _ _ (m_parent m) (keep_congr pa_ty a b H)).
  rewrite (filter_ext' _ _ (m_ghost m) (keep_congr (fun x => fg_ty (gh_core x)) a b H)).
  rewrite (filter_ext' _ _ (m_ghosts m) (keep_congr (fun x => sg_ty (ga_core x)) a b H)).
  rewrite (filter_ext' _ _ (m_lit m) (keep_congr lp_ty a b H)).
  rewrite (filter_ext' _ _ (m_pat m) (keep_congr lp_ty a b H)).
  rewrite (filter_ext' _ _ (m_hint m) (keep_congr th_ty a b H)).
  reflexivity.
Qed.

Lemma project_congr : forall a b d, tp_eqb a b = true -> project a d = project b d.
Proof.
  intros a b d H.
  assert (Hf : forall l, map (project_field a) l = map (project_field b) l).
  { intro l. apply map_ext. intro x. unfold project_field. rewrite (project_member_congr a b _ H). reflexivity. }
  assert (Hd : forall x, project_dt_attrs a x = project_dt_attrs b x).
  { intro x. unfold project_dt_attrs.
    rewrite (filter_ext' (fun t => tp_eqb (tc_ty (ta_core t)) a) (fun t => tp_eqb (tc_ty (ta_core t)) b) (d_attrs x)
               (fun t => tp_eqb_congr a b _ H)).
    rewrite (filter_ext' _ _ (d_ghosts x) (keep_congr (fun y => sg_ty (ga_core y)) a b H)).
    rewrite (filter_ext' _ _ (d_where x) (keep_congr wa_ty a b H)).
    rewrite (filter_ext' _ _ (d_child_parents x) (keep_congr ca_ty a b H)). reflexivity. }
  destruct d as [s|e]; cbn [project]; rewrite Hd.
  - rewrite Hf. reflexivity.
  - f_equal. f_equal. apply map_ext. intro v. unfold project_variant. rewrite (project_member_congr a b _ H), Hf. reflexivity.
Qed.

(* ---- the impl contexts of the projection are the contexts for that counterpart ---- *)
Definition for_ty (ty : type_path) (c : ictx) : bool := tp_eqb (c_ty c) ty.

Lemma filter_flat_map {A B} (p : B -> bool) (f : A -> list B) l :
  filter p (flat_map f l) = flat_map (fun x => filter p (f x)) l.
Proof. induction l as [|x l IH]; cbn; [reflexivity|]. rewrite filter_app, IH. reflexivity. Qed.

Lemma filter_map_comm {A B} (p : B -> bool) (g : A -> B) l : filter p (map g l) = map g (filter (fun x => p (g x)) l).
Proof. induction l as [|x l IH]; cbn; [reflexivity|]. destruct (p (g x)); cbn; rewrite IH; reflexivity. Qed.

Lemma filter_comm {A} (p q : A -> bool) l : filter p (filter q l) = filter q (filter p l).
Proof. induction l as [|x l IH]; cbn; [reflexivity|]. destruct (p x) eqn:P, (q x) eqn:Q; cbn; rewrite ?P, ?Q, IH; reflexivity. Qed.

Theorem contexts_project : forall ty d, impl_contexts (project ty d) = filter (for_ty ty) (impl_contexts d).
Proof.
  intros ty d. unfold impl_contexts. rewrite filter_flat_map.
  assert (Hid : dt_ident (project ty d) = dt_ident d) by (destruct d; reflexivity).
  assert (Hit : match project ty d with DStruct _ => ITStruct | DEnum _ => ITEnum end = match d with DStruct _ => ITStruct | DEnum _ => ITEnum end)
    by (destruct d; reflexivity).
  assert (Hn : match project ty d with DStruct s => s_named s | DEnum _ => false end = match d with DStruct s => s_named s | DEnum _ => false end)
    by (destruct d; reflexivity).
  rewrite Hid, Hit, Hn.
  assert (Hat : d_attrs (dt_get_attrs (project ty d)) = filter (fun a => tp_eqb (tc_ty (ta_core a)) ty) (d_attrs (dt_get_attrs d)))
    by (destruct d; reflexivity).
  apply flat_map_ext. intro kf. rewrite filter_map_comm. unfold iter_for_kind. rewrite Hat, filter_comm.
  unfold for_ty, c_ty. cbn [c_core]. reflexivity.
Qed.

(* ---- C06 ---- *)
Theorem expand_impl_project : forall ty d c,
    tp_eqb (c_ty c) ty = true -> expand_impl (project ty d) c = expand_impl d c.
Proof.
  intros ty d c H. unfold expand_impl. rewrite <- (project_congr (c_ty c) ty d H). rewrite view_type_project. reflexivity.
Qed.

Lemma mapM_ext_in {A B} (f g : A -> res B) l : (forall x, In x l -> f x = g x) -> mapM f l = mapM g l.
Proof.
  induction l as [|x l IH]; intro H; cbn [mapM]; [reflexivity|].
  rewrite (H x (or_introl eq_refl)). rewrite IH; [reflexivity|]. intros y Hy. apply H. right. exact Hy.
Qed.

(* the output for the projected input is the concatenation, in order, of exactly the impls the joint
   input generates for that counterpart *)
Theorem project_impls : forall ty d,
    data_type_impl (project ty d) =
    (impls <- mapM (expand_impl d) (filter (for_ty ty) (impl_contexts d)) ;; Ok (List.concat impls)).
Proof.
  intros ty d. unfold data_type_impl. rewrite contexts_project.
  rewrite (mapM_ext_in (expand_impl (project ty d)) (expand_impl d)); [reflexivity|].
  intros c Hc. apply filter_In in Hc. destruct Hc as [_ Hc]. apply expand_impl_project. exact Hc.
Qed.
