(* C19: the emitted diagnostics do not depend on the iteration order of the message map, nor on the
   iteration order of the two HashSets of counterpart types that validate_fields walks. *)
From Coq Require Import List String Ascii Bool Arith Lia Permutation.
From O2o.Model Require Import Tok Syn Attr Ast Lookup Validate Expand Derive.
Import ListNotations.
Open Scope list_scope.

Lemma str_leb_refl : forall a, str_leb a a = true.
Proof.
  induction a as [|c a IH]; cbn [str_leb]; [reflexivity|].
  rewrite Nat.ltb_irrefl. exact IH.
Qed.

Lemma nat_of_ascii_inj : forall x y, nat_of_ascii x = nat_of_ascii y -> x = y.
Proof.
  intros x y H. rewrite <- (ascii_nat_embedding x), <- (ascii_nat_embedding y), H. reflexivity.
Qed.

Lemma str_leb_total : forall a b, str_leb a b = true \/ str_leb b a = true.
Proof.
  induction a as [|x a IH]; intros [|y b]; cbn [str_leb]; auto.
  destruct (Nat.ltb_spec (nat_of_ascii x) (nat_of_ascii y)) as [H|H]; auto.
  destruct (Nat.ltb_spec (nat_of_ascii y) (nat_of_ascii x)) as [H'|H']; auto.
Qed.

Lemma str_leb_antisym : forall a b, str_leb a b = true -> str_leb b a = true -> a = b.
Proof.
  induction a as [|x a IH]; intros [|y b]; cbn [str_leb]; try discriminate; auto.
  destruct (Nat.ltb_spec (nat_of_ascii x) (nat_of_ascii y)) as [H|H];
  destruct (Nat.ltb_spec (nat_of_ascii y) (nat_of_ascii x)) as [H'|H']; try discriminate; try lia.
  intros H1 H2. assert (x = y) by (apply nat_of_ascii_inj; lia). subst. f_equal. apply IH; assumption.
Qed.

Lemma str_leb_trans : forall a b c, str_leb a b = true -> str_leb b c = true -> str_leb a c = true.
Proof.
  induction a as [|x a IH]; intros [|y b] [|z c]; cbn [str_leb]; try discriminate; auto.
  destruct (Nat.ltb_spec (nat_of_ascii x) (nat_of_ascii y)) as [H|H];
  destruct (Nat.ltb_spec (nat_of_ascii y) (nat_of_ascii z)) as [H'|H'];
  destruct (Nat.ltb_spec (nat_of_ascii x) (nat_of_ascii z)) as [H''|H'']; auto; try lia;
  destruct (Nat.ltb_spec (nat_of_ascii y) (nat_of_ascii x)) as [G|G]; try discriminate; try lia;
  destruct (Nat.ltb_spec (nat_of_ascii z) (nat_of_ascii y)) as [G'|G']; try discriminate; try lia;
  destruct (Nat.ltb_spec (nat_of_ascii z) (nat_of_ascii x)) as [G''|G'']; try discriminate; try lia.
  intros; eapply IH; eassumption.
Qed.

(* inserting two elements commutes (no sortedness needed: insertion scans for the first element above) *)
Lemma insert_comm : forall a b l, insert_sorted a (insert_sorted b l) = insert_sorted b (insert_sorted a l).
Proof.
  intros a b l. induction l as [|x l IH]; cbn [insert_sorted].
  - destruct (str_leb a b) eqn:Hab; destruct (str_leb b a) eqn:Hba; try reflexivity.
    + assert (a = b) by (apply str_leb_antisym; assumption). subst. reflexivity.
    + destruct (str_leb_total a b); congruence.
  - destruct (str_leb b x) eqn:Hbx; destruct (str_leb a x) eqn:Hax; cbn [insert_sorted].
    + destruct (str_leb a b) eqn:Hab; destruct (str_leb b a) eqn:Hba; cbn [insert_sorted]; rewrite ?Hbx, ?Hax; try reflexivity.
      * assert (a = b) by (apply str_leb_antisym; assumption). subst. reflexivity.
      * destruct (str_leb_total a b); congruence.
    + destruct (str_leb a b) eqn:Hab.
      * assert (str_leb a x = true) by (eapply str_leb_trans; eassumption). congruence.
      * cbn [insert_sorted]. rewrite Hbx, Hax. reflexivity.
    + destruct (str_leb b a) eqn:Hba.
      * assert (str_leb b x = true) by (eapply str_leb_trans; eassumption). congruence.
      * cbn [insert_sorted]. rewrite Hax, Hbx. reflexivity.
    + rewrite Hbx, Hax. f_equal. exact IH.
Qed.

Lemma sort_perm : forall l l', Permutation l l' -> sort_strs l = sort_strs l'.
Proof.
  intros l l' H. induction H as [| x l l' H IH | x y l | l l' l'' H1 IH1 H2 IH2].
  - reflexivity.
  - unfold sort_strs in *. cbn [fold_right]. rewrite IH. reflexivity.
  - unfold sort_strs. cbn [fold_right]. apply insert_comm.
  - congruence.
Qed.

(* ---- dedup: a duplicate-free list with the same elements ---- *)
Lemma str_in_In : forall s l, str_in s l = true <-> In s l.
Proof.
  intros s l. unfold str_in. rewrite existsb_exists. split.
  - intros [x [Hin Heq]]. apply String.eqb_eq in Heq. subst. exact Hin.
  - intro H. exists s. split; [exact H | apply String.eqb_refl].
Qed.

Lemma dedup_In : forall l x, In x (dedup l) <-> In x l.
Proof.
  induction l as [|y l IH]; intro x; cbn [dedup]; [tauto|].
  destruct (str_in y l) eqn:E.
  - rewrite IH. cbn. split; [auto|]. intros [->|H]; [apply str_in_In; exact E | exact H].
  - cbn. rewrite IH. tauto.
Qed.

Lemma dedup_NoDup : forall l, NoDup (dedup l).
Proof.
  induction l as [|y l IH]; cbn [dedup]; [constructor|].
  destruct (str_in y l) eqn:E; [exact IH|].
  constructor; [|exact IH]. rewrite dedup_In. intro H. apply str_in_In in H. congruence.
Qed.

Lemma dedup_perm : forall l l', Permutation l l' -> Permutation (dedup l) (dedup l').
Proof.
  intros l l' H. apply NoDup_Permutation; try apply dedup_NoDup.
  intro x. rewrite !dedup_In. split; intro Hin.
  - eapply Permutation_in; eassumption.
  - eapply Permutation_in; [apply Permutation_sym|]; eassumption.
Qed.

Lemma emit_perm :
  forall (o1 o2 : list string -> list string),
    (forall l, Permutation (o1 l) l) -> (forall l, Permutation (o2 l) l) ->
    forall m1 m2, Permutation m1 m2 -> emit_errors o1 m1 = emit_errors o2 m2.
Proof.
  intros o1 o2 H1 H2 m1 m2 H. unfold emit_errors. apply sort_perm.
  eapply Permutation_trans; [apply H1|].
  eapply Permutation_trans; [apply dedup_perm; exact H|].
  apply Permutation_sym, H2.
Qed.

(* ---- the HashSet iterations of validate_fields only feed the message map ---- *)
Lemma flat_map_perm_ext {A B} (f g : A -> list B) l :
  (forall x, Permutation (f x) (g x)) -> Permutation (flat_map f l) (flat_map g l).
Proof.
  intro H. induction l as [|x l IH]; cbn; [constructor|]. apply Permutation_app; auto.
Qed.

Lemma flat_map_perm {A B} (f : A -> list B) l l' :
  Permutation l l' -> Permutation (flat_map f l) (flat_map f l').
Proof.
  intro H. induction H; cbn.
  - constructor.
  - apply Permutation_app_head. assumption.
  - rewrite !app_assoc. apply Permutation_app_tail, Permutation_app_comm.
  - eapply Permutation_trans; eassumption.
Qed.

Section OrderTp.
  Variables o1 o2 : list type_path -> list type_path.
  Hypothesis H1 : forall l, Permutation (o1 l) l.
  Hypothesis H2 : forall l, Permutation (o2 l) l.

  Lemma o12 : forall l, Permutation (o1 l) (o2 l).
  Proof. intro l. eapply Permutation_trans; [apply H1 | apply Permutation_sym, H2]. Qed.

  Lemma validate_fields_perm : forall s bk tps,
      Permutation (validate_fields o1 s bk tps) (validate_fields o2 s bk tps).
  Proof.
    intros s bk tps. unfold validate_fields.
    repeat apply Permutation_app; try apply Permutation_refl.
    - apply flat_map_perm_ext. intro f. apply Permutation_app; [|apply Permutation_refl].
      apply flat_map_perm_ext. intro g.
      destruct (is_some (fg_action (gh_core g))); [apply Permutation_refl|].
      destruct (fg_ty (gh_core g)); [apply Permutation_refl|].
      apply Permutation_map, o12.
    - apply flat_map_perm_ext. intro c.
      destruct (ch_ty c); [apply Permutation_refl|].
      apply flat_map_perm, o12.
  Qed.

  Lemma validate_msgs_perm : forall d,
      match validate_msgs o1 d, validate_msgs o2 d with
      | Ok m1, Ok m2 => Permutation m1 m2
      | Err a, Err b => a = b
      | Panic a, Panic b => a = b
      | Oom a, Oom b => a = b
      | _, _ => False
      end.
  Proof.
    intro d. unfold validate_msgs.
    destruct (validate_error_instrs _ _) as [m1| | |]; cbn [bind]; try reflexivity.
    destruct d as [s|e].
    - destruct (mapM _ (s_fields s)) as [m6| | |]; cbn [bind]; try reflexivity.
      do 7 apply Permutation_app_head.
      apply validate_fields_perm.
    - destruct (mapM _ (e_variants e)) as [m6| | |]; cbn [bind]; reflexivity.
  Qed.
End OrderTp.

Theorem derive_deterministic :
  forall (o1 o2 : list string -> list string) (t1 t2 : list type_path -> list type_path),
    (forall l, Permutation (o1 l) l) -> (forall l, Permutation (o2 l) l) ->
    (forall l, Permutation (t1 l) l) -> (forall l, Permutation (t2 l) l) ->
    forall be x, derive_model be o1 t1 x = derive_model be o2 t2 x.
Proof.
  intros o1 o2 t1 t2 Ho1 Ho2 Ht1 Ht2 be x.
  unfold derive_model, derive_res, validate.
  destruct (raw_has_none x); [reflexivity|].
  destruct (parse_input be x) as [d| | |]; cbn; try reflexivity.
  pose proof (validate_msgs_perm t1 t2 Ht1 Ht2 d) as Hp.
  destruct (validate_msgs t1 d) as [m1| | |]; destruct (validate_msgs t2 d) as [m2| | |]; cbn; try contradiction;
    try (subst; reflexivity).
  rewrite (emit_perm o1 o2 Ho1 Ho2 m1 m2 Hp). reflexivity.
Qed.

(* non-vacuity: a non-trivial order (reversal) is a permutation, and emission really reorders *)
Example rev_is_perm : forall (A : Type) (l : list A), Permutation (rev l) l.
Proof. intros A l. apply Permutation_sym, Permutation_rev. Qed.
Example emit_sorts : emit_errors (@rev string) ["b"; "a"; "b"; "c"]%string = ["a"; "b"; "c"]%string.
Proof. vm_compute. reflexivity. Qed.
