(* C16: every Panic the model can produce is one of the listed sites (by construction, proved
   compositionally), then the guarded ones are excluded (NoPanic.v). *)
From Coq Require Import List String Ascii Bool Arith.
From O2o.Model Require Import Tok Syn Attr Ast Lookup Validate Expand Derive.
Import ListNotations.
Open Scope string_scope.
Open Scope list_scope.

Definition all_sites : list string :=
  ["1"; "2"; "4"; "5"; "6"; "7"; "8"; "9"; "10"; "11"; "12"; "13"; "14"; "15"; "16"; "17"; "18"; "19"; "todo"; "todo-variant-parent";
   "ghost-action-unwrap"; "ghost-child-path-unwrap"; "child_path_str-index"; "child_parents-unwrap"; "child_data-unwrap"; "child_path-index";
   "sub_path-type-unwrap"; "sub_path-index"; "field-ty-unwrap"; "err_ty-unwrap"].

Create HintDb np.

(* The lemmas are stated for an arbitrary site list L; each is proved from the hypotheses `In "<site>" L` of exactly the sites
   its function can reach (Coq discharges only the hypotheses a proof uses), so a lemma can later be instantiated with a list
   that omits the sites the function does not mention. *)
Section NP.
  Variable L : list string.
  Hypothesis Hs0 : In "1" L.
  Hypothesis Hs1 : In "2" L.
  Hypothesis Hs2 : In "4" L.
  Hypothesis Hs3 : In "5" L.
  Hypothesis Hs4 : In "6" L.
  Hypothesis Hs5 : In "7" L.
  Hypothesis Hs6 : In "8" L.
  Hypothesis Hs7 : In "9" L.
  Hypothesis Hs8 : In "10" L.
  Hypothesis Hs9 : In "11" L.
  Hypothesis Hs10 : In "12" L.
  Hypothesis Hs11 : In "13" L.
  Hypothesis Hs12 : In "14" L.
  Hypothesis Hs13 : In "15" L.
  Hypothesis Hs14 : In "16" L.
  Hypothesis Hs15 : In "17" L.
  Hypothesis Hs16 : In "18" L.
  Hypothesis Hs17 : In "19" L.
  Hypothesis Hs18 : In "todo" L.
  Hypothesis Hs19 : In "todo-variant-parent" L.
  Hypothesis Hs20 : In "ghost-action-unwrap" L.
  Hypothesis Hs21 : In "ghost-child-path-unwrap" L.
  Hypothesis Hs22 : In "child_path_str-index" L.
  Hypothesis Hs23 : In "child_parents-unwrap" L.
  Hypothesis Hs24 : In "child_data-unwrap" L.
  Hypothesis Hs25 : In "child_path-index" L.
  Hypothesis Hs26 : In "sub_path-type-unwrap" L.
  Hypothesis Hs27 : In "sub_path-index" L.
  Hypothesis Hs28 : In "field-ty-unwrap" L.
  Hypothesis Hs29 : In "err_ty-unwrap" L.

Definition NP {A} (r : res A) : Prop := forall s, r = Panic s -> In s L.

Lemma NP_ok {A} (a : A) : NP (Ok a). Proof. intros s H; discriminate. Qed.
Lemma NP_err {A} m : NP (@Err A m). Proof. intros s H; discriminate. Qed.
Lemma NP_oom {A} w : NP (@Oom A w). Proof. intros s H; discriminate. Qed.
Lemma NP_lib {A} : NP (@lib_err A). Proof. intros s H; discriminate. Qed.
Lemma NP_panic {A} s : In s L -> NP (@Panic A s). Proof. intros Hin s' H; injection H as <-; exact Hin. Qed.
Lemma NP_bind {A B} (r : res A) (k : A -> res B) : NP r -> (forall a, NP (k a)) -> NP (bind r k).
Proof. intros Hr Hk s H. destruct r as [a|m|site|w]; cbn [bind] in H; try discriminate; [exact (Hk a s H)|]. injection H as <-. apply (Hr site). reflexivity. Qed.
Lemma NP_mapM {A B} (f : A -> res B) l : (forall x, NP (f x)) -> NP (mapM f l).
Proof.
  intro Hf. induction l as [|x l IH]; cbn [mapM]; [apply NP_ok|].
  apply NP_bind; [apply Hf|]. intro y. apply NP_bind; [exact IH|]. intro ys. apply NP_ok.
Qed.
Lemma NP_finish {A} (r : pres A) : NP r -> NP (finish r).
Proof. intro H. unfold finish. apply NP_bind; [exact H|]. intros [a rest]. destruct (is_empty rest); [apply NP_ok | apply NP_lib]. Qed.

#[local] Hint Resolve NP_ok NP_err NP_oom NP_lib NP_finish : np.

Ltac np_step :=
  match goal with
  | |- NP (Ok _) => apply NP_ok
  | |- NP (Err _) => apply NP_err
  | |- NP (Oom _) => apply NP_oom
  | |- NP lib_err => apply NP_lib
  | |- NP (Panic _) => apply NP_panic; assumption
  | |- NP (bind _ _) => apply NP_bind; [|intro]
  | |- NP (finish _) => apply NP_finish
  | |- NP (mapM _ _) => apply NP_mapM; intro
  | |- NP (let '(_, _) := ?x in _) => destruct x
  | |- NP (if ?b then _ else _) => destruct b
  | |- NP (match ?x with _ => _ end) => destruct x
  | |- NP _ => solve [eauto with np]
  end.
Ltac np := repeat np_step.

(* ---- Syn.v ---- *)
Lemma NP_parse_ident be ts : NP (parse_ident be ts). Proof. unfold parse_ident; np. Qed.
Lemma NP_parse_kw k ts : NP (parse_kw k ts). Proof. unfold parse_kw; np. Qed.
Lemma NP_parse_punct c ts : NP (parse_punct c ts). Proof. unfold parse_punct; np. Qed.
Lemma NP_parse_punct2 a b ts : NP (parse_punct2 a b ts). Proof. unfold parse_punct2; np. Qed.
Lemma NP_parse_group d ts : NP (parse_group d ts). Proof. unfold parse_group; np. Qed.
Lemma NP_lit_index s : NP (lit_index s). Proof. unfold lit_index; np. Qed.
#[local] Hint Resolve NP_parse_ident NP_parse_kw NP_parse_punct NP_parse_punct2 NP_parse_group NP_lit_index : np.
Lemma NP_peek_member be ts : NP (peek_member be ts). Proof. unfold peek_member; np. Qed.
Lemma NP_parse_member be ts : NP (parse_member be ts). Proof. unfold parse_member; np. Qed.
#[local] Hint Resolve NP_peek_member NP_parse_member : np.

Lemma NP_path_mutual be : forall fuel,
    (forall ts, NP (parse_type be fuel ts)) /\ (forall ts, NP (parse_gargs be fuel ts)) /\ (forall ts, NP (parse_seg be fuel ts)) /\
    (forall ts, NP (parse_segs be fuel ts)) /\ (forall ts, NP (parse_path_f be fuel ts)).
Proof.
  induction fuel as [|f [IHt [IHg [IHs [IHss IHp]]]]].
  - repeat split; intro ts; cbn; apply NP_oom.
  - repeat split; intro ts.
    + cbn [parse_type]. np.
    + cbn [parse_gargs]. np.
    + cbn [parse_seg]. np.
    + cbn [parse_segs]. np.
    + cbn [parse_path_f]. np.
Qed.
Lemma NP_parse_type be fuel ts : NP (parse_type be fuel ts). Proof. apply (NP_path_mutual be fuel). Qed.
Lemma NP_parse_path be ts : NP (parse_path be ts). Proof. unfold parse_path. apply (NP_path_mutual be). Qed.
#[local] Hint Resolve NP_parse_type NP_parse_path : np.

Lemma NP_parse_bound be ts : NP (parse_bound be ts). Proof. unfold parse_bound; np. Qed.
#[local] Hint Resolve NP_parse_bound : np.
Lemma NP_parse_bounds be : forall fuel ts, NP (parse_bounds be fuel ts).
Proof. induction fuel as [|f IH]; intro ts; cbn [parse_bounds]; np. Qed.
Lemma NP_parse_lt_bounds : forall fuel ts, NP (parse_lt_bounds fuel ts).
Proof. induction fuel as [|f IH]; intro ts; cbn [parse_lt_bounds]; np. Qed.
#[local] Hint Resolve NP_parse_bounds NP_parse_lt_bounds : np.
Lemma NP_parse_where_pred be ts : NP (parse_where_pred be ts). Proof. unfold parse_where_pred; np. Qed.
#[local] Hint Resolve NP_parse_where_pred : np.

Lemma NP_parse_terminated {A} (elem : parser A) : (forall ts, NP (elem ts)) -> forall fuel ts, NP (parse_terminated elem fuel ts).
Proof. intro He. induction fuel as [|f IH]; intro ts; cbn [parse_terminated]; np. Qed.
Lemma NP_parse_separated {A} (elem : parser A) c : (forall ts, NP (elem ts)) -> forall fuel ts, NP (parse_separated_nonempty elem c fuel ts).
Proof. intro He. induction fuel as [|f IH]; intro ts; cbn [parse_separated_nonempty]; np. Qed.

(* ---- Attr.v ---- *)
Lemma NP_type_hint ts : NP (try_parse_type_hint ts). Proof. unfold try_parse_type_hint; np. Qed.
Lemma NP_container_ident be b ts : NP (try_parse_container_ident be b ts).
Proof. unfold try_parse_container_ident. assert (H := NP_parse_path be ts). destruct (parse_path be ts) as [[p rest]| |site|]; np. intros s E. injection E as <-. apply (H site). reflexivity. Qed.
Lemma NP_optional_ident be ts : NP (try_parse_optional_ident be ts). Proof. unfold try_parse_optional_ident; np. Qed.
Lemma NP_action ts : NP (try_parse_action ts). Proof. unfold try_parse_action; np. Qed.
Lemma NP_braced ts : NP (try_parse_braced_action ts). Proof. unfold try_parse_braced_action; np. Qed.
#[local] Hint Resolve NP_type_hint NP_container_ident NP_optional_ident NP_action NP_braced : np.
Lemma NP_init_data be ts : NP (parse_init_data be ts). Proof. unfold parse_init_data; np. Qed.
#[local] Hint Resolve NP_init_data : np.
Lemma NP_repeat_flags types : forall names acc, NP (repeat_flags types names acc).
Proof. induction names as [|n r IH]; intro acc; cbn [repeat_flags]; np. Qed.
#[local] Hint Resolve NP_repeat_flags : np.
Lemma NP_repeat_for be types ts : NP (parse_repeat_for be types ts).
Proof. unfold parse_repeat_for. apply NP_bind; [apply NP_parse_terminated; intro; apply NP_parse_ident|]. intro a. np. Qed.
#[local] Hint Resolve NP_repeat_for : np.
Lemma NP_already_set {A} n : NP (@already_set A n). Proof. unfold already_set; np. Qed.
#[local] Hint Resolve NP_already_set : np.
Lemma NP_trait_param be a ts : NP (parse_trait_param be a ts).
Proof.
  unfold parse_trait_param, all_consumed.
  repeat match goal with
         | |- NP (if ?b then _ else _) => destruct b
         end; np; try (apply NP_parse_separated; intro; apply NP_init_data).
Qed.
#[local] Hint Resolve NP_trait_param : np.
Lemma NP_trait_params be : forall fuel a ts, NP (parse_trait_params be fuel a ts).
Proof. induction fuel as [|f IH]; intros a ts; cbn [parse_trait_params]; np. Qed.
#[local] Hint Resolve NP_trait_params : np.
Lemma NP_trait_core be ts : NP (parse_trait_core be ts). Proof. unfold parse_trait_core; np. Qed.
#[local] Hint Resolve NP_trait_core : np.
Lemma NP_ghost_data be ts : NP (parse_ghost_data be ts).
Proof. unfold parse_ghost_data; np; try (apply NP_parse_separated; intro; apply NP_parse_member). Qed.
#[local] Hint Resolve NP_ghost_data : np.
Lemma NP_ghosts_core be ts : NP (parse_ghosts_core be ts).
Proof. unfold parse_ghosts_core; np. apply NP_parse_terminated; intro; apply NP_ghost_data. Qed.
Lemma NP_where_attr be ts : NP (parse_where_attr be ts).
Proof. unfold parse_where_attr; np. apply NP_parse_separated; intro; apply NP_parse_where_pred. Qed.
Lemma NP_child_parent_data be ts : NP (parse_child_parent_data be ts).
Proof. unfold parse_child_parent_data; np; try (apply NP_parse_separated; intro; apply NP_parse_member). Qed.
#[local] Hint Resolve NP_ghosts_core NP_where_attr NP_child_parent_data : np.
Lemma NP_child_parents_attr be ts : NP (parse_child_parents_attr be ts).
Proof. unfold parse_child_parents_attr; np. apply NP_parse_terminated; intro; apply NP_child_parent_data. Qed.
Lemma NP_member_core be ts : NP (parse_member_core be ts). Proof. unfold parse_member_core; np. Qed.
#[local] Hint Resolve NP_child_parents_attr NP_member_core : np.

Lemma NP_pcf_brackets be (rec : parser pcf_parsed) : (forall ts, NP (rec ts)) -> forall n attrs par ts, NP (pcf_brackets be rec n attrs par ts).
Proof.
  intro Hrec. induction n as [|n IHn]; intros attrs par ts; cbn [pcf_brackets]; [apply NP_oom|].
  destruct ts as [|t rest]; [np|].
  destruct t as [s|c j|s|d content]; try solve [np].
  destruct d; try solve [np].
  apply NP_bind; [apply NP_parse_ident|]. intros [instr c1]. apply NP_bind; [apply NP_parse_group|]. intros [inner c2].
  destruct (str_in instr O2o.Gen.Tables.nested_map_names).
  - apply NP_bind; [apply NP_optional_ident|]. intros [m i1]. apply NP_bind; [apply NP_action|]. intros [a i2].
    destruct (negb (is_empty i2)); [apply NP_lib|]. destruct (negb (is_empty c2)); [apply NP_lib|]. apply IHn.
  - destruct (String.eqb instr "parent"); [|apply NP_err].
    destruct par; [apply NP_err|].
    apply NP_bind; [apply NP_parse_terminated; exact Hrec|]. intro kids. destruct (negb (is_empty c2)); [apply NP_lib | apply IHn].
Qed.

Lemma NP_parse_pcf be : forall fuel ts, NP (parse_pcf be fuel ts).
Proof. induction fuel as [|f IH]; intro ts; cbn [parse_pcf]; [apply NP_oom | apply NP_pcf_brackets; exact IH]. Qed.
#[local] Hint Resolve NP_parse_pcf : np.

Lemma NP_parent_attr be ts : NP (parse_parent_attr be ts).
Proof. unfold parse_parent_attr; np. apply NP_parse_terminated; intro; apply NP_parse_pcf. Qed.
Lemma NP_fghost_core be ts : NP (parse_fghost_core be ts). Proof. unfold parse_fghost_core; np. Qed.
Lemma NP_child_attr be ts : NP (parse_child_attr be ts).
Proof. unfold parse_child_attr; np. apply NP_parse_separated; intro; apply NP_parse_member. Qed.
Lemma NP_as_attr be ts : NP (parse_as_attr be ts). Proof. unfold parse_as_attr; np. Qed.
Lemma NP_lit_attr be ts : NP (parse_lit_attr be ts). Proof. unfold parse_lit_attr; np. Qed.
Lemma NP_hint_attr be ts : NP (parse_hint_attr be ts). Proof. unfold parse_hint_attr; np. Qed.
Lemma NP_mrepeat_attr be ts : NP (parse_mrepeat_attr be ts). Proof. unfold parse_mrepeat_attr; np. Qed.
#[local] Hint Resolve NP_parent_attr NP_fghost_core NP_child_attr NP_as_attr NP_lit_attr NP_hint_attr NP_mrepeat_attr : np.

Lemma NP_dt_instruction be n ts own bark : NP (parse_data_type_instruction be n ts own bark).
Proof. unfold parse_data_type_instruction; np. Qed.
Lemma NP_mb_instruction be n ts own bark : NP (parse_member_instruction be n ts own bark).
Proof. unfold parse_member_instruction; np. Qed.
#[local] Hint Resolve NP_dt_instruction NP_mb_instruction : np.

Lemma NP_optional_parenthesized ts : NP (optional_parenthesized ts). Proof. unfold optional_parenthesized; np. Qed.
Lemma NP_bare_attr_tokens be a : NP (bare_attr_tokens be a).
Proof. unfold bare_attr_tokens. destruct be; [apply NP_finish, NP_optional_parenthesized|]. destruct (ra_toks a) as [|t r]; [np|]. destruct t as [s|c j|s|d inner]; np. Qed.
Lemma NP_o2o_list_content a : NP (o2o_list_content a). Proof. unfold o2o_list_content; np. Qed.
#[local] Hint Resolve NP_optional_parenthesized NP_bare_attr_tokens NP_o2o_list_content : np.
Lemma NP_o2o_item {I} be (pi : string -> list tok -> bool -> bool -> res I) ts :
  (forall n t o b, NP (pi n t o b)) -> NP (o2o_item be pi ts).
Proof. intro H. unfold o2o_item; np. Qed.

Lemma NP_dt_instrs be : forall attrs bark, NP (dt_instrs be attrs bark).
Proof.
  induction attrs as [|a rest IH]; intro bark; cbn [dt_instrs]; [apply NP_ok|].
  destruct (ra_path a); [|apply IH]. destruct (String.eqb s "doc"); [apply IH|]. destruct (String.eqb s "o2o").
  - apply NP_bind; [apply NP_o2o_list_content|]. intro content.
    apply NP_bind; [apply NP_parse_terminated; intro; apply NP_o2o_item; intros; apply NP_dt_instruction|]. intro news.
    apply NP_bind; [apply IH|]. intros [more b]. apply NP_ok.
  - apply NP_bind; [apply NP_bare_attr_tokens|]. intro toks. apply NP_bind; [apply NP_dt_instruction|]. intro i.
    apply NP_bind; [apply IH|]. intros [more b]. apply NP_ok.
Qed.
Lemma NP_mb_instrs be : forall attrs bark, NP (mb_instrs be attrs bark).
Proof.
  induction attrs as [|a rest IH]; intro bark; cbn [mb_instrs]; [apply NP_ok|].
  destruct (ra_path a); [|apply IH]. destruct (String.eqb s "doc"); [apply IH|]. destruct (String.eqb s "o2o").
  - apply NP_bind; [apply NP_o2o_list_content|]. intro content.
    apply NP_bind; [apply NP_parse_terminated; intro; apply NP_o2o_item; intros; apply NP_mb_instruction|]. intro news.
    apply NP_bind; [apply IH|]. intro more. apply NP_ok.
  - apply NP_bind; [apply NP_bare_attr_tokens|]. intro toks. apply NP_bind; [apply NP_mb_instruction|]. intro i.
    apply NP_bind; [apply IH|]. intro more. apply NP_ok.
Qed.
#[local] Hint Resolve NP_dt_instrs NP_mb_instrs : np.

(* ---- Ast.v ---- *)
Lemma NP_collect_member_attrs ty : forall instrs acc, NP (collect_member_attrs ty instrs acc).
Proof. induction instrs as [|i rest IH]; intro acc; cbn [collect_member_attrs]; [apply NP_ok|]. destruct i; try apply IH. destruct ty; [apply IH | np]. Qed.
#[local] Hint Resolve NP_collect_member_attrs : np.
Lemma NP_get_member_attrs be ty attrs bark : NP (get_member_attrs be ty attrs bark). Proof. unfold get_member_attrs; np. Qed.
#[local] Hint Resolve NP_get_member_attrs : np.
Lemma NP_thread_repeat {C} (mk : member_attrs -> mrepeat_attr -> C) get ctx attrs : NP (thread_repeat mk get ctx attrs).
Proof. unfold thread_repeat; np. Qed.
#[local] Hint Resolve NP_thread_repeat : np.
Lemma NP_fields_from_syn be bark : forall fs ctx i, NP (fields_from_syn be bark ctx i fs).
Proof. induction fs as [|rf rest IH]; intros ctx i; cbn [fields_from_syn]; np. Qed.
#[local] Hint Resolve NP_fields_from_syn : np.
Lemma NP_variants_from_syn be bark : forall vs vctx fctx, NP (variants_from_syn be bark vctx fctx vs).
Proof. induction vs as [|rv rest IH]; intros vctx fctx; cbn [variants_from_syn]; np. Qed.
#[local] Hint Resolve NP_variants_from_syn : np.
Lemma NP_merge_trait_core a b : NP (merge_trait_core a b). Proof. unfold merge_trait_core; np. Qed.
#[local] Hint Resolve NP_merge_trait_core : np.
Lemma NP_collect_dt_attrs : forall instrs m acc, NP (collect_dt_attrs instrs m acc).
Proof. induction instrs as [|i rest IH]; intros m acc; cbn [collect_dt_attrs]; [apply NP_ok|]. destruct i; try apply IH. np. Qed.
#[local] Hint Resolve NP_collect_dt_attrs : np.
Lemma NP_get_data_type_attrs be attrs : NP (get_data_type_attrs be attrs). Proof. unfold get_data_type_attrs; np. Qed.
#[local] Hint Resolve NP_get_data_type_attrs : np.
Lemma NP_struct_from_syn be x sh fs : NP (struct_from_syn be x sh fs). Proof. unfold struct_from_syn; np. Qed.
Lemma NP_enum_from_syn be x vs : NP (enum_from_syn be x vs). Proof. unfold enum_from_syn; np. Qed.
#[local] Hint Resolve NP_struct_from_syn NP_enum_from_syn : np.
Lemma NP_parse_input be x : NP (parse_input be x). Proof. unfold parse_input; np. Qed.
#[local] Hint Resolve NP_parse_input : np.

(* ---- Validate.v ---- *)
Lemma NP_validate_error_instrs e d : NP (validate_error_instrs e d). Proof. unfold validate_error_instrs; np. Qed.
Lemma NP_validate_member_error_instrs e m : NP (validate_member_error_instrs e m). Proof. unfold validate_member_error_instrs; np. Qed.
#[local] Hint Resolve NP_validate_error_instrs NP_validate_member_error_instrs : np.
Lemma NP_validate_member a b c m bk tp : NP (validate_member a b c m bk tp). Proof. unfold validate_member; np. Qed.
#[local] Hint Resolve NP_validate_member : np.
Lemma NP_validate_msgs o d : NP (validate_msgs o d). Proof. unfold validate_msgs; np. Qed.
#[local] Hint Resolve NP_validate_msgs : np.

(* ---- Expand.v ---- *)
Lemma NP_get_ident a : NP (get_ident a). Proof. unfold get_ident; np. Qed.
Lemma NP_get_field_name_or a f : NP (get_field_name_or a f). Proof. unfold get_field_name_or; np. Qed.
Lemma NP_get_action_or a p c o : NP (get_action_or a p c o). Proof. unfold get_action_or; np. Qed.
Lemma NP_get_stuff a obj fp c o : NP (get_stuff a obj fp c o). Proof. unfold get_stuff; np. Qed.
#[local] Hint Resolve NP_get_ident NP_get_field_name_or NP_get_action_or NP_get_stuff : np.
Lemma NP_render_struct_line f c h i pc : NP (render_struct_line f c h i pc).
Proof. unfold render_struct_line. cbv zeta. np. Qed.
Lemma NP_render_ghost_line g c : NP (render_ghost_line g c). Proof. unfold render_ghost_line; np. Qed.
Lemma NP_render_enum_ghost_line g c : NP (render_enum_ghost_line g c). Proof. unfold render_enum_ghost_line; np. Qed.
Lemma NP_nth_str l n : NP (nth_str l n). Proof. unfold nth_str; np. Qed.
Lemma NP_wrap_struct c h n f : NP (wrap_struct c h n f). Proof. unfold wrap_struct; np. Qed.
#[local] Hint Resolve NP_render_struct_line NP_render_ghost_line NP_render_enum_ghost_line NP_nth_str NP_wrap_struct : np.

Lemma NP_member_loop (c : ictx) fc hint cf gf pf :
  (forall ch ms line, NP line -> NP (cf ch ms line)) -> (forall cp ms, NP (gf cp ms)) ->
  (forall f p ms line, NP line -> NP (pf f p ms line)) ->
  forall n members idx acc, NP (member_loop c fc hint cf gf pf n members idx acc).
Proof.
  intros Hcf Hgf Hpf. induction n as [|n IH]; intros members idx acc; cbn [member_loop]; [apply NP_oom|].
  destruct members as [|m rest]; [apply NP_ok|].
  apply NP_bind; [destruct fc as [[[cp o] depth]|]; np|]. intro brk. destruct brk; [apply NP_ok|].
  destruct (fc_data m) as [f|g|f p].
  - destruct (negb (is_from (c_kind c)) && (is_some (fv_ghost f) || fv_has_parent f)); [apply IH|].
    destruct (is_from (c_kind c) && match fv_ghost f with Some g => negb (is_some (fg_action g)) | None => false end); [apply IH|].
    apply NP_bind.
    + destruct (fv_child f); [apply Hcf; apply NP_render_struct_line | np].
    + intros [frag rest']. apply IH.
  - destruct (gd_path g); [|np]. apply NP_bind; [apply Hgf|]. intros [frag rest']. apply IH.
  - apply NP_bind; [apply Hpf; apply NP_render_struct_line|]. intros [frag rest']. apply IH.
Qed.

(* one-step unfoldings of the mutual descent *)
Lemma init_inner_S s c fuel members named fc :
  init_inner s c (S fuel) members named fc =
  (let hint0 := c_hint c in
   let hint := match fc with Some (_, Some (_, h), _) => h | _ => hint0 end in
   let depth_opt := option_map (fun x => snd x) fc in
   '(frags, rest) <-
     member_loop c fc hint
       (fun ch ms line => child_fragment s c fuel ch ms depth_opt hint line)
       (fun cp ms => child_fragment s c fuel cp ms depth_opt hint (Ok []))
       (fun f p ms line => parent_child_fragment s c fuel f p ms (pcf_named p) depth_opt line)
       (S (List.length members)) members 0 [] ;;
   ghosts <-
     (if negb (is_from (c_kind c)) then
        match sv_ghosts s with
        | Some ga =>
            mapM (fun x =>
              match gd_path x, fc with
              | Some gp, Some (cp, _, depth) =>
                  p <- nth_str (child_path_strs cp) depth ;;
                  if String.eqb (child_path_last gp) p then render_ghost_line x c else Ok []
              | None, None => render_ghost_line x c
              | _, _ => Ok []
              end) (sg_data ga)
        | None => Ok []
        end
      else Ok []) ;;
   let upd := match tc_update (c_core c) with
              | Some u => dotdot ++ quote_action u None c
              | None => []
              end in
   toks <- wrap_struct c hint named (frags ++ List.concat ghosts ++ upd) ;;
   Ok (toks, rest)).
Proof. reflexivity. Qed.

Lemma child_fragment_S s c fuel cp members depth hint line :
  child_fragment s c (S fuel) cp members depth hint line =
  (let len := List.length (child_path_strs cp) in
   let descend := match depth with None => true | Some d => Nat.ltb d (len - 1) end in
   if descend then
     let new_depth := match depth with None => 0 | Some d => S d end in
     if is_intoish (c_kind c) then
       match sv_child_parents s with
       | None => Panic "child_parents-unwrap"
       | Some cpa =>
           p <- nth_str (child_path_strs cp) new_depth ;;
           match find (fun x => String.eqb (cd_str x) p) (ca_data cpa) with
           | None => Panic "child_data-unwrap"
           | Some cd => render_child s c fuel (cd_ty cd, cd_hint cd) members (c_named c) cp new_depth hint
           end
       end
     else if is_into_existing (c_kind c) then
       p <- nth_str (child_path_strs cp) new_depth ;;
       let cd := find_child_data (sv_child_parents s) p in
       init_inner s c fuel members (c_named c) (Some (cp, option_map (fun x => (cd_ty x, cd_hint x)) cd, new_depth))
     else
       l <- line ;; Ok (l, tl members)
   else l <- line ;; Ok (l, tl members)).
Proof. reflexivity. Qed.

Lemma render_child_S s c fuel cd members named cp depth hint :
  render_child s c (S fuel) cd members named cp depth hint =
  match nth_error cp depth with
  | None => Panic "child_path-index"
  | Some name =>
      '(init, rest) <- init_inner s c fuel members named (Some (cp, Some cd, depth)) ;;
      let with_name := [member_tok name; P1 ":"] ++ fst cd ++ init ++ [comma] in
      let without := fst cd ++ init ++ [comma] in
      match c_named c, hint with
      | true, (HStruct | HUnspecified) => Ok (with_name, rest)
      | true, HTuple => Ok (without, rest)
      | false, (HTuple | HUnspecified) => Ok (without, rest)
      | false, HStruct => Ok (with_name, rest)
      | _, HUnit => Panic "15"
      end
  end.
Proof. reflexivity. Qed.

Lemma parent_child_fragment_S s c fuel f p members named depth line :
  parent_child_fragment s c (S fuel) f p members named depth line =
  (let descend := match depth with None => true | Some d => Nat.ltb d (List.length (pc_sub p)) end in
   if descend then
     let new_depth := match depth with None => 0 | Some d => S d end in
     if is_from (c_kind c) then
       ty <- (match depth with
              | Some d => match nth_error (pc_sub p) d with
                          | Some (_, Some t) => Ok t
                          | Some (_, None) => Panic "sub_path-type-unwrap"
                          | None => Panic "sub_path-index"
                          end
              | None => match fv_ty f with Some t => Ok t | None => Panic "field-ty-unwrap" end
              end) ;;
       let cp := fv_member f :: map fst (pc_sub p) in
       render_child s c fuel (ty, c_hint c) members named cp new_depth (if c_named c then HStruct else HTuple)
     else l <- line ;; Ok (l, tl members)
   else l <- line ;; Ok (l, tl members)).
Proof. reflexivity. Qed.

Lemma NP_init_mutual s c : forall fuel,
    (forall members named fc, NP (init_inner s c fuel members named fc)) /\
    (forall cp members depth hint line, NP line -> NP (child_fragment s c fuel cp members depth hint line)) /\
    (forall cd members named cp depth hint, NP (render_child s c fuel cd members named cp depth hint)) /\
    (forall f p members named depth line, NP line -> NP (parent_child_fragment s c fuel f p members named depth line)).
Proof.
  induction fuel as [|fuel [IHi [IHc [IHr IHp]]]].
  - repeat split; intros; cbn; apply NP_oom.
  - repeat split.
    + intros members named fc. rewrite init_inner_S. cbv zeta.
      apply NP_bind.
      * apply NP_member_loop; intros; [apply IHc; assumption | apply IHc; apply NP_ok | apply IHp; assumption].
      * intros [frags rest]. np.
    + intros cp members depth hint line Hl. rewrite child_fragment_S. cbv zeta.
      repeat match goal with
             | |- NP (render_child _ _ _ _ _ _ _ _ _) => apply IHr
             | |- NP (init_inner _ _ _ _ _ _) => apply IHi
             | |- NP line => exact Hl
             | _ => np_step
             end.
    + intros cd members named cp depth hint. rewrite render_child_S. destruct (nth_error cp depth); [|np].
      apply NP_bind; [apply IHi|]. intros [init rest]. cbv zeta. np.
    + intros f p members named depth line Hl. rewrite parent_child_fragment_S. cbv zeta.
      repeat match goal with
             | |- NP (render_child _ _ _ _ _ _ _ _ _) => apply IHr
             | |- NP line => exact Hl
             | _ => np_step
             end.
Qed.

Lemma NP_struct_init_block s c : NP (struct_init_block s c).
Proof. unfold struct_init_block. destruct (_ || _); [apply NP_ok|]. cbv zeta. apply NP_bind; [apply (NP_init_mutual s c)|]. intros [toks r]. apply NP_ok. Qed.
#[local] Hint Resolve NP_struct_init_block : np.
Lemma NP_variant_destruct_block s c : NP (variant_destruct_block s c). Proof. unfold variant_destruct_block. cbv zeta. np. Qed.
#[local] Hint Resolve NP_variant_destruct_block : np.
Lemma NP_render_enum_line v c : NP (render_enum_line v c). Proof. unfold render_enum_line. cbv zeta. np. Qed.
#[local] Hint Resolve NP_render_enum_line : np.
Lemma NP_enum_init_block vs g c : NP (enum_init_block vs g c). Proof. unfold enum_init_block. cbv zeta. np. Qed.
#[local] Hint Resolve NP_enum_init_block : np.
Lemma NP_main_code_block d c : NP (main_code_block d c).
Proof. unfold main_code_block, data_main_code_block, struct_main_code_block, enum_main_code_block; np. Qed.
Lemma NP_main_code_block_ok d c : NP (main_code_block_ok d c).
Proof. unfold main_code_block_ok, data_main_code_block, struct_main_code_block, enum_main_code_block; np. Qed.
Lemma NP_render_parent f c : NP (render_parent f c). Proof. unfold render_parent; np. Qed.
#[local] Hint Resolve NP_main_code_block NP_main_code_block_ok NP_render_parent : np.
Lemma NP_struct_post_init d c : NP (struct_post_init d c). Proof. unfold struct_post_init; np. Qed.
Lemma NP_err_env c : NP (err_env c). Proof. unfold err_env; np. Qed.
#[local] Hint Resolve NP_struct_post_init NP_err_env : np.
Lemma NP_quote_trait t c : NP (quote_trait t c). Proof. unfold quote_trait. cbv zeta. np. Qed.
#[local] Hint Resolve NP_quote_trait : np.
Lemma NP_data_type_impl d : NP (data_type_impl d). Proof. unfold data_type_impl, expand_impl; np. Qed.
#[local] Hint Resolve NP_data_type_impl : np.

Lemma NP_derive_res be order order_tp x : NP (derive_res be order order_tp x).
Proof. unfold derive_res, validate. np. Qed.
End NP.

(* ---- the whole pipeline: the model panics only at the listed sites ---- *)
Theorem model_panics_at_listed_sites : forall be order order_tp x s,
    derive_model be order order_tp x = OPanic s -> In s all_sites.
Proof.
  intros be order order_tp x s H. unfold derive_model in H. destruct (raw_has_none x); [discriminate|].
  destruct (derive_res be order order_tp x) as [[ts|errs]|m|site|w] eqn:E; try discriminate. injection H as <-.
  assert (N : NP all_sites (derive_res be order order_tp x)) by (apply NP_derive_res; cbn; tauto).
  apply (N site). exact E.
Qed.
