(* C13: grouping ANY number of instructions into one #[o2o(a(..), b(..), ...)] list (with or without a trailing comma) equals
   writing them as separate lists, in order - type level and member level, any arguments, both back ends. *)
From Coq Require Import List String Ascii Bool Arith Lia.
From O2o.Gen Require Import Tables.
From O2o.Model Require Import Tok Syn Attr Ast.
From O2o.Lemmas Require Import TablesFacts Spelling.
Import ListNotations.
Open Scope string_scope.
Open Scope list_scope.

Definition item := (string * list tok)%type.
Definition item_toks (x : item) : list tok := [TIdent (fst x); TGroup DParen (snd x)].
(* a(..), b(..), c(..)   -   `trailing` adds the comma syn's parse_terminated tolerates at the end *)
Fixpoint group_toks (l : list item) (trailing : bool) : list tok :=
  match l with
  | [] => []
  | [x] => item_toks x ++ (if trailing then [comma] else [])
  | x :: r => item_toks x ++ [comma] ++ group_toks r trailing
  end.
Definition singles (l : list item) : list raw_attr := map (fun x => o2o_attr (item_toks x)) l.

Section Groups.
  Variable be : backend.
  Variable Ins : Type.
  Variable pi : string -> list tok -> bool -> bool -> res Ins.

  Lemma o2o_item_at x rest : is_plain_ident be (fst x) = true ->
    o2o_item be pi (item_toks x ++ rest) = (i <- pi (fst x) (snd x) true true ;; Ok (i, rest)).
  Proof. intro H. unfold o2o_item, item_toks. cbn [app parse_ident]. rewrite H. cbn [bind optional_parenthesized]. reflexivity. Qed.

  Lemma terminated_group : forall l trailing fuel,
      Forall (fun x => is_plain_ident be (fst x) = true) l -> List.length l < fuel ->
      parse_terminated (o2o_item be pi) fuel (group_toks l trailing) = mapM (fun x => pi (fst x) (snd x) true true) l.
  Proof.
    induction l as [|x l IH]; intros trailing fuel Hf Hl; destruct fuel as [|fuel]; try (cbn in Hl; lia).
    - reflexivity.
    - inversion Hf as [|? ? Hx Hr]; subst. cbn [parse_terminated mapM]. destruct l as [|y l].
      + cbn [group_toks]. unfold item_toks at 1. cbn [app is_empty]. 
        change (TIdent (fst x) :: TGroup DParen (snd x) :: (if trailing then [comma] else [])) with (item_toks x ++ (if trailing then [comma] else [])).
        rewrite (o2o_item_at x _ Hx). destruct (pi (fst x) (snd x) true true) as [i| | |]; cbn [bind mapM]; try reflexivity.
        destruct trailing; cbn [is_empty]; [|reflexivity].
        unfold comma, P1, parse_punct. cbn [Ascii.eqb Bool.eqb bind]. destruct fuel; [cbn in Hl; lia|]. reflexivity.
      + change (group_toks (x :: y :: l) trailing) with (item_toks x ++ [comma] ++ group_toks (y :: l) trailing).
        assert (Hne : is_empty (item_toks x ++ [comma] ++ group_toks (y :: l) trailing) = false) by reflexivity. rewrite Hne.
        rewrite (o2o_item_at x _ Hx). destruct (pi (fst x) (snd x) true true) as [i| | |]; cbn [bind]; try reflexivity.
        cbn [app is_empty]. unfold comma at 1, P1, parse_punct. cbn [Ascii.eqb Bool.eqb bind].
        rewrite (IH trailing fuel Hr); [reflexivity | cbn [List.length] in *; lia].
  Qed.

  Lemma group_toks_length : forall l trailing, List.length l <= List.length (group_toks l trailing).
  Proof.
    induction l as [|x l IH]; intro trailing; [apply Nat.le_0_l|]. destruct l as [|y l].
    - cbn. lia.
    - change (group_toks (x :: y :: l) trailing) with (item_toks x ++ [comma] ++ group_toks (y :: l) trailing).
      rewrite !app_length. specialize (IH trailing). unfold item_toks. cbn [List.length] in *. lia.
  Qed.
End Groups.

Lemma ordinary_plain be n : ordinary be n -> is_plain_ident be n = true. Proof. intros [H _]. exact H. Qed.

(* type level *)
Theorem dt_o2o_group_n : forall be l trailing rest bark,
    Forall (fun x => ordinary be (fst x) /\ dt_stable (fst x) = true) l ->
    dt_instrs be (o2o_attr (group_toks l trailing) :: rest) bark = dt_instrs be (singles l ++ rest) bark.
Proof.
  intros be l trailing rest bark Hf.
  assert (Hp : Forall (fun x => is_plain_ident be (fst x) = true) l).
  { eapply Forall_impl; [|exact Hf]. intros x [Ho _]. exact (ordinary_plain be _ Ho). }
  unfold o2o_attr at 1. cbn [dt_instrs ra_path ra_toks String.eqb Ascii.eqb Bool.eqb]. unfold o2o_list_content. cbn [ra_toks bind].
  rewrite (terminated_group be _ (parse_data_type_instruction be) l trailing _ Hp); [|unfold fuel_of; apply Nat.lt_succ_r; apply group_toks_length].
  clear Hp. revert bark. induction l as [|x l IH]; intro bark.
  - cbn [mapM bind existsb singles map app]. destruct (dt_instrs be rest bark) as [[more b]| | |]; reflexivity.
  - inversion Hf as [|? ? [Ho Hs] Hr]; subst. cbn [mapM singles map app].
    unfold o2o_attr at 1. cbn [dt_instrs ra_path ra_toks String.eqb Ascii.eqb Bool.eqb]. unfold o2o_list_content. cbn [ra_toks bind].
    unfold item_toks at 2. cbn [fuel_of List.length parse_terminated is_empty].
    change [TIdent (fst x); TGroup DParen (snd x)] with (item_toks x ++ []).
    rewrite (o2o_item_at be _ (parse_data_type_instruction be) x [] (ordinary_plain be _ Ho)).
    destruct (parse_data_type_instruction be (fst x) (snd x) true true) as [i| | |] eqn:E; cbn [bind is_empty]; try reflexivity.
    assert (Hi := dt_stable_not_allow_unknown be _ _ _ _ _ Hs E). cbn [existsb]. rewrite Hi. cbn [orb].
    fold (singles l). rewrite <- (IH Hr bark).
    destruct (mapM _ l) as [is| | |]; cbn [bind]; try reflexivity.
    cbn [existsb]. rewrite Hi. cbn [orb].
    destruct (dt_instrs be rest (if existsb is_allow_unknown is then false else bark)) as [[more b]| | |]; reflexivity.
Qed.

(* member level *)
Theorem mb_o2o_group_n : forall be l trailing rest bark,
    Forall (fun x => ordinary be (fst x)) l ->
    mb_instrs be (o2o_attr (group_toks l trailing) :: rest) bark = mb_instrs be (singles l ++ rest) bark.
Proof.
  intros be l trailing rest bark Hf.
  assert (Hp : Forall (fun x => is_plain_ident be (fst x) = true) l).
  { eapply Forall_impl; [|exact Hf]. intros x Ho. exact (ordinary_plain be _ Ho). }
  unfold o2o_attr at 1. cbn [mb_instrs ra_path ra_toks String.eqb Ascii.eqb Bool.eqb]. unfold o2o_list_content. cbn [ra_toks bind].
  rewrite (terminated_group be _ (parse_member_instruction be) l trailing _ Hp); [|unfold fuel_of; apply Nat.lt_succ_r; apply group_toks_length].
  clear Hp. induction l as [|x l IH].
  - cbn [mapM bind singles map app]. destruct (mb_instrs be rest bark); reflexivity.
  - inversion Hf as [|? ? Ho Hr]; subst. cbn [mapM singles map app].
    unfold o2o_attr at 1. cbn [mb_instrs ra_path ra_toks String.eqb Ascii.eqb Bool.eqb]. unfold o2o_list_content. cbn [ra_toks bind].
    unfold item_toks at 2. cbn [fuel_of List.length parse_terminated is_empty].
    change [TIdent (fst x); TGroup DParen (snd x)] with (item_toks x ++ []).
    rewrite (o2o_item_at be _ (parse_member_instruction be) x [] (ordinary_plain be _ Ho)).
    destruct (parse_member_instruction be (fst x) (snd x) true true) as [i| | |]; cbn [bind is_empty]; try reflexivity.
    fold (singles l). rewrite <- (IH Hr).
    destruct (mapM _ l) as [is| | |]; cbn [bind]; try reflexivity.
    destruct (mb_instrs be rest bark) as [more| | |]; reflexivity.
Qed.

(* ... and the separate lists equal the directly written attributes, so: one list of any length = the bare attributes in order *)
Definition bares (l : list item) : list raw_attr := map (fun x => bare_attr (fst x) (snd x)) l.

Theorem dt_o2o_group_is_bare : forall be l trailing rest bark,
    Forall (fun x => ordinary be (fst x) /\ dt_stable (fst x) = true) l ->
    dt_instrs be (o2o_attr (group_toks l trailing) :: rest) bark = dt_instrs be (bares l ++ rest) bark.
Proof.
  intros be l trailing rest bark Hf. rewrite (dt_o2o_group_n be l trailing rest bark Hf). clear trailing.
  revert bark. induction l as [|x l IH]; intro bark; [reflexivity|]. inversion Hf as [|? ? [Ho Hs] Hr]; subst.
  cbn [singles bares map app]. fold (singles l). fold (bares l). specialize (IH Hr). set (sl := singles l) in *. set (bl := bares l) in *.
  unfold item_toks. rewrite (dt_o2o_single be (fst x) (snd x) _ bark Ho Hs).
  (* the head is now the same bare attribute on both sides: peel it *)
  unfold bare_attr at 1 2. cbn [dt_instrs ra_path]. destruct Ho as [_ [Hd Ho2]]. rewrite Hd, Ho2.
  destruct (bare_attr_tokens be _) as [toks| | |]; cbn [bind]; try reflexivity.
  destruct (parse_data_type_instruction be (fst x) toks false bark) as [i| | |]; cbn [bind]; try reflexivity.
  rewrite (IH bark). reflexivity.
Qed.

Theorem mb_o2o_group_is_bare : forall be l trailing rest bark,
    Forall (fun x => ordinary be (fst x) /\ mb_stable (fst x) = true) l ->
    mb_instrs be (o2o_attr (group_toks l trailing) :: rest) bark = mb_instrs be (bares l ++ rest) bark.
Proof.
  intros be l trailing rest bark Hf.
  rewrite (mb_o2o_group_n be l trailing rest bark); [|eapply Forall_impl; [|exact Hf]; intros x [Ho _]; exact Ho]. clear trailing.
  induction l as [|x l IH]; [reflexivity|]. inversion Hf as [|? ? [Ho Hs] Hr]; subst.
  cbn [singles bares map app]. fold (singles l). fold (bares l). specialize (IH Hr). set (sl := singles l) in *. set (bl := bares l) in *.
  unfold item_toks. rewrite (mb_o2o_single be (fst x) (snd x) _ bark Ho Hs).
  unfold bare_attr at 1 2. cbn [mb_instrs ra_path]. destruct Ho as [_ [Hd Ho2]]. rewrite Hd, Ho2.
  destruct (bare_attr_tokens be _) as [toks| | |]; cbn [bind]; try reflexivity.
  destruct (parse_member_instruction be (fst x) toks false bark) as [i| | |]; cbn [bind]; try reflexivity.
  rewrite IH. reflexivity.
Qed.
