(* C09: literal / pattern arms - tokens, order, and the first-match semantics of the generated match. *)
From Coq Require Import List String Ascii Bool Arith.
From O2o.Model Require Import Tok Syn Attr Ast Lookup Expand.
Import ListNotations.
Open Scope list_scope.

(* ---- the arms as rendered ---- *)
Definition unit_variant (v : vview) : Prop :=
  sv_fields (vv_struct v) = [] /\ vv_hint v = None /\ vv_attr v = None /\ vv_ghost v = None.

Lemma lit_arm_from : forall v c lit,
    unit_variant v -> vv_lit v = Some lit -> vv_pat v = None -> is_from (c_kind c) = true ->
    render_enum_line v c = Ok (lp_toks lit ++ fatarrow ++ c_dst c ++ colon2 ++ [TIdent (vv_ident v)] ++ [comma]).
Proof.
  intros v c lit [Hf [Hh [Ha Hg]]] Hl Hp Hk. unfold render_enum_line. rewrite Hf, Hh, Ha, Hl, Hp, Hk.
  cbn [is_empty_list negb andb orb hint_maybe hint_eqb bind app]. rewrite <- !app_assoc. reflexivity.
Qed.

Lemma pat_arm_from : forall v c pat,
    unit_variant v -> vv_lit v = None -> vv_pat v = Some pat -> is_from (c_kind c) = true ->
    render_enum_line v c = Ok (lp_toks pat ++ fatarrow ++ c_dst c ++ colon2 ++ [TIdent (vv_ident v)] ++ [comma]).
Proof.
  intros v c pat [Hf [Hh [Ha Hg]]] Hl Hp Hk. unfold render_enum_line. rewrite Hf, Hh, Ha, Hl, Hp, Hk.
  cbn [is_empty_list negb andb orb hint_maybe hint_eqb bind app]. rewrite <- !app_assoc. reflexivity.
Qed.

Lemma lit_arm_into : forall v c lit,
    unit_variant v -> vv_lit v = Some lit -> vv_pat v = None -> is_intoish (c_kind c) = true ->
    render_enum_line v c = Ok (c_src c ++ colon2 ++ [TIdent (vv_ident v)] ++ fatarrow ++ lp_toks lit ++ [comma]).
Proof.
  intros v c lit [Hf [Hh [Ha Hg]]] Hl Hp Hk. unfold render_enum_line. rewrite Hf, Hh, Ha, Hl, Hp, Hk.
  assert (F : is_from (c_kind c) = false) by (destruct (c_kind c); cbn in Hk |- *; congruence). rewrite F.
  cbn [is_empty_list negb andb orb hint_maybe hint_eqb bind app]. rewrite <- !app_assoc. reflexivity.
Qed.

(* arms come out in variant declaration order, the default case last *)
Lemma mapM_all_ok {A B} (f : A -> res B) (g : A -> B) l : (forall x, In x l -> f x = Ok (g x)) -> mapM f l = Ok (map g l).
Proof.
  induction l as [|x l IH]; intro H; cbn [mapM map]; [reflexivity|].
  rewrite (H x (or_introl eq_refl)). cbn [bind]. rewrite IH; [reflexivity|]. intros y Hy. apply H. right. exact Hy.
Qed.

Theorem arms_in_declaration_order : forall vs c (arm : vview -> list tok),
    (forall v, In v vs -> vv_ghost v = None /\ render_enum_line v c = Ok (arm v)) ->
    enum_init_block vs None c =
    Ok [brace (List.concat (map arm vs) ++
               match tc_default (c_core c) with
               | Some dc => if (is_from (c_kind c) && (existsb (fun v => is_some (vv_lit v) || is_some (vv_pat v)) vs || false))
                               || (negb (is_from (c_kind c)) && existsb (fun v => is_some (vv_ghost v)) vs)
                            then TIdent "_" :: quote_action dc None c else []
               | None => []
               end)].
Proof.
  intros vs c arm H. unfold enum_init_block.
  rewrite (mapM_all_ok _ arm).
  - cbn [bind List.concat app is_some]. reflexivity.
  - intros v Hv. destruct (H v Hv) as [Hg Hr]. rewrite Hg. cbn [is_some andb]. rewrite !andb_false_r. exact Hr.
Qed.

(* ---- semantics: Rust tries the arms in order (first match wins) ---- *)
Section FirstMatch.
  Variable Val : Type.
  Variable matches : list tok -> Val -> bool.       (* Rust's pattern semantics, uninterpreted *)
  Variable denote : list tok -> Val.                (* value of a literal *)

  Inductive arm := ALit (lit : list tok) (name : string) | APat (pat : list tok) (name : string).
  Definition arm_toks (a : arm) := match a with ALit l _ => l | APat p _ => p end.
  Definition arm_name (a : arm) := match a with ALit _ n => n | APat _ n => n end.

  (* From: the first arm whose pattern matches, else the default case (None) *)
  Definition eval_from (arms : list arm) (x : Val) : option string :=
    option_map arm_name (find (fun a => matches (arm_toks a) x) arms).
  (* Into: the variant's literal *)
  Definition eval_into (arms : list arm) (n : string) : option Val :=
    option_map (fun a => denote (arm_toks a)) (find (fun a => match a with ALit _ m => String.eqb m n | _ => false end) arms).

  (* a literal pattern matches exactly its value *)
  Hypothesis lit_spec : forall l x, matches l x = true <-> x = denote l.

  Theorem from_declaration_order : forall pre a post x,
      (forall b, In b pre -> matches (arm_toks b) x = false) -> matches (arm_toks a) x = true ->
      eval_from (pre ++ a :: post) x = Some (arm_name a).
  Proof.
    intros pre a post x Hpre Ha. unfold eval_from. induction pre as [|b pre IH]; cbn [app find].
    - rewrite Ha. reflexivity.
    - rewrite (Hpre b (or_introl eq_refl)). apply IH. intros b' Hb'. apply Hpre. right. exact Hb'.
  Qed.

  Theorem from_default : forall arms x, (forall b, In b arms -> matches (arm_toks b) x = false) -> eval_from arms x = None.
  Proof.
    intros arms x H. unfold eval_from. induction arms as [|b arms IH]; cbn [find]; [reflexivity|].
    rewrite (H b (or_introl eq_refl)). apply IH. intros b' Hb'. apply H. right. exact Hb'.
  Qed.

  (* round trip: literals pairwise distinct in value, no earlier pattern arm matches the literal *)
  Theorem round_trip : forall pre l n post,
      (forall b, In b pre -> match b with
                             | ALit l' _ => denote l' <> denote l
                             | APat p _ => matches p (denote l) = false
                             end) ->
      (forall b, In b pre -> match b with ALit _ m => m <> n | APat _ _ => True end) ->
      exists x, eval_into (pre ++ ALit l n :: post) n = Some x /\ eval_from (pre ++ ALit l n :: post) x = Some n.
  Proof.
    intros pre l n post Hd Hn. exists (denote l). split.
    - unfold eval_into. induction pre as [|b pre IH]; cbn [app find].
      + rewrite String.eqb_refl. reflexivity.
      + assert (Hb := Hn b (or_introl eq_refl)). destruct b as [l' m|p m].
        * apply String.eqb_neq in Hb. rewrite Hb. apply IH; intros b' Hb'; [apply Hd | apply Hn]; right; exact Hb'.
        * apply IH; intros b' Hb'; [apply Hd | apply Hn]; right; exact Hb'.
    - apply (from_declaration_order pre (ALit l n) post (denote l)).
      + intros b Hb. specialize (Hd b Hb). destruct b as [l' m|p m]; cbn [arm_toks]; [|exact Hd].
        destruct (matches l' (denote l)) eqn:E; [|reflexivity]. apply lit_spec in E. congruence.
      + cbn [arm_toks]. apply lit_spec. reflexivity.
  Qed.

  (* the guard is necessary: an earlier pattern that matches the literal wins (declaration order) *)
  Theorem earlier_pattern_wins : forall p m l n post,
      matches p (denote l) = true -> eval_from (APat p m :: ALit l n :: post) (denote l) = Some m.
  Proof. intros. unfold eval_from. cbn [find arm_toks]. rewrite H. reflexivity. Qed.
End FirstMatch.

(* the hypotheses are satisfiable: naturals as values, literals "0","1", a wildcard *)
Example first_match_instance :
  let matches := fun (p : list tok) (x : nat) => match p with [TIdent "_"] => true | [TLit "0"] => Nat.eqb x 0 | [TLit "1"] => Nat.eqb x 1 | _ => false end in
  eval_from nat matches [ALit [TLit "0"] "Zero"; APat [TIdent "_"] "Other"; ALit [TLit "1"] "One"] 1 = Some "Other"%string.
Proof. reflexivity. Qed.
