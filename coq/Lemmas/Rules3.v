(* C15, rule 5: a second default instruction, or a second instruction dedicated to the same counterpart, is reported - for every
   input and wherever the two instructions stand (type level: ghosts / child_parents / where_clause; member level: parent on struct
   fields, literal / pattern / type_hint on variants). *)
From Coq Require Import List String Bool Arith Lia.
From O2o.Model Require Import Tok Syn Attr Ast Lookup Validate Expand Derive.
From O2o.Lemmas Require Import Rules Rules2.
Import ListNotations.
Open Scope string_scope.
Open Scope list_scope.

Lemma count_two {A} (p : A -> bool) l1 a l2 b l3 : p a = true -> p b = true -> Nat.ltb 1 (count p (l1 ++ a :: l2 ++ b :: l3)) = true.
Proof.
  intros Ha Hb. unfold count. rewrite filter_app. cbn [filter]. rewrite Ha. rewrite filter_app. cbn [filter]. rewrite Hb.
  rewrite app_length. cbn [List.length]. rewrite app_length. cbn [List.length]. apply Nat.ltb_lt. lia.
Qed.

Definition dedicated_twice_msg (n : string) (tp : type_path) : string :=
  "Dedicated #[" ^^ n ^^ "(...)] instruction for type " ^^ tp_str tp ^^ " is already defined.".

Lemma dedicated_loop_seen {A} (ty_of : A -> option type_path) n tps : forall l seen b tp,
    In b l -> ty_of b = Some tp -> tp_in tp seen = true -> In (dedicated_twice_msg n tp) (dedicated_loop ty_of (Some n) tps l seen).
Proof.
  induction l as [|c l IH]; intros seen b tp Hin Hb Hs; [destruct Hin|]. cbn [dedicated_loop]. destruct Hin as [<-|Hin].
  - rewrite Hb, Hs. apply in_or_app. right. apply in_or_app. left. left. reflexivity.
  - destruct (ty_of c) as [tc|]; [|exact (IH seen b tp Hin Hb Hs)]. apply in_or_app. right. apply in_or_app. right.
    apply (IH (tc :: seen) b tp Hin Hb). unfold tp_in in *. cbn [existsb]. rewrite Hs. apply orb_true_r.
Qed.

Lemma dedicated_loop_dup {A} (ty_of : A -> option type_path) n tps : forall l1 a l2 b l3 seen ta tb,
    ty_of a = Some ta -> ty_of b = Some tb -> tp_eqb tb ta = true ->
    In (dedicated_twice_msg n tb) (dedicated_loop ty_of (Some n) tps (l1 ++ a :: l2 ++ b :: l3) seen).
Proof.
  induction l1 as [|c l1 IH]; intros a l2 b l3 seen ta tb Ha Hb He.
  - cbn [app dedicated_loop]. rewrite Ha. apply in_or_app. right. apply in_or_app. right.
    apply (dedicated_loop_seen ty_of n tps _ _ b tb); [apply in_or_app; right; left; reflexivity | exact Hb|].
    unfold tp_in. cbn [existsb]. rewrite He. reflexivity.
  - cbn [app dedicated_loop]. destruct (ty_of c) as [tc|]; [apply in_or_app; right; apply in_or_app; right|]; eapply IH; eauto.
Qed.

(* ---- type level ---- *)
Theorem rule_default_ghosts_twice : forall order_tp d msgs l1 a l2 b l3 k,
    validate_msgs order_tp d = Ok msgs -> d_ghosts (dt_get_attrs d) = l1 ++ a :: l2 ++ b :: l3 ->
    appl_get (ga_appl a) k = true -> appl_get (ga_appl b) k = true -> sg_ty (ga_core a) = None -> sg_ty (ga_core b) = None ->
    In "There can be at most one default #[ghosts(...)] instruction." msgs.
Proof.
  intros order_tp d msgs l1 a l2 b l3 k H Hl Ha Hb Hna Hnb. destruct (validate_msgs_parts _ _ _ H) as [m1 [m6 [-> _]]].
  do 3 (apply in_or_app; right). apply in_or_app. left. apply in_flat_map. exists k. split; [destruct k; cbn; tauto|].
  unfold validate_ghost_attrs. apply in_or_app. left. rewrite Hl, count_two; [left; reflexivity | |]; unfold ty_none.
  - rewrite Ha, Hna. reflexivity.
  - rewrite Hb, Hnb. reflexivity.
Qed.

Theorem rule_dedicated_ghosts_twice : forall order_tp d msgs l1 a l2 b l3 k ta tb,
    validate_msgs order_tp d = Ok msgs -> d_ghosts (dt_get_attrs d) = l1 ++ a :: l2 ++ b :: l3 ->
    appl_get (ga_appl a) k = true -> appl_get (ga_appl b) k = true -> sg_ty (ga_core a) = Some ta -> sg_ty (ga_core b) = Some tb ->
    tp_eqb tb ta = true ->
    In (dedicated_twice_msg "ghosts" tb) msgs.
Proof.
  intros order_tp d msgs l1 a l2 b l3 k ta tb H Hl Ha Hb Hta Htb He. destruct (validate_msgs_parts _ _ _ H) as [m1 [m6 [-> _]]].
  do 3 (apply in_or_app; right). apply in_or_app. left. apply in_flat_map. exists k. split; [destruct k; cbn; tauto|].
  unfold validate_ghost_attrs. apply in_or_app. right. rewrite Hl.
  destruct (filter_app_cons (fun x => appl_get (ga_appl x) k && is_some (sg_ty (ga_core x))) l1 a l2 b l3) as (n1 & n2 & n3 & E).
  { rewrite Ha, Hta. reflexivity. } { rewrite Hb, Htb. reflexivity. }
  rewrite E. eapply dedicated_loop_dup; eauto.
Qed.

Theorem rule_default_where_twice : forall order_tp d msgs l1 a l2 b l3,
    validate_msgs order_tp d = Ok msgs -> d_where (dt_get_attrs d) = l1 ++ a :: l2 ++ b :: l3 ->
    wa_ty a = None -> wa_ty b = None ->
    In "There can be at most one default #[where_clause(...)] instruction." msgs.
Proof.
  intros order_tp d msgs l1 a l2 b l3 H Hl Ha Hb. destruct (validate_msgs_parts _ _ _ H) as [m1 [m6 [-> _]]].
  do 5 (apply in_or_app; right). apply in_or_app. left. unfold validate_where_attrs. apply in_or_app. left.
  rewrite Hl, count_two; [left; reflexivity | |]; unfold ty_none; [rewrite Ha | rewrite Hb]; reflexivity.
Qed.

Theorem rule_dedicated_where_twice : forall order_tp d msgs l1 a l2 b l3 ta tb,
    validate_msgs order_tp d = Ok msgs -> d_where (dt_get_attrs d) = l1 ++ a :: l2 ++ b :: l3 ->
    wa_ty a = Some ta -> wa_ty b = Some tb -> tp_eqb tb ta = true ->
    In (dedicated_twice_msg "where_clause" tb) msgs.
Proof.
  intros order_tp d msgs l1 a l2 b l3 ta tb H Hl Ha Hb He. destruct (validate_msgs_parts _ _ _ H) as [m1 [m6 [-> _]]].
  do 5 (apply in_or_app; right). apply in_or_app. left. unfold validate_where_attrs. apply in_or_app. right.
  rewrite Hl. eapply dedicated_loop_dup; eauto.
Qed.

Theorem rule_default_child_parents_twice : forall order_tp d msgs l1 a l2 b l3,
    validate_msgs order_tp d = Ok msgs -> d_child_parents (dt_get_attrs d) = l1 ++ a :: l2 ++ b :: l3 ->
    ca_ty a = None -> ca_ty b = None ->
    In "There can be at most one default #[child_parents(...)] instruction." msgs.
Proof.
  intros order_tp d msgs l1 a l2 b l3 H Hl Ha Hb. destruct (validate_msgs_parts _ _ _ H) as [m1 [m6 [-> _]]].
  do 4 (apply in_or_app; right). apply in_or_app. left. unfold validate_child_parents_attrs. apply in_or_app. left.
  rewrite Hl, count_two; [left; reflexivity | |]; unfold ty_none; [rewrite Ha | rewrite Hb]; reflexivity.
Qed.

Lemma child_parents_loop_seen tps : forall l seen b tp,
    In b l -> ca_ty b = Some tp -> tp_in tp seen = true ->
    In (dedicated_twice_msg "child_parents" tp) (validate_child_parents_loop l tps seen).
Proof.
  induction l as [|c l IH]; intros seen b tp Hin Hb Hs; [destruct Hin|]. cbn [validate_child_parents_loop]. destruct Hin as [<-|Hin].
  - rewrite Hb, Hs. apply in_or_app. left. apply in_or_app. right. left. reflexivity.
  - destruct (ca_ty c) as [tc|]; apply in_or_app; right; apply in_or_app; right.
    + apply (IH (tc :: seen) b tp Hin Hb). unfold tp_in in *. cbn [existsb]. rewrite Hs. apply orb_true_r.
    + exact (IH seen b tp Hin Hb Hs).
Qed.

Theorem rule_dedicated_child_parents_twice : forall order_tp d msgs l1 a l2 b l3 ta tb,
    validate_msgs order_tp d = Ok msgs -> d_child_parents (dt_get_attrs d) = l1 ++ a :: l2 ++ b :: l3 ->
    ca_ty a = Some ta -> ca_ty b = Some tb -> tp_eqb tb ta = true ->
    In (dedicated_twice_msg "child_parents" tb) msgs.
Proof.
  intros order_tp d msgs l1 a l2 b l3 ta tb H Hl Ha Hb He. destruct (validate_msgs_parts _ _ _ H) as [m1 [m6 [-> _]]].
  do 4 (apply in_or_app; right). apply in_or_app. left. unfold validate_child_parents_attrs. apply in_or_app. right. rewrite Hl. clear Hl H.
  generalize (@nil type_path) as seen. induction l1 as [|c l1 IH]; intro seen.
  - cbn [app validate_child_parents_loop]. rewrite Ha. apply in_or_app. right. apply in_or_app. right.
    apply (child_parents_loop_seen _ _ _ b tb); [apply in_or_app; right; left; reflexivity | exact Hb|].
    unfold tp_in. cbn [existsb]. rewrite He. reflexivity.
  - cbn [app validate_child_parents_loop]. destruct (ca_ty c); apply in_or_app; right; apply in_or_app; right; apply IH.
Qed.

(* ---- member level ---- *)
Lemma member_default_twice {A} (ty_of : A -> option type_path) n tps l1 a l2 b l3 :
  ty_of a = None -> ty_of b = None ->
  In ("There can be at most one default #[" ^^ n ^^ "(...)] instruction for a given member.")
     (validate_dedicated_member_attrs (l1 ++ a :: l2 ++ b :: l3) ty_of (Some n) tps).
Proof.
  intros Ha Hb. unfold validate_dedicated_member_attrs. apply in_or_app. left.
  rewrite count_two; [left; reflexivity | |]; unfold ty_none; [rewrite Ha | rewrite Hb]; reflexivity.
Qed.
Lemma member_dedicated_twice {A} (ty_of : A -> option type_path) n tps l1 a l2 b l3 ta tb :
  ty_of a = Some ta -> ty_of b = Some tb -> tp_eqb tb ta = true ->
  In (dedicated_twice_msg n tb) (validate_dedicated_member_attrs (l1 ++ a :: l2 ++ b :: l3) ty_of (Some n) tps).
Proof. intros Ha Hb He. unfold validate_dedicated_member_attrs. apply in_or_app. right. eapply dedicated_loop_dup; eauto. Qed.

(* where a member's messages sit in the whole collection *)
Lemma field_msgs_in : forall order_tp s msgs f m,
    validate_msgs order_tp (DStruct s) = Ok msgs -> In f (s_fields s) ->
    (forall by_kind tps r, validate_member false (s_named s) true (f_attrs f) by_kind tps = Ok r -> In m r) -> In m msgs.
Proof.
  intros order_tp s msgs f m H Hin Hm. destruct (validate_msgs_parts _ _ _ H) as [m1 [m6 [-> H6]]].
  destruct (mapM_in _ _ _ _ H6 Hin) as [y [Hy Hiny]].
  do 6 (apply in_or_app; right). apply in_or_app. left. apply in_concat. exists y. split; [exact Hiny | exact (Hm _ _ _ Hy)].
Qed.
Lemma variant_msgs_in : forall order_tp e msgs v m,
    validate_msgs order_tp (DEnum e) = Ok msgs -> In v (e_variants e) ->
    (forall by_kind tps r, validate_member true false false (v_attrs v) by_kind tps = Ok r -> In m r) -> In m msgs.
Proof.
  intros order_tp e msgs v m H Hin Hm. destruct (validate_msgs_parts _ _ _ H) as [m1 [m6 [-> H6]]].
  destruct (mapM_in _ _ _ _ H6 Hin) as [y [Hy Hiny]].
  do 6 (apply in_or_app; right). apply in_or_app. left. apply in_concat. exists y. split; [exact Hiny | exact (Hm _ _ _ Hy)].
Qed.

Ltac member_ok H :=
  unfold validate_member in H; cbv zeta in H;
  match type of H with context [bind ?e _] => destruct e as [errs| | |]; cbn [bind] in H; try discriminate H end;
  injection H as <-.

Theorem rule_default_parent_twice : forall order_tp s msgs f l1 a l2 b l3,
    validate_msgs order_tp (DStruct s) = Ok msgs -> In f (s_fields s) -> m_parent (f_attrs f) = l1 ++ a :: l2 ++ b :: l3 ->
    pa_ty a = None -> pa_ty b = None ->
    In "There can be at most one default #[parent(...)] instruction for a given member." msgs.
Proof.
  intros order_tp s msgs f l1 a l2 b l3 H Hin Hl Ha Hb. apply (field_msgs_in _ _ _ f _ H Hin). intros by_kind tps r Hr. member_ok Hr.
  apply in_or_app. right. apply in_or_app. left. do 6 (apply in_or_app; right). apply in_or_app. left. rewrite Hl.
  exact (member_default_twice pa_ty "parent" tps l1 a l2 b l3 Ha Hb).
Qed.

Theorem rule_dedicated_parent_twice : forall order_tp s msgs f l1 a l2 b l3 ta tb,
    validate_msgs order_tp (DStruct s) = Ok msgs -> In f (s_fields s) -> m_parent (f_attrs f) = l1 ++ a :: l2 ++ b :: l3 ->
    pa_ty a = Some ta -> pa_ty b = Some tb -> tp_eqb tb ta = true ->
    In (dedicated_twice_msg "parent" tb) msgs.
Proof.
  intros order_tp s msgs f l1 a l2 b l3 ta tb H Hin Hl Ha Hb He. apply (field_msgs_in _ _ _ f _ H Hin). intros by_kind tps r Hr. member_ok Hr.
  apply in_or_app. right. apply in_or_app. left. do 6 (apply in_or_app; right). apply in_or_app. left. rewrite Hl.
  exact (member_dedicated_twice pa_ty "parent" tps l1 a l2 b l3 ta tb Ha Hb He).
Qed.

(* literal / pattern / type_hint on a variant *)
Theorem rule_default_variant_instr_twice : forall order_tp e msgs v,
    validate_msgs order_tp (DEnum e) = Ok msgs -> In v (e_variants e) ->
    (forall l1 a l2 b l3, m_lit (v_attrs v) = l1 ++ a :: l2 ++ b :: l3 -> lp_ty a = None -> lp_ty b = None ->
       In "There can be at most one default #[literal(...)] instruction for a given member." msgs) /\
    (forall l1 a l2 b l3, m_pat (v_attrs v) = l1 ++ a :: l2 ++ b :: l3 -> lp_ty a = None -> lp_ty b = None ->
       In "There can be at most one default #[pattern(...)] instruction for a given member." msgs) /\
    (forall l1 a l2 b l3, m_hint (v_attrs v) = l1 ++ a :: l2 ++ b :: l3 -> th_ty a = None -> th_ty b = None ->
       In "There can be at most one default #[type_hint(...)] instruction for a given member." msgs).
Proof.
  intros order_tp e msgs v H Hin. split; [|split]; intros l1 a l2 b l3 Hl Ha Hb; apply (variant_msgs_in _ _ _ v _ H Hin); intros by_kind tps r Hr; member_ok Hr;
    apply in_or_app; right; apply in_or_app; left; apply in_or_app; right.
  - apply in_or_app. left. rewrite Hl. exact (member_default_twice lp_ty "literal" tps l1 a l2 b l3 Ha Hb).
  - apply in_or_app. right. apply in_or_app. left. rewrite Hl. exact (member_default_twice lp_ty "pattern" tps l1 a l2 b l3 Ha Hb).
  - apply in_or_app. right. apply in_or_app. right. rewrite Hl. exact (member_default_twice th_ty "type_hint" tps l1 a l2 b l3 Ha Hb).
Qed.

Theorem rule_dedicated_variant_instr_twice : forall order_tp e msgs v,
    validate_msgs order_tp (DEnum e) = Ok msgs -> In v (e_variants e) ->
    (forall l1 a l2 b l3 ta tb, m_lit (v_attrs v) = l1 ++ a :: l2 ++ b :: l3 -> lp_ty a = Some ta -> lp_ty b = Some tb -> tp_eqb tb ta = true ->
       In (dedicated_twice_msg "literal" tb) msgs) /\
    (forall l1 a l2 b l3 ta tb, m_pat (v_attrs v) = l1 ++ a :: l2 ++ b :: l3 -> lp_ty a = Some ta -> lp_ty b = Some tb -> tp_eqb tb ta = true ->
       In (dedicated_twice_msg "pattern" tb) msgs) /\
    (forall l1 a l2 b l3 ta tb, m_hint (v_attrs v) = l1 ++ a :: l2 ++ b :: l3 -> th_ty a = Some ta -> th_ty b = Some tb -> tp_eqb tb ta = true ->
       In (dedicated_twice_msg "type_hint" tb) msgs).
Proof.
  intros order_tp e msgs v H Hin. split; [|split]; intros l1 a l2 b l3 ta tb Hl Ha Hb He; apply (variant_msgs_in _ _ _ v _ H Hin); intros by_kind tps r Hr; member_ok Hr;
    apply in_or_app; right; apply in_or_app; left; apply in_or_app; right.
  - apply in_or_app. left. rewrite Hl. exact (member_dedicated_twice lp_ty "literal" tps l1 a l2 b l3 ta tb Ha Hb He).
  - apply in_or_app. right. apply in_or_app. left. rewrite Hl. exact (member_dedicated_twice lp_ty "pattern" tps l1 a l2 b l3 ta tb Ha Hb He).
  - apply in_or_app. right. apply in_or_app. right. rewrite Hl. exact (member_dedicated_twice th_ty "type_hint" tps l1 a l2 b l3 ta tb Ha Hb He).
Qed.

(* ---- rule 6: every misplaced / misnamed / unsupported instruction the parser recorded is reported, at type level and on every
   struct field and variant, wherever it stands ---- *)
Definition dt_error_msg (is_enum : bool) (e : dt_instr) : option string :=
  match e with
  | DMisnamed instr guess own =>
      Some (if is_enum && String.eqb instr "child"
            then "Member instruction '" ^^ instr ^^ "' is not applicable to enums." ^^ postfix own
            else "Perhaps you meant '" ^^ guess ^^ "'?" ^^ postfix own)
  | DMisplaced instr own =>
      Some (if is_enum && (String.eqb instr "parent" || String.eqb instr "as_type")
            then "Member instruction '" ^^ instr ^^ "' is not applicable to enums." ^^ postfix own
            else "Member instruction '" ^^ instr ^^ "' should be used on a member." ^^ postfix own)
  | DUnrecErr instr => Some ("Struct instruction '" ^^ instr ^^ "' is not supported.")
  | _ => None
  end.
Definition member_error_msg (is_enum : bool) (e : mb_instr) : option string :=
  match e with
  | MMisnamed instr guess own =>
      Some (if is_enum && String.eqb instr "children"
            then "Struct instruction '" ^^ instr ^^ "' is not applicable to enums." ^^ postfix own
            else "Perhaps you meant '" ^^ guess ^^ "'?" ^^ postfix own)
  | MMisplaced instr own => Some ("Struct instruction '" ^^ instr ^^ "' should be used on a struct." ^^ postfix own)
  | MUnrecErr instr => Some ("Member instruction '" ^^ instr ^^ "' is not supported.")
  | _ => None
  end.

Theorem rule_type_level_error_instr_reported : forall order_tp d msgs e,
    validate_msgs order_tp d = Ok msgs -> In e (d_errs (dt_get_attrs d)) ->
    exists m, dt_error_msg (match d with DEnum _ => true | _ => false end) e = Some m /\ In m msgs.
Proof.
  intros order_tp d msgs e H Hin. unfold validate_msgs in H.
  destruct (validate_error_instrs _ _) as [m1| | |] eqn:E1; cbn [bind] in H; try discriminate H.
  unfold validate_error_instrs in E1. destruct (mapM_in _ _ _ _ E1 Hin) as [m [Hm Hinm]].
  exists m. split.
  - destruct e; cbn [dt_error_msg]; try discriminate Hm;
      repeat match type of Hm with (if ?b then _ else _) = _ => destruct b end; injection Hm as <-; reflexivity.
  - match type of H with context [bind ?x _] => destruct x as [m6| | |]; cbn [bind] in H; try discriminate H end.
    injection H as <-. apply in_or_app. right. apply in_or_app. left. exact Hinm.
Qed.

Lemma member_error_in is_enum named_root is_field m by_kind tps r e :
  validate_member is_enum named_root is_field m by_kind tps = Ok r -> In e (m_errs m) ->
  exists msg, member_error_msg is_enum e = Some msg /\ In msg r.
Proof.
  intros H Hin. unfold validate_member in H. cbv zeta in H.
  destruct (validate_member_error_instrs is_enum m) as [errs| | |] eqn:E; cbn [bind] in H; try discriminate H. injection H as <-.
  unfold validate_member_error_instrs in E. destruct (mapM_in _ _ _ _ E Hin) as [msg [Hm Hinm]]. exists msg. split.
  - destruct e; cbn [member_error_msg]; try discriminate Hm;
      repeat match type of Hm with (if ?b then _ else _) = _ => destruct b end; injection Hm as <-; reflexivity.
  - apply in_or_app. right. apply in_or_app. right. exact Hinm.
Qed.

Theorem rule_field_error_instr_reported : forall order_tp s msgs f e,
    validate_msgs order_tp (DStruct s) = Ok msgs -> In f (s_fields s) -> In e (m_errs (f_attrs f)) ->
    exists m, member_error_msg false e = Some m /\ In m msgs.
Proof.
  intros order_tp s msgs f e H Hinf Hine. destruct (validate_msgs_parts _ _ _ H) as [m1 [m6 [-> H6]]].
  destruct (mapM_in _ _ _ _ H6 Hinf) as [y [Hy Hiny]]. destruct (member_error_in _ _ _ _ _ _ _ _ Hy Hine) as [m [Hm Hinm]].
  exists m. split; [exact Hm|]. do 6 (apply in_or_app; right). apply in_or_app. left. apply in_concat. exists y. split; assumption.
Qed.

Theorem rule_variant_error_instr_reported : forall order_tp en msgs v e,
    validate_msgs order_tp (DEnum en) = Ok msgs -> In v (e_variants en) -> In e (m_errs (v_attrs v)) ->
    exists m, member_error_msg true e = Some m /\ In m msgs.
Proof.
  intros order_tp en msgs v e H Hinv Hine. destruct (validate_msgs_parts _ _ _ H) as [m1 [m6 [-> H6]]].
  destruct (mapM_in _ _ _ _ H6 Hinv) as [y [Hy Hiny]]. destruct (member_error_in _ _ _ _ _ _ _ _ Hy Hine) as [m [Hm Hinm]].
  exists m. split; [exact Hm|]. do 6 (apply in_or_app; right). apply in_or_app. left. apply in_concat. exists y. split; assumption.
Qed.

(* ---- rule 9, the enum half: a tuple variant mapped to a struct-form counterpart variant (`#[type_hint(as {})]`) whose payload field
   carries no instruction for the conversion - for every variant, payload field, trait instruction and kind ---- *)
Lemma variant_order_listed : forall k f, In (k, f) variant_by_kind_order.
Proof. intros k f; destruct k, f; cbn; tauto. Qed.

Theorem rule_tuple_variant_to_named_without_names : forall order_tp e msgs v f ta k h,
    validate_msgs order_tp (DEnum e) = Ok msgs ->
    In v (e_variants e) -> v_named v = false -> In f (v_fields v) ->
    In ta (iter_for_kind (e_attrs e) k (ta_fallible ta)) -> tc_qret (ta_core ta) = None ->
    m_hint_for (v_attrs v) (tc_ty (ta_core ta)) = Some h -> th_hint h = HStruct ->
    m_ghost_for (f_attrs f) (tc_ty (ta_core ta)) k = None -> has_parent_attr (f_attrs f) (tc_ty (ta_core ta)) = false ->
    applicable_field_attr (f_attrs f) k false (tc_ty (ta_core ta)) = None ->
    In ("Member " ^^ member_str (f_member f) ^^ " of a variant " ^^ v_ident v ^^ " should have member trait instruction with field name" ^^
        (if is_from k then " or an action" else "") ^^
        ", that corresponds to #[" ^^ fallible_kind_str k (ta_fallible ta) ^^ "(" ^^ tp_str (tc_ty (ta_core ta)) ^^ "...)] trait instruction") msgs.
Proof.
  intros order_tp e msgs v f ta k h H Hv Hn Hf Hta Hq Hh Hhs Hg Hpa Hap.
  destruct (validate_msgs_parts _ _ _ H) as [m1 [m6 [-> _]]]. cbn [dt_get_attrs] in *.
  do 7 (apply in_or_app; right). apply in_flat_map. exists v. split; [exact Hv|].
  unfold validate_variant_fields. rewrite Hn. apply in_flat_map. exists (k, ta_fallible ta). split; [apply variant_order_listed|].
  cbn [fst snd]. apply in_flat_map. exists ta. split; [exact Hta|]. cbv zeta. rewrite Hh, Hhs, Hq. cbn [is_some negb hint_eqb andb].
  unfold check_unnamed_fields. apply in_flat_map. exists f. split; [exact Hf|]. rewrite Hg, Hpa. cbn [is_some orb]. rewrite Hap. left. reflexivity.
Qed.
