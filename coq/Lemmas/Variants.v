(* C02: payload fields inside enum variants - bindings, designated places and values, arms. *)
From Coq Require Import List String Ascii Bool Arith.
From O2o.Model Require Import Tok Syn Attr Ast Lookup Expand.
From O2o.Lemmas Require Import Designated.
Import ListNotations.
Open Scope list_scope.

(* the binding that stands for a payload field on the deriving side: its name, or f<index> *)
Definition own_binding (f : fview) : member :=
  match fv_member f with MNamed n => MNamed n | MIndex i => MNamed (f_ident i) end.

Definition payload_field (f : fview) (c : ictx) : Prop :=
  fv_child f = None /\ fv_has_parent f = false /\ is_variant c = true /\ c_post_init c = false.

(* Into: the value is the instruction's expression with ~ = the binding, else the binding *)
Definition value_out_v (f : fview) (c : ictx) : res (list tok) :=
  match fv_attr f with
  | None => Ok [member_tok (own_binding f)]
  | Some a => get_action_or a (Some [member_tok (own_binding f)]) c [member_tok (own_binding f)]
  end.

Definition spec_line_out_v (f : fview) (c : ictx) (hint : type_hint) : res (list tok) :=
  match dest_named (fv_member f) hint with
  | None => Ok []
  | Some true => p <- place_named f ;; v <- value_out_v f c ;; Ok ([member_tok p; P1 ":"] ++ v ++ [comma])
  | Some false => v <- value_out_v f c ;; Ok (v ++ [comma])
  end.

Theorem payload_line_out : forall f c hint idx,
    payload_field f c -> is_intoish (c_kind c) = true ->
    render_struct_line f c hint idx None = spec_line_out_v f c hint.
Proof.
  intros f c hint idx [Hc [Hp [Hv Hpi]]] Hk.
  unfold render_struct_line, spec_line_out_v, value_out_v, place_named, own_binding, dest_named.
  rewrite Hc, Hv, Hpi.
  destruct (fv_member f) as [n|i]; destruct (fv_attr f) as [a|]; destruct hint; destruct (c_kind c);
    cbn [is_intoish] in Hk; try discriminate Hk;
    cbn [is_intoish is_into_existing is_from hint_su hint_tu hint_eqb andb orb negb is_named_member bind member_tok app];
    try rewrite Hp; try reflexivity;
    repeat match goal with
           | |- context [get_field_name_or ?a ?m] => destruct (get_field_name_or a m); cbn [bind]; try reflexivity
           | |- context [get_ident ?a] => destruct (get_ident a); cbn [bind]; try reflexivity
           | |- context [get_action_or ?a ?p ?c ?o] => destruct (get_action_or a p c o); cbn [bind]; try reflexivity
           end.
Qed.

(* From: the binding read by default: the counterpart field's name (= own name), or f<position> when
   the counterpart variant is in tuple form *)
Definition default_binding (f : fview) (hint : type_hint) : member :=
  match fv_member f, hint with
  | MNamed _, HTuple => MNamed (f_ident (fv_idx f))
  | MNamed n, _ => MNamed n
  | MIndex i, _ => MNamed (f_ident i)
  end.

Definition value_in_v (f : fview) (c : ictx) (hint : type_hint) : res (list tok) :=
  match fv_attr f with
  | None =>
      match fv_member f, hint with
      | MIndex _, HStruct => Panic "6"
      | _, _ => Ok [member_tok (default_binding f hint)]
      end
  | Some a => get_stuff a [] (fun x => [member_tok x]) c (default_binding f hint)
  end.

Definition spec_line_in_v (f : fview) (c : ictx) (hint : type_hint) : res (list tok) :=
  v <- value_in_v f c hint ;;
  match fv_member f with
  | MNamed n => Ok ([TIdent n; P1 ":"] ++ v ++ [comma])
  | MIndex _ => Ok (v ++ [comma])
  end.

Theorem payload_line_in : forall f c hint idx,
    payload_field f c -> is_from (c_kind c) = true ->
    render_struct_line f c hint idx None = spec_line_in_v f c hint.
Proof.
  intros f c hint idx [Hc [Hp [Hv Hpi]]] Hk.
  unfold render_struct_line, spec_line_in_v, value_in_v, default_binding.
  rewrite Hc, Hv, Hpi, Hk, Hp.
  destruct (fv_member f) as [n|i]; destruct (fv_attr f) as [a|]; destruct hint; destruct (c_kind c);
    cbn [is_from] in Hk; try discriminate Hk;
    cbn [is_intoish is_into_existing is_from hint_su hint_tu hint_eqb andb orb negb bind member_tok app];
    try reflexivity;
    repeat match goal with
           | |- context [get_stuff ?a ?o ?p ?c ?m] => destruct (get_stuff a o p c m); cbn [bind]; try reflexivity
           end.
Qed.

(* the pattern of an arm binds, when converting into the counterpart, every payload field under the
   very binding its line reads: names for a struct variant, f0, f1, .. for a tuple variant *)
Theorem destruct_binds_own : forall s c,
    is_from (c_kind c) = false -> sv_ghosts s = None \/ True ->
    variant_destruct_block s c =
    Ok [if sv_named s then brace (flat_map (fun x => [member_tok (fv_member x); comma]) (sv_fields s))
        else paren (flat_map (fun x => [TIdent (f_ident (fv_idx x)); comma]) (sv_fields s))].
Proof.
  intros s c Hk _. unfold variant_destruct_block. cbv zeta. destruct (is_from (c_kind c)); [discriminate Hk|].
  cbn [negb orb andb]. rewrite !andb_false_r. cbn [orb].
  assert (Hl : forall l : list fview, filter (fun _ => true) l = l)
    by (induction l as [|x l IH]; cbn [filter]; [reflexivity | rewrite IH; reflexivity]).
  rewrite !Hl. destruct (sv_named s); cbn [andb orb negb].
  - assert (E : forall l : list fview, mapM (fun x : fview => Ok [member_tok (fv_member x); comma]) l
               = Ok (map (fun x => [member_tok (fv_member x); comma]) l)).
    { induction l as [|x l IH]; cbn [mapM map]; [reflexivity|]. cbn [bind]. rewrite IH. reflexivity. }
    rewrite E. cbn [bind app]. rewrite app_nil_r. rewrite <- flat_map_concat_map. reflexivity.
  - cbn [bind app]. rewrite app_nil_r. reflexivity.
Qed.

(* an arm without variant-level instruction, literal or pattern:  Src::V <pattern> => Dst::V <payload>, *)
Theorem plain_arm : forall v c,
    vv_attr v = None -> vv_lit v = None -> vv_pat v = None ->
    render_enum_line v c =
    (let hint := match vv_hint v with Some h => th_hint h | None => HUnspecified end in
     let s := vv_struct v in
     let nc := {| c_kind := c_kind c; c_fallible := c_fallible c; c_core := c_core c; c_hint := hint; c_impl_type := ITVariant;
                  c_dst := c_dst c; c_src := c_src c; c_post_init := c_post_init c; c_named := sv_named s |} in
     let empty_fields := is_empty_list (sv_fields s) in
     destr <- (if empty_fields && (negb (is_from (c_kind c)) || hint_maybe hint HUnit) then Ok []
               else if empty_fields && is_from (c_kind c) && hint_eqb hint HTuple then Ok [paren dotdot]
               else if empty_fields && is_from (c_kind c) && hint_eqb hint HStruct then Ok [brace dotdot]
               else variant_destruct_block s nc) ;;
     init <- (if empty_fields && hint_maybe hint HUnit then Ok [] else struct_init_block s nc) ;;
     Ok ((c_src c ++ colon2 ++ [TIdent (vv_ident v)]) ++ destr ++ fatarrow ++ (c_dst c ++ colon2 ++ [TIdent (vv_ident v)]) ++ init ++ [comma])).
Proof.
  intros v c Ha Hl Hp. unfold render_enum_line. rewrite Ha, Hl, Hp. cbn [orb].
  repeat match goal with |- context [bind ?r _] => destruct r; cbn [bind]; try reflexivity end.
Qed.
