(* C20: the library names the generated code can mention come from the (regenerated) quote! templates. *)
From Coq Require Import List String Ascii Bool Arith.
From O2o.Model Require Import Tok Syn Attr Ast Lookup Expand.
From O2o.Gen Require Import Skeleton.
Import ListNotations.
Open Scope string_scope.
Open Scope list_scope.

Fixpoint stok_idents (t : stok) : list string :=
  match t with
  | SI s => [s]
  | SG _ l => (fix go (l : list stok) : list string := match l with [] => [] | x :: r => stok_idents x ++ go r end) l
  | _ => []
  end.
Definition stoks_idents (l : list stok) : list string := flat_map stok_idents l.

(* templates flattened (groups opened); then every `::`-path: its first two segments *)
Fixpoint sflat (t : stok) : list stok :=
  match t with
  | SG _ l => SP "(" false :: (fix go (l : list stok) : list stok := match l with [] => [] | x :: r => sflat x ++ go r end) l ++ [SP ")" false]
  | _ => [t]
  end.
Fixpoint rooted (l : list stok) : list (string * string) :=
  match l with
  | SP ":" true :: SP ":" false :: SI a :: SP ":" true :: SP ":" false :: SI b :: r => (a, b) :: rooted r
  | _ :: r => rooted r
  | [] => []
  end.

Definition allow_idents : list string :=
  ["impl"; "for"; "fn"; "let"; "mut"; "type"; "self"; "core"; "convert"; "From"; "Into"; "TryFrom"; "TryInto"; "result"; "Result";
   "o2o"; "traits"; "IntoExisting"; "TryIntoExisting"; "from"; "into"; "try_from"; "try_into"; "into_existing"; "try_into_existing";
   "value"; "other"; "obj"; "Error"; "Ok"; "Default"; "default"].

Definition all_templates : list (list stok) :=
  map snd all_skeletons ++ map snd sk_render_parent.

Definition templates_no_std : bool :=
  forallb (fun sk => forallb (fun i => str_in i allow_idents) (stoks_idents sk)) all_templates &&
  forallb (fun sk => forallb (fun p => (String.eqb (fst p) "core" && (String.eqb (snd p) "convert" || String.eqb (snd p) "result"))
                                        || (String.eqb (fst p) "traits"))   (* o2o::traits::X is matched from its second `::` on *)
                             (rooted (flat_map sflat sk))) all_templates &&
  negb (existsb (fun sk => existsb (fun i => str_in i ["std"; "alloc"]) (stoks_idents sk)) all_templates) &&
  Nat.eqb (List.length all_templates) 18.

Lemma templates_ok : templates_no_std = true.
Proof. vm_compute. reflexivity. Qed.

(* the conversion call of a bare #[parent] and the few identifiers the line renderer writes itself *)
Fixpoint tok_idents (t : tok) : list string :=
  match t with
  | TIdent s => [s]
  | TGroup _ l => (fix go (l : list tok) : list string := match l with [] => [] | x :: r => tok_idents x ++ go r end) l
  | _ => []
  end.
Definition toks_idents (l : list tok) : list string := flat_map tok_idents l.

Lemma parent_conv_idents : forall c, forallb (fun i => str_in i allow_idents) (toks_idents (parent_conv c)) = true.
Proof. intro c. unfold parent_conv. destruct (is_ref (c_kind c)), (c_fallible c); vm_compute; reflexivity. Qed.

