(* C07: the flavours of one mapping agree - owned / by-reference, fallible / infallible, into / into_existing. *)
From Coq Require Import List String Ascii Bool Arith.
From O2o.Model Require Import Tok Syn Attr Ast Lookup Expand.
From O2o.Gen Require Import Skeleton.
From O2o.Lemmas Require Import Designated.
Import ListNotations.
Open Scope string_scope.
Open Scope list_scope.

Definition set_kind (c : ictx) (k : kind) : ictx :=
  {| c_kind := k; c_fallible := c_fallible c; c_core := c_core c; c_hint := c_hint c; c_impl_type := c_impl_type c;
     c_dst := c_dst c; c_src := c_src c; c_post_init := c_post_init c; c_named := c_named c |}.
Definition set_fallible (c : ictx) (b : bool) : ictx :=
  {| c_kind := c_kind c; c_fallible := b; c_core := c_core c; c_hint := c_hint c; c_impl_type := c_impl_type c;
     c_dst := c_dst c; c_src := c_src c; c_post_init := c_post_init c; c_named := c_named c |}.

(* owned <-> by-reference *)
Definition ref_of (k : kind) : kind :=
  match k with
  | OwnedInto => RefInto | RefInto => RefInto | FromOwned => FromRef | FromRef => FromRef
  | OwnedIntoExisting => RefIntoExisting | RefIntoExisting => RefIntoExisting
  end.

Definition same_class (k k' : kind) : Prop :=
  is_from k = is_from k' /\ is_intoish k = is_intoish k' /\ is_into_existing k = is_into_existing k'.

Lemma ref_same_class : forall k, same_class k (ref_of k).
Proof. intro k; destruct k; repeat split. Qed.

Lemma quote_action_kind : forall a p c k', is_from (c_kind c) = is_from k' -> quote_action a p (set_kind c k') = quote_action a p c.
Proof. intros a p c k' H. unfold quote_action, src_ident. cbn [set_kind c_kind c_impl_type c_dst]. rewrite H. reflexivity. Qed.

Lemma get_action_or_kind : forall a p c k' o, is_from (c_kind c) = is_from k' -> get_action_or a p (set_kind c k') o = get_action_or a p c o.
Proof.
  intros a p c k' o H. destruct a as [mc|g|pc k0]; cbn [get_action_or]; try reflexivity.
  - destruct (mc_action mc); [rewrite quote_action_kind by exact H|]; reflexivity.
  - destruct (get_for_kind pc k0) as [at_|]; [|reflexivity]. destruct (pf_action at_); [rewrite quote_action_kind by exact H|]; reflexivity.
Qed.

Lemma get_stuff_kind : forall a obj fp c k' o, is_from (c_kind c) = is_from k' ->
    get_stuff a obj fp (set_kind c k') o = get_stuff a obj fp c o.
Proof.
  intros a obj fp c k' o H.
  assert (Hv : is_variant (set_kind c k') = is_variant c) by reflexivity.
  destruct a as [mc|g|pc k0]; cbn [get_stuff].
  - destruct (mc_member mc) as [[n|i]|], (mc_action mc); try rewrite Hv; try rewrite !quote_action_kind by exact H; reflexivity.
  - destruct (fg_action g); [rewrite quote_action_kind by exact H|]; reflexivity.
  - destruct (get_for_kind pc k0) as [at_|].
    + destruct (pf_member at_) as [[n|i]|], (pf_action at_); try rewrite Hv; try rewrite !quote_action_kind by exact H; try reflexivity;
        destruct (pc_this pc); try rewrite Hv; try rewrite !quote_action_kind by exact H; reflexivity.
    + reflexivity.
Qed.

(* the line of a field is the same for every kind of the same class (owned / by-reference), given
   the same resolved view of the field *)
Theorem line_same_class : forall f c k' hint idx,
    same_class (c_kind c) k' -> fv_has_parent f = false ->
    render_struct_line f (set_kind c k') hint idx None = render_struct_line f c hint idx None.
Proof.
  intros f c k' hint idx [H1 [H2 H3]] Hp. unfold render_struct_line.
  assert (Hv : is_variant (set_kind c k') = is_variant c) by reflexivity.
  assert (Hpi : c_post_init (set_kind c k') = c_post_init c) by reflexivity.
  cbn [set_kind c_kind]. rewrite Hv. rewrite <- H1, <- H2, <- H3. rewrite Hp.
  destruct (fv_member f) as [n|i]; destruct (fv_attr f) as [a|];
    rewrite ?get_action_or_kind, ?get_stuff_kind by exact H1; rewrite ?Hpi; reflexivity.
Qed.

Corollary line_ref : forall f c hint idx,
    fv_has_parent f = false ->
    render_struct_line f (set_kind c (ref_of (c_kind c))) hint idx None = render_struct_line f c hint idx None.
Proof. intros. apply line_same_class; [apply ref_same_class | assumption]. Qed.

(* fallibility never changes a field's line (it only selects `into()` vs `try_into()?` for a bare #[parent]) *)
Theorem line_fallible : forall f c b hint idx pc,
    fv_has_parent f = false ->
    render_struct_line f (set_fallible c b) hint idx pc = render_struct_line f c hint idx pc.
Proof.
  intros f c b hint idx pc Hp. unfold render_struct_line.
  assert (E1 : forall a p o, get_action_or a p (set_fallible c b) o = get_action_or a p c o).
  { intros a p o. destruct a as [mc|g|q k0]; cbn [get_action_or]; try reflexivity. }
  assert (E2 : forall a obj fp o, get_stuff a obj fp (set_fallible c b) o = get_stuff a obj fp c o).
  { intros a obj fp o. destruct a as [mc|g|q k0]; cbn [get_stuff]; reflexivity. }
  cbn [set_fallible c_kind]. rewrite Hp.
  change (is_variant (set_fallible c b)) with (is_variant c). change (c_post_init (set_fallible c b)) with (c_post_init c).
  destruct pc as [p|]; destruct (match _ with MNamed _ => _ | MIndex _ => _ end);
    try (rewrite ?E1, ?E2; reflexivity).
Qed.

(* TryFrom / TryInto return Ok of what From / Into return (literal-building bodies) *)
Theorem try_wraps_ok : forall d c,
    tc_qret (c_core c) = None -> c_post_init c = false ->
    main_code_block_ok d c = (inner <- main_code_block d c ;; Ok [TIdent "Ok"; paren inner]).
Proof. intros d c Hq Hp. unfold main_code_block_ok, main_code_block. rewrite Hq, Hp. reflexivity. Qed.

(* into_existing writes, to the very place into() fills (under the field's child path), the very value into() puts there *)
Theorem existing_agrees_with_into : forall f c k2 hint idx p v,
    plain_field f c -> is_intoish (c_kind c) = true -> is_into_existing k2 = true ->
    dest_named (fv_member f) hint = Some true -> place_named f = Ok p -> value_out f c = Ok v ->
    render_struct_line f c hint idx None = Ok ([member_tok p; P1 ":"] ++ v ++ [comma]) /\
    render_struct_line f (set_kind c k2) hint idx None = Ok ([TIdent "other"; dot] ++ path_of f p ++ [P1 "="] ++ v ++ [semi]).
Proof.
  intros f c k2 hint idx p v Hpl Hk1 Hk2 Hd Hp Hv.
  assert (F1 : is_from (c_kind c) = false) by (destruct (c_kind c); cbn in Hk1 |- *; congruence).
  assert (F2 : is_from k2 = false) by (destruct k2; cbn in Hk2 |- *; congruence).
  assert (X1 : is_into_existing (c_kind c) = false) by (destruct (c_kind c); cbn in Hk1 |- *; congruence).
  assert (Pl2 : plain_field f (set_kind c k2)) by exact Hpl.
  rewrite (line_out f c hint idx Hpl F1), (line_out f (set_kind c k2) hint idx Pl2 F2).
  unfold spec_line_out. rewrite Hd, Hp. cbn [bind set_kind c_kind]. rewrite X1, Hk2.
  assert (Hv2 : value_out f (set_kind c k2) = Ok v).
  { rewrite <- Hv. unfold value_out, obj_of. cbn [set_kind c_kind]. rewrite F1, F2.
    destruct (fv_attr f) as [a|]; [|reflexivity].
    apply get_action_or_kind. rewrite F1, F2. reflexivity. }
  rewrite Hv, Hv2. cbn [bind]. split; reflexivity.
Qed.

(* ... and for a positional counterpart: the running position idx *)
Theorem existing_agrees_with_into_positional : forall f c k2 hint idx v,
    plain_field f c -> is_intoish (c_kind c) = true -> is_into_existing k2 = true ->
    dest_named (fv_member f) hint = Some false -> place_positional f idx = Ok (MIndex idx) -> value_out f c = Ok v ->
    render_struct_line f c hint idx None = Ok (v ++ [comma]) /\
    render_struct_line f (set_kind c k2) hint idx None = Ok ([TIdent "other"; dot] ++ path_of f (MIndex idx) ++ [P1 "="] ++ v ++ [semi]).
Proof.
  intros f c k2 hint idx v Hpl Hk1 Hk2 Hd Hp Hv.
  assert (F1 : is_from (c_kind c) = false) by (destruct (c_kind c); cbn in Hk1 |- *; congruence).
  assert (F2 : is_from k2 = false) by (destruct k2; cbn in Hk2 |- *; congruence).
  assert (X1 : is_into_existing (c_kind c) = false) by (destruct (c_kind c); cbn in Hk1 |- *; congruence).
  assert (Pl2 : plain_field f (set_kind c k2)) by exact Hpl.
  rewrite (line_out f c hint idx Hpl F1), (line_out f (set_kind c k2) hint idx Pl2 F2).
  unfold spec_line_out. rewrite Hd. cbn [set_kind c_kind]. rewrite X1, Hk2, Hp. cbn [bind].
  assert (Hv2 : value_out f (set_kind c k2) = Ok v).
  { rewrite <- Hv. unfold value_out, obj_of. cbn [set_kind c_kind]. rewrite F1, F2.
    destruct (fv_attr f) as [a|]; [|reflexivity].
    apply get_action_or_kind. rewrite F1, F2. reflexivity. }
  rewrite Hv, Hv2. cbn [bind]. split; reflexivity.
Qed.

(* the one cell where the two disagree (finding F-01a): an index named by the instruction of a
   positional member is honoured by into_existing and ignored by into *)
Example index_rename_disagrees :
  let f := {| fv_member := MIndex 0; fv_idx := 0; fv_str := "0"; fv_ty := None; fv_child := None; fv_ghost := None;
              fv_has_parent := false; fv_has_pl_parent := false; fv_pparent := None;
              fv_attr := Some (AField {| mc_ty := None; mc_member := Some (MIndex 1); mc_action := None |}) |} in
  place_positional f 0 = Ok (MIndex 1).
Proof. reflexivity. Qed.

(* ---- the order of the statement holes in the Into-side bodies (Gen/Skeleton.v is regenerated from the quote! blocks) ---- *)
Fixpoint stok_holes (t : stok) : list string :=
  match t with
  | SH h => [h]
  | SG _ l => (fix go (l : list stok) : list string := match l with [] => [] | x :: r => stok_holes x ++ go r end) l
  | _ => []
  end.
Definition statement_holes (l : list stok) : list string :=
  filter (fun h => String.eqb h "pre_init" || String.eqb h "init" || String.eqb h "post_init") (flat_map stok_holes l).

(* every Into-side flavour runs vars, then the struct's own assignments, then the flattened #[parent] conversions *)
Theorem statement_order :
  statement_holes sk_into_body_post = ["pre_init"; "init"; "post_init"] /\
  statement_holes sk_try_into_body_post = ["pre_init"; "init"; "post_init"] /\
  statement_holes sk_into_existing = ["pre_init"; "init"; "post_init"] /\
  statement_holes sk_try_into_existing = ["pre_init"; "init"; "post_init"] /\
  statement_holes sk_into_body_plain = ["pre_init"; "init"] /\
  statement_holes sk_try_into_body_plain = ["pre_init"; "init"].
Proof. vm_compute. repeat split; reflexivity. Qed.
