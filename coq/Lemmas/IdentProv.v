(* C20, closed world, part 2: the recursive descent, enums, bodies, generics, skeleton instantiation, and the lifting from the
   views to the parsed data type.  Part 1 (IdentBase.v) has the predicate, the tactics and the line renderer. *)
From Coq Require Import List String Ascii Bool Arith.
From O2o.Model Require Import Tok Syn Attr Ast Lookup Validate Expand Derive.
From O2o.Gen Require Import Skeleton.
From O2o.Lemmas Require Import NoStd PanicFree IdentBase.
Import ListNotations.
Open Scope string_scope.
Open Scope list_scope.

Section ProvC.
  Context `{Pv : Prov}.

  Definition dok (d : field_data) : Prop :=
    match d with
    | FdField f => fview_ok f
    | FdGhost g => ghost_data_ok g
    | FdParentChild f p => fview_ok f /\ pcf_ok p
    end.

  Lemma assign_groups_ok items : Forall (fun x => dok (snd x)) items ->
    forall groups only_new, Forall cok (fst (assign_groups items groups only_new)).
  Proof.
    induction 1 as [|[p d] items Hd _ IH]; intros groups only_new; cbn [assign_groups]; [constructor|].
    destruct (group_of groups p) as [g|].
    - specialize (IH groups only_new). destruct (assign_groups items groups only_new) as [cs gs]. cbn [fst] in *.
      apply Forall_app. split; [|exact IH]. destruct only_new; [constructor|]. constructor; [exact Hd | constructor].
    - specialize (IH (groups ++ [p]) only_new). destruct (assign_groups items (groups ++ [p]) only_new) as [cs gs]. cbn [fst] in *.
      constructor; [exact Hd | exact IH].
  Qed.

  Lemma field_items_ok s : sview_ok s -> Forall (fun x => dok (snd x)) (field_items s).
  Proof.
    intros (Hf & _). unfold field_items. apply Forall_flat_map. rewrite Forall_forall in *. intros f Hin. specialize (Hf f Hin).
    assert (Hf0 := Hf). destruct Hf as (_ & _ & _ & _ & Hpp & _).
    destruct (fv_pparent f) as [ps|]; cbn [opt_ok] in Hpp.
    - rewrite Forall_forall in *. intros x Hx. apply in_map_iff in Hx. destruct Hx as (p & <- & Hp). cbn [snd dok].
      split; [exact Hf0 | apply Hpp, Hp].
    - constructor; [exact Hf0 | constructor].
  Qed.

  Lemma ghost_items_ok s : sview_ok s -> Forall (fun x => dok (snd x)) (ghost_items s).
  Proof.
    intros (_ & Hg & _). unfold ghost_items. destruct (sv_ghosts s) as [g|]; cbn [opt_ok] in Hg; [|constructor].
    unfold ghosts_ok in Hg. rewrite Forall_forall in *. intros x Hx. apply in_map_iff in Hx. destruct Hx as (gd & <- & Hgd). cbn [snd dok]. apply Hg, Hgd.
  Qed.

  Lemma sorted_containers_ok s : sview_ok s -> Forall cok (sorted_containers s).
  Proof.
    intro Hs. unfold sorted_containers.
    assert (H1 := assign_groups_ok (field_items s) (field_items_ok s Hs) [""] false).
    destruct (assign_groups (field_items s) [""] false) as [c1 g1]. cbn [fst] in H1.
    assert (H2 := assign_groups_ok (ghost_items s) (ghost_items_ok s Hs) g1 true).
    destruct (assign_groups (ghost_items s) g1 true) as [c2 g2]. cbn [fst] in H2.
    apply Forall_flat_map. rewrite Forall_forall. intros g _. rewrite Forall_forall. intros x Hx. apply filter_In in Hx. destruct Hx as [Hx _].
    apply in_app_or in Hx. rewrite Forall_forall in H1, H2. destruct Hx; auto.
  Qed.

  (* ---- the recursive descent ---- *)
  Section Descent.
    Variable s : sview.
    Variable c : ictx.
    Hypothesis Hs : sview_ok s.
    Hypothesis Hc : ictx_ok c.

    Lemma R_init_mutual : forall fuel,
      (forall members named fc, Forall cok members -> RR Q2 (init_inner s c fuel members named fc)) /\
      (forall cp members depth hint line, Forall member_ok cp -> Forall cok members -> RT line ->
                                          RR Q2 (child_fragment s c fuel cp members depth hint line)) /\
      (forall cd members named cp depth hint, TI (fst cd) -> Forall member_ok cp -> Forall cok members ->
                                              RR Q2 (render_child s c fuel cd members named cp depth hint)) /\
      (forall f p members named depth line, fview_ok f -> pcf_ok p -> Forall cok members -> RT line ->
                                            RR Q2 (parent_child_fragment s c fuel f p members named depth line)).
    Proof.
      induction fuel as [|fuel [IHi [IHc [IHr IHp]]]].
      - split; [|split; [|split]]; intros; cbn; apply RR_oom.
      - split; [|split; [|split]].
        + intros members named fc Hms. rewrite init_inner_S. cbv zeta.
          apply (RR_bind Q2).
          * apply R_member_loop; try assumption.
            -- intros ch ms line Hch Hm Hl. apply IHc; assumption.
            -- intros cp ms Hcp Hm. apply IHc; [assumption | assumption | apply RR_ok; apply TI_nil].
            -- intros f p ms line Hf Hp Hm Hl. apply IHp; assumption.
            -- apply TI_nil.
          * intros [frags rest] [Hfr Hrest].
            apply (RR_bind (Forall TI)).
            { destruct (negb (is_from (c_kind c))); [|apply RR_ok; constructor].
              destruct Hs as (_ & Hg & _). destruct (sv_ghosts s) as [ga|]; cbn [opt_ok] in Hg; [|apply RR_ok; constructor].
              apply RR_mapM. intros x Hx. unfold ghosts_ok in Hg. rewrite Forall_forall in Hg. specialize (Hg x Hx).
              destruct (gd_path x) as [gp|], fc as [[[cp o] depth]|]; try (apply RR_ok; apply TI_nil); try (apply RT_render_ghost_line; assumption).
              apply (RR_bind (fun _ : string => True)); [apply RR_nth_str|]. intros pstr _.
              destruct (String.eqb (child_path_last gp) pstr); [apply RT_render_ghost_line; assumption | apply RR_ok; apply TI_nil]. }
            intros ghosts Hgh.
            apply (RR_bind TI).
            { apply RT_wrap_struct. apply TI_app; [exact Hfr|]. apply TI_app; [apply TI_concat; exact Hgh|].
              destruct Hc as (_ & _ & Hcore). destruct Hcore as (_ & _ & _ & Hupd & _).
              destruct (tc_update (c_core c)) as [u|]; cbn [oTI opt_ok] in Hupd; [|apply TI_nil].
              apply TI_app; [ti|]. apply TI_quote_action; [exact Hc | exact Hupd | exact Logic.I]. }
            intros toks Htoks. apply RR_ok. split; assumption.
        + intros cp members depth hint line Hcp Hms Hl. rewrite child_fragment_S. cbv zeta.
          assert (Hline : RR Q2 (l <- line;; Ok (l, tl members))).
          { apply (RR_bind TI); [exact Hl|]. intros l Hl'. apply RR_ok. split; [exact Hl' | apply Forall_tl; exact Hms]. }
          destruct (match depth with None => true | Some d => Nat.ltb d (List.length (child_path_strs cp) - 1) end); [|exact Hline].
          destruct (is_intoish (c_kind c)).
          * destruct Hs as (_ & _ & Hcpa). destruct (sv_child_parents s) as [cpa|]; cbn [opt_ok] in Hcpa; [|apply RR_panic].
            apply (RR_bind (fun _ : string => True)); [apply RR_nth_str|]. intros pstr _.
            destruct (find (fun x => String.eqb (cd_str x) pstr) (ca_data cpa)) as [cd|] eqn:E; [|apply RR_panic].
            apply IHr; [|exact Hcp | exact Hms]. cbn [fst]. exact (find_ok _ _ _ _ Hcpa E).
          * destruct (is_into_existing (c_kind c)); [|exact Hline].
            apply (RR_bind (fun _ : string => True)); [apply RR_nth_str|]. intros pstr _. apply IHi. exact Hms.
        + intros cd members named cp depth hint Hcd Hcp Hms. rewrite render_child_S.
          destruct (nth_error cp depth) as [name|] eqn:E; [|apply RR_panic].
          assert (Hname : member_ok name). { apply nth_error_In in E. rewrite Forall_forall in Hcp. apply Hcp, E. }
          apply (RR_bind Q2); [apply IHi; exact Hms|]. intros [init rest] [Hi Hr]. cbv zeta. cbn [fst snd] in *.
          destruct (c_named c), hint; try apply RR_panic; apply RR_ok; (split; [|exact Hr]); cbn [fst]; ti.
        + intros f p members named depth line Hf Hp Hms Hl. rewrite parent_child_fragment_S. cbv zeta.
          assert (Hline : RR Q2 (l <- line;; Ok (l, tl members))).
          { apply (RR_bind TI); [exact Hl|]. intros l Hl'. apply RR_ok. split; [exact Hl' | apply Forall_tl; exact Hms]. }
          destruct (match depth with None => true | Some d => Nat.ltb d (List.length (pc_sub p)) end); [|exact Hline].
          destruct (is_from (c_kind c)); [|exact Hline].
          apply (RR_bind TI).
          { destruct depth as [d|].
            - destruct (nth_error (pc_sub p) d) as [[m [t|]]|] eqn:E; try apply RR_panic. apply RR_ok.
              destruct Hp as (_ & _ & _ & Hsub). apply nth_error_In in E. rewrite Forall_forall in Hsub. exact (proj2 (Hsub _ E)).
            - destruct Hf as (_ & Hty & _). destruct (fv_ty f) as [t|]; cbn [oTI opt_ok] in Hty; [apply RR_ok; exact Hty | apply RR_panic]. }
          intros ty Hty. apply IHr; [exact Hty | | exact Hms].
          constructor; [apply Hf|]. destruct Hp as (_ & _ & _ & Hsub). clear - Hsub. induction Hsub as [|x l [Hx _] _ IH]; cbn [map]; constructor; assumption.
    Qed.

    Lemma RT_struct_init_block : RT (struct_init_block s c).
    Proof.
      unfold RT, struct_init_block. destruct (_ || _); [apply RR_ok; apply TI_nil|]. cbv zeta.
      apply (RR_bind Q2); [apply (R_init_mutual _); apply sorted_containers_ok; exact Hs|].
      intros [toks r] [Ht _]. apply RR_ok. exact Ht.
    Qed.
  End Descent.
End ProvC.
