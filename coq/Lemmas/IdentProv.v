(* C20, closed world, part 2: the recursive descent, enums, bodies, generics, skeleton instantiation, and the lifting from the
   views to the parsed data type.  Part 1 (IdentBase.v) has the predicate, the tactics and the line renderer. *)
From Coq Require Import List String Ascii Bool Arith.
From O2o.Model Require Import Tok Syn Attr Ast Lookup Validate Expand Derive.
From O2o.Gen Require Import Skeleton.
From O2o.Lemmas Require Import NoStd PanicFree IdentBase.
Import ListNotations.
Open Scope string_scope.
Open Scope list_scope.

Section ProvC.
  Context `{Pv : Prov}.

  Definition dok (d : field_data) : Prop :=
    match d with
    | FdField f => fview_ok f
    | FdGhost g => ghost_data_ok g
    | FdParentChild f p => fview_ok f /\ pcf_ok p
    end.

  Lemma assign_groups_ok items : Forall (fun x => dok (snd x)) items ->
    forall groups only_new, Forall cok (fst (assign_groups items groups only_new)).
  Proof.
    induction 1 as [|[p d] items Hd _ IH]; intros groups only_new; cbn [assign_groups]; [constructor|].
    destruct (group_of groups p) as [g|].
    - specialize (IH groups only_new). destruct (assign_groups items groups only_new) as [cs gs]. cbn [fst] in *.
      apply Forall_app. split; [|exact IH]. destruct only_new; [constructor|]. constructor; [exact Hd | constructor].
    - specialize (IH (groups ++ [p]) only_new). destruct (assign_groups items (groups ++ [p]) only_new) as [cs gs]. cbn [fst] in *.
      constructor; [exact Hd | exact IH].
  Qed.

  Lemma field_items_ok s : sview_ok s -> Forall (fun x => dok (snd x)) (field_items s).
  Proof.
    intros (Hf & _). unfold field_items. apply Forall_flat_map. rewrite Forall_forall in *. intros f Hin. specialize (Hf f Hin).
    assert (Hf0 := Hf). destruct Hf as (_ & _ & _ & _ & Hpp & _).
    destruct (fv_pparent f) as [ps|]; cbn [opt_ok] in Hpp.
    - rewrite Forall_forall in *. intros x Hx. apply in_map_iff in Hx. destruct Hx as (p & <- & Hp). cbn [snd dok].
      split; [exact Hf0 | apply Hpp, Hp].
    - constructor; [exact Hf0 | constructor].
  Qed.

  Lemma ghost_items_ok s : sview_ok s -> Forall (fun x => dok (snd x)) (ghost_items s).
  Proof.
    intros (_ & Hg & _). unfold ghost_items. destruct (sv_ghosts s) as [g|]; cbn [opt_ok] in Hg; [|constructor].
    unfold ghosts_ok in Hg. rewrite Forall_forall in *. intros x Hx. apply in_map_iff in Hx. destruct Hx as (gd & <- & Hgd). cbn [snd dok]. apply Hg, Hgd.
  Qed.

  Lemma sorted_containers_ok s : sview_ok s -> Forall cok (sorted_containers s).
  Proof.
    intro Hs. unfold sorted_containers.
    assert (H1 := assign_groups_ok (field_items s) (field_items_ok s Hs) [""] false).
    destruct (assign_groups (field_items s) [""] false) as [c1 g1]. cbn [fst] in H1.
    assert (H2 := assign_groups_ok (ghost_items s) (ghost_items_ok s Hs) g1 true).
    destruct (assign_groups (ghost_items s) g1 true) as [c2 g2]. cbn [fst] in H2.
    apply Forall_flat_map. rewrite Forall_forall. intros g _. rewrite Forall_forall. intros x Hx. apply filter_In in Hx. destruct Hx as [Hx _].
    apply in_app_or in Hx. rewrite Forall_forall in H1, H2. destruct Hx; auto.
  Qed.

  (* ---- the recursive descent ---- *)
  Section Descent.
    Variable s : sview.
    Variable c : ictx.
    Hypothesis Hs : sview_ok s.
    Hypothesis Hc : ictx_ok c.

    Lemma R_init_mutual : forall fuel,
      (forall members named fc, Forall cok members -> RR Q2 (init_inner s c fuel members named fc)) /\
      (forall cp members depth hint line, Forall member_ok cp -> Forall cok members -> RT line ->
                                          RR Q2 (child_fragment s c fuel cp members depth hint line)) /\
      (forall cd members named cp depth hint, TI (fst cd) -> Forall member_ok cp -> Forall cok members ->
                                              RR Q2 (render_child s c fuel cd members named cp depth hint)) /\
      (forall f p members named depth line, fview_ok f -> pcf_ok p -> Forall cok members -> RT line ->
                                            RR Q2 (parent_child_fragment s c fuel f p members named depth line)).
    Proof.
      induction fuel as [|fuel [IHi [IHc [IHr IHp]]]].
      - split; [|split; [|split]]; intros; cbn; apply RR_oom.
      - split; [|split; [|split]].
        + intros members named fc Hms. rewrite init_inner_S. cbv zeta.
          apply (RR_bind Q2).
          * apply R_member_loop; try assumption.
            -- intros ch ms line Hch Hm Hl. apply IHc; assumption.
            -- intros cp ms Hcp Hm. apply IHc; [assumption | assumption | apply RR_ok; apply TI_nil].
            -- intros f p ms line Hf Hp Hm Hl. apply IHp; assumption.
            -- apply TI_nil.
          * intros [frags rest] [Hfr Hrest].
            apply (RR_bind (Forall TI)).
            { destruct (negb (is_from (c_kind c))); [|apply RR_ok; constructor].
              destruct Hs as (_ & Hg & _). destruct (sv_ghosts s) as [ga|]; cbn [opt_ok] in Hg; [|apply RR_ok; constructor].
              apply RR_mapM. intros x Hx. unfold ghosts_ok in Hg. rewrite Forall_forall in Hg. specialize (Hg x Hx).
              destruct (gd_path x) as [gp|], fc as [[[cp o] depth]|]; try (apply RR_ok; apply TI_nil); try (apply RT_render_ghost_line; assumption).
              apply (RR_bind (fun _ : string => True)); [apply RR_nth_str|]. intros pstr _.
              destruct (String.eqb (child_path_last gp) pstr); [apply RT_render_ghost_line; assumption | apply RR_ok; apply TI_nil]. }
            intros ghosts Hgh.
            apply (RR_bind TI).
            { apply RT_wrap_struct. apply TI_app; [exact Hfr|]. apply TI_app; [apply TI_concat; exact Hgh|].
              destruct Hc as (_ & _ & Hcore). destruct Hcore as (_ & _ & _ & Hupd & _).
              destruct (tc_update (c_core c)) as [u|]; cbn [oTI opt_ok] in Hupd; [|apply TI_nil].
              apply TI_app; [ti|]. apply TI_quote_action; [exact Hc | exact Hupd | exact Logic.I]. }
            intros toks Htoks. apply RR_ok. split; assumption.
        + intros cp members depth hint line Hcp Hms Hl. rewrite child_fragment_S. cbv zeta.
          assert (Hline : RR Q2 (l <- line;; Ok (l, tl members))).
          { apply (RR_bind TI); [exact Hl|]. intros l Hl'. apply RR_ok. split; [exact Hl' | apply Forall_tl; exact Hms]. }
          destruct (match depth with None => true | Some d => Nat.ltb d (List.length (child_path_strs cp) - 1) end); [|exact Hline].
          destruct (is_intoish (c_kind c)).
          * destruct Hs as (_ & _ & Hcpa). destruct (sv_child_parents s) as [cpa|]; cbn [opt_ok] in Hcpa; [|apply RR_panic].
            apply (RR_bind (fun _ : string => True)); [apply RR_nth_str|]. intros pstr _.
            destruct (find (fun x => String.eqb (cd_str x) pstr) (ca_data cpa)) as [cd|] eqn:E; [|apply RR_panic].
            apply IHr; [|exact Hcp | exact Hms]. cbn [fst]. exact (find_ok _ _ _ _ Hcpa E).
          * destruct (is_into_existing (c_kind c)); [|exact Hline].
            apply (RR_bind (fun _ : string => True)); [apply RR_nth_str|]. intros pstr _. apply IHi. exact Hms.
        + intros cd members named cp depth hint Hcd Hcp Hms. rewrite render_child_S.
          destruct (nth_error cp depth) as [name|] eqn:E; [|apply RR_panic].
          assert (Hname : member_ok name). { apply nth_error_In in E. rewrite Forall_forall in Hcp. apply Hcp, E. }
          apply (RR_bind Q2); [apply IHi; exact Hms|]. intros [init rest] [Hi Hr]. cbv zeta. cbn [fst snd] in *.
          destruct (c_named c), hint; try apply RR_panic; apply RR_ok; (split; [|exact Hr]); cbn [fst]; ti.
        + intros f p members named depth line Hf Hp Hms Hl. rewrite parent_child_fragment_S. cbv zeta.
          assert (Hline : RR Q2 (l <- line;; Ok (l, tl members))).
          { apply (RR_bind TI); [exact Hl|]. intros l Hl'. apply RR_ok. split; [exact Hl' | apply Forall_tl; exact Hms]. }
          destruct (match depth with None => true | Some d => Nat.ltb d (List.length (pc_sub p)) end); [|exact Hline].
          destruct (is_from (c_kind c)); [|exact Hline].
          apply (RR_bind TI).
          { destruct depth as [d|].
            - destruct (nth_error (pc_sub p) d) as [[m [t|]]|] eqn:E; try apply RR_panic. apply RR_ok.
              destruct Hp as (_ & _ & _ & Hsub). apply nth_error_In in E. rewrite Forall_forall in Hsub. exact (proj2 (Hsub _ E)).
            - destruct Hf as (_ & Hty & _). destruct (fv_ty f) as [t|]; cbn [oTI opt_ok] in Hty; [apply RR_ok; exact Hty | apply RR_panic]. }
          intros ty Hty. apply IHr; [exact Hty | | exact Hms].
          constructor; [apply Hf|]. destruct Hp as (_ & _ & _ & Hsub). clear - Hsub. induction Hsub as [|x l [Hx _] _ IH]; cbn [map]; constructor; assumption.
    Qed.

    Lemma RT_struct_init_block : RT (struct_init_block s c).
    Proof.
      unfold RT, struct_init_block. destruct (_ || _); [apply RR_ok; apply TI_nil|]. cbv zeta.
      apply (RR_bind Q2); [apply (R_init_mutual _); apply sorted_containers_ok; exact Hs|].
      intros [toks r] [Ht _]. apply RR_ok. exact Ht.
    Qed.
  End Descent.

  (* ---- enums ---- *)
  Lemma RT_variant_destruct_block s c : sview_ok s -> RT (variant_destruct_block s c).
  Proof.
    intros (Hf & Hg & _). unfold RT, variant_destruct_block. cbv zeta.
    set (live := filter _ (sv_fields s)).
    assert (Hlive : Forall fview_ok live). { subst live. rewrite Forall_forall in *. intros x Hx. apply filter_In in Hx. apply Hf, Hx. }
    clearbody live.
    apply (RR_bind (fun p : list tok * type_hint => TI (fst p))).
    { destruct (_ || _ || _).
      - apply (RR_bind (Forall TI)).
        + apply RR_mapM. intros x Hx. rewrite Forall_forall in Hlive. specialize (Hlive x Hx). destruct Hlive as (Hm & _ & _ & _ & _ & Ha).
          destruct (negb (is_from (c_kind c))); [apply RR_ok; ti|].
          destruct (fv_attr x) as [a|]; cbn [opt_ok] in Ha; [|apply RR_ok; ti].
          apply (RR_bind member_ok); [apply RM_get_field_name_or; assumption|]. intros n Hn. apply RR_ok. ti.
        + intros ids Hids. apply RR_ok. cbn [fst]. apply TI_concat. exact Hids.
      - destruct (_ && _); apply RR_ok; cbn [fst]; [apply TI_nil|]. apply TI_flat_map. intros x _. ti. }
    intros [idents th] Hid. cbn [fst] in Hid.
    apply (RR_bind (Forall TI)).
    { destruct (is_from (c_kind c)); [|apply RR_ok; constructor].
      destruct (sv_ghosts s) as [g|]; cbn [opt_ok] in Hg; [|apply RR_ok; constructor].
      apply RR_mapM. intros x Hx. unfold ghosts_ok in Hg. rewrite Forall_forall in Hg. destruct (Hg x Hx) as (_ & Hi & _).
      destruct (gd_ident x) as [[i|n]|ts]; try apply RR_panic; apply RR_ok; cbn [member_ok] in Hi; ti. }
    intros gids Hg'. cbv zeta.
    assert (Hall : TI (idents ++ List.concat gids)) by (apply TI_app; [exact Hid | apply TI_concat; exact Hg']).
    destruct th; try apply RR_panic; apply RR_ok; first [apply TI_nil | apply TI_group; [exact Hall | apply TI_nil]].
  Qed.

  Lemma ictx_ok_variant c hint named :
    ictx_ok c -> ictx_ok {| c_kind := c_kind c; c_fallible := c_fallible c; c_core := c_core c; c_hint := hint; c_impl_type := ITVariant;
                            c_dst := c_dst c; c_src := c_src c; c_post_init := c_post_init c; c_named := named |}.
  Proof. intro H. exact H. Qed.

  Lemma RT_render_enum_line v c : vview_ok v -> ictx_ok c -> RT (render_enum_line v c).
  Proof.
    intros (Hid & Hs & Ha & Hl & Hp) Hc. unfold RT, render_enum_line. cbv zeta.
    set (nc := {| c_kind := c_kind c; c_impl_type := ITVariant |}).
    assert (Hnc : ictx_ok nc) by exact Hc.
    assert (Hd : TI (c_dst c)) by apply Hc. assert (Hsr : TI (c_src c)) by apply Hc.
    clearbody nc.
    apply (RR_bind TI).
    { repeat match goal with |- RR _ (if ?b then _ else _) => destruct b end; try (apply RR_ok; ti). apply RT_variant_destruct_block. exact Hs. }
    intros destr Hdestr.
    apply (RR_bind TI).
    { destruct (_ || _); [apply RR_ok; apply TI_nil|]. apply RT_struct_init_block; assumption. }
    intros init Hinit.
    destruct (vv_attr v) as [a|], (vv_lit v) as [lit|], (vv_pat v) as [pat|]; cbn [opt_ok] in *; try apply RR_panic;
      repeat match goal with
             | |- RR _ (if ?b then _ else _) => destruct b
             | |- RR _ (bind (get_field_name_or _ _) _) => apply (RR_bind member_ok); [apply RM_get_field_name_or; side | intros ? ?]
             | |- RR _ (bind (get_action_or _ _ _ _) _) => apply (RR_bind TI); [apply RT_get_action_or; side | intros ? ?]
             | |- RR _ (bind (get_stuff _ _ _ _ _) _) => apply (RR_bind TI); [apply RT_get_stuff; side | intros ? ?]
             | |- RR _ (Panic _) => apply RR_panic
             | |- RR _ (Ok _) => apply RR_ok; ti
             end.
  Qed.

  Lemma RT_enum_init_block vs ghosts c : Forall vview_ok vs -> opt_ok ghosts_ok ghosts -> ictx_ok c -> RT (enum_init_block vs ghosts c).
  Proof.
    intros Hvs Hg Hc. unfold RT, enum_init_block. cbv zeta.
    apply (RR_bind (Forall TI)).
    { apply RR_mapM. intros v Hv. rewrite Forall_forall in Hvs. specialize (Hvs v Hv).
      repeat match goal with |- RR _ (if ?b then _ else _) => destruct b end; try (apply RR_ok; apply TI_nil). apply RT_render_enum_line; assumption. }
    intros vfr Hvfr.
    apply (RR_bind (Forall TI)).
    { destruct ghosts as [g|]; cbn [opt_ok] in Hg; [|apply RR_ok; constructor]. apply RR_mapM. intros x Hx. unfold ghosts_ok in Hg. rewrite Forall_forall in Hg.
      apply RT_render_enum_ghost_line; [apply Hg, Hx | exact Hc]. }
    intros gfr Hgfr. apply RR_ok. apply TI_group; [|apply TI_nil].
    apply TI_app; [apply TI_concat; exact Hvfr|]. apply TI_app; [apply TI_concat; exact Hgfr|].
    assert (Hcore : core_ok (c_core c)) by apply Hc.
    destruct Hcore as (_ & _ & _ & _ & _ & Hdf & _).
    destruct (tc_default (c_core c)) as [dc|]; cbn [oTI opt_ok] in Hdf; [|apply TI_nil].
    destruct (_ || _); [|apply TI_nil]. apply TI_ident; [lit|]. apply TI_quote_action; [exact Hc | exact Hdf | exact Logic.I].
  Qed.

  (* ---- bodies ---- *)
  Lemma RT_data_main_code_block d c : dview_ok d -> ictx_ok c -> RT (data_main_code_block d c).
  Proof.
    intros Hd Hc. assert (Hdst : TI (c_dst c)) by apply Hc.
    unfold RT, data_main_code_block, struct_main_code_block, enum_main_code_block. destruct d as [s|vs g]; cbn [dview_ok] in Hd.
    - apply (RR_bind TI); [apply RT_struct_init_block; assumption|]. intros init Hi.
      repeat match goal with |- RR _ (if ?b then _ else _) => destruct b end; apply RR_ok; ti.
    - destruct Hd as [Hvs Hg]. apply (RR_bind TI); [apply RT_enum_init_block; assumption|]. intros init Hi.
      repeat match goal with |- RR _ (if ?b then _ else _) => destruct b end; apply RR_ok; ti.
  Qed.

  Lemma TI_quick_return_block qr c : ictx_ok c -> TI qr -> TI (quick_return_block qr c).
  Proof.
    intros Hc Hq. unfold quick_return_block.
    assert (H : TI (quote_action qr None c)) by (apply TI_quote_action; [exact Hc | exact Hq | exact Logic.I]).
    destruct (is_into_existing (c_kind c)); ti.
  Qed.

  Lemma RT_main_code_block d c : dview_ok d -> ictx_ok c -> RT (main_code_block d c).
  Proof.
    intros Hd Hc. unfold RT, main_code_block. assert (Hq : oTI (tc_qret (c_core c))) by apply Hc.
    destruct (tc_qret (c_core c)) as [qr|]; cbn [oTI opt_ok] in Hq; [apply RR_ok; apply TI_quick_return_block; assumption | apply RT_data_main_code_block; assumption].
  Qed.

  Lemma RT_main_code_block_ok d c : dview_ok d -> ictx_ok c -> RT (main_code_block_ok d c).
  Proof.
    intros Hd Hc. unfold RT, main_code_block_ok. assert (Hq : oTI (tc_qret (c_core c))) by apply Hc.
    destruct (tc_qret (c_core c)) as [qr|]; cbn [oTI opt_ok] in Hq; [apply RR_ok; apply TI_quick_return_block; assumption|].
    apply (RR_bind TI); [apply RT_data_main_code_block; assumption|]. intros inner Hi. destruct (c_post_init c); apply RR_ok; ti.
  Qed.

  Lemma TI_struct_pre_init c : ictx_ok c -> oTI (struct_pre_init c).
  Proof.
    intro Hc. unfold struct_pre_init. assert (Hi : opt_ok (Forall (fun x => P (id_ident x) /\ TI (id_action x))) (tc_init (c_core c))) by apply Hc.
    destruct (tc_init (c_core c)) as [l|]; cbn [oTI opt_ok] in *; [|exact Logic.I].
    apply TI_flat_map. intros x Hx. rewrite Forall_forall in Hi. destruct (Hi x Hx) as [Hn Ha].
    assert (H : TI (quote_action (id_action x) None c)) by (apply TI_quote_action; [exact Hc | exact Ha | exact Logic.I]). ti.
  Qed.

  (* ---- skeleton instantiation ---- *)
  Definition env_ok (e : env) : Prop := Forall (fun kv => TI (snd kv)) e.
  Definition sk_ok (l : list stok) : Prop := forall i, In i (stoks_idents l) -> P i.

  Lemma nested_sidents l : (fix go (l : list stok) : list string := match l with [] => [] | x :: r => stok_idents x ++ go r end) l = stoks_idents l.
  Proof. induction l as [|x r IH]; [reflexivity|]. cbn [stoks_idents flat_map]. rewrite IH. reflexivity. Qed.

  Lemma assoc_env_ok e h ts : env_ok e -> assoc_str h e = Some ts -> TI ts.
  Proof.
    induction 1 as [|[k v] e Hv _ IH]; cbn [assoc_str]; [discriminate|]. destruct (String.eqb h k); [intro E; injection E as <-; exact Hv | exact IH].
  Qed.

  Lemma TI_inst e : env_ok e -> forall l, sk_ok l -> TI (inst e l).
  Proof.
    intro He.
    assert (Hall : forall t, sk_ok [t] -> TI (inst_stok e t)).
    { fix IH 1. intros t Ht. destruct t as [s|ch j|s|d l|h]; cbn [inst_stok].
      - apply TI_ident; [apply Ht; left; reflexivity | apply TI_nil].
      - apply TI_punct, TI_nil.
      - apply TI_lit, TI_nil.
      - apply TI_group; [|apply TI_nil].
        assert (Hl : sk_ok l). { intros i Hi. apply Ht. cbn [stoks_idents flat_map stok_idents]. rewrite nested_sidents, app_nil_r. exact Hi. }
        clear Ht. induction l as [|x r IHr]; [apply TI_nil|]. apply TI_app.
        + apply IH. intros i Hi. apply Hl. cbn [stoks_idents flat_map]. apply in_or_app. left. cbn [stoks_idents flat_map] in Hi. rewrite app_nil_r in Hi. exact Hi.
        + apply IHr. intros i Hi. apply Hl. cbn [stoks_idents flat_map]. apply in_or_app. right. exact Hi.
      - destruct (assoc_str h e) as [ts|] eqn:E; [exact (assoc_env_ok e h ts He E) | apply TI_nil]. }
    intros l Hl. unfold inst. apply TI_flat_map. intros x Hx. apply Hall. intros i Hi. apply Hl. unfold stoks_idents. apply in_flat_map. exists x. split; [exact Hx|].
    cbn [stoks_idents flat_map] in Hi. rewrite app_nil_r in Hi. exact Hi.
  Qed.

  (* every regenerated template writes allow-listed identifiers only (re-proved against the templates of the current source) *)
  Lemma template_ok sk : In sk all_templates -> sk_ok sk.
  Proof.
    intros Hin i Hi. apply P_lit. unfold expand_literals. apply in_or_app. left.
    assert (H := templates_ok). unfold templates_no_std in H. do 3 (apply andb_prop in H; destruct H as [H ?]).
    rewrite forallb_forall in H. specialize (H sk Hin). rewrite forallb_forall in H. specialize (H i Hi).
    unfold str_in in H. apply existsb_exists in H. destruct H as (x & Hx & E). apply String.eqb_eq in E. subst x. exact Hx.
  Qed.

  Ltac in_templates := unfold all_templates, all_skeletons; cbn [map app snd In]; repeat (first [left; reflexivity | right]).
  Lemma sk_ok_from : sk_ok sk_from. Proof. apply template_ok. in_templates. Qed.
  Lemma sk_ok_try_from : sk_ok sk_try_from. Proof. apply template_ok. in_templates. Qed.
  Lemma sk_ok_into : sk_ok sk_into. Proof. apply template_ok. in_templates. Qed.
  Lemma sk_ok_try_into : sk_ok sk_try_into. Proof. apply template_ok. in_templates. Qed.
  Lemma sk_ok_into_body_post : sk_ok sk_into_body_post. Proof. apply template_ok. in_templates. Qed.
  Lemma sk_ok_into_body_plain : sk_ok sk_into_body_plain. Proof. apply template_ok. in_templates. Qed.
  Lemma sk_ok_try_into_body_post : sk_ok sk_try_into_body_post. Proof. apply template_ok. in_templates. Qed.
  Lemma sk_ok_try_into_body_plain : sk_ok sk_try_into_body_plain. Proof. apply template_ok. in_templates. Qed.
  Lemma sk_ok_into_existing : sk_ok sk_into_existing. Proof. apply template_ok. in_templates. Qed.
  Lemma sk_ok_try_into_existing : sk_ok sk_try_into_existing. Proof. apply template_ok. in_templates. Qed.

  Lemma RT_render_parent f c : fview_ok f -> RT (render_parent f c).
  Proof.
    intros Hf. unfold RT, render_parent.
    destruct (find _ sk_render_parent) as [e|] eqn:E; [|apply RR_panic]. apply RR_ok. apply TI_inst.
    - constructor; [|constructor]. cbn [snd]. apply TI_member; [apply Hf | apply TI_nil].
    - apply template_ok. apply find_some in E. destruct E as [Hin _]. unfold all_templates. apply in_or_app. right. apply in_map. exact Hin.
  Qed.

  Lemma R_struct_post_init d c : dview_ok d -> RR oTI (struct_post_init d c).
  Proof.
    intros Hd. unfold struct_post_init. destruct (is_from (c_kind c)); [apply RR_ok; exact Logic.I|].
    apply (RR_bind (Forall TI)).
    - destruct d as [s|vs g]; cbn [dview_ok] in Hd.
      + apply RR_mapM. intros f Hf. destruct Hd as (Hfs & _). rewrite Forall_forall in Hfs. destruct (fv_has_pl_parent f); [apply RT_render_parent; apply Hfs, Hf | apply RR_ok; apply TI_nil].
      + apply RR_mapM. intros v _. destruct (vv_has_pl_parent v); [apply RR_panic | apply RR_ok; apply TI_nil].
    - intros frags Hfr. destruct (forallb is_empty_list frags); apply RR_ok; [exact Logic.I | cbn [oTI opt_ok]; apply TI_concat; exact Hfr].
  Qed.

  (* ---- generics ---- *)
  Lemma TI_lifetime n : P n -> TI (lifetime n).
  Proof. intro H. ti. Qed.

  Lemma TI_print_impl_lts l : Forall gparam_ok l -> forall tr, TI (fst (print_impl_lts l tr)).
  Proof.
    induction 1 as [|g l [Hn Hd] _ IH]; intro tr; cbn [print_impl_lts]; [apply TI_nil|].
    destruct (gp_is_lt g); [|apply IH]. specialize (IH (gp_punct g)). destruct (print_impl_lts l (gp_punct g)) as [ts tr']. cbn [fst] in *.
    apply TI_app; [exact Hd|]. apply TI_app; [destruct (gp_punct g); ti | exact IH].
  Qed.
  Lemma TI_print_impl_others l : Forall gparam_ok l -> forall tr, TI (print_impl_others l tr).
  Proof.
    induction 1 as [|g l [Hn Hd] _ IH]; intro tr; cbn [print_impl_others]; [apply TI_nil|].
    destruct (gp_is_lt g); [apply IH|]. apply TI_app; [destruct tr; ti|]. apply TI_app; [exact Hd|]. apply TI_app; [destruct (gp_punct g); ti | apply IH].
  Qed.
  Lemma TI_print_impl_generics l : Forall gparam_ok l -> TI (print_impl_generics l).
  Proof.
    intro H. unfold print_impl_generics. destruct l as [|g l]; [apply TI_nil|].
    assert (H1 := TI_print_impl_lts _ H true). destruct (print_impl_lts (g :: l) true) as [lts tr]. cbn [fst] in H1.
    apply TI_app; [ti|]. apply TI_app; [exact H1|]. apply TI_app; [apply TI_print_impl_others; exact H | ti].
  Qed.

  Lemma TI_gp_name_toks g : gparam_ok g -> TI (gp_name_toks g).
  Proof. intros [Hn _]. unfold gp_name_toks. destruct (gp_k g); ti. Qed.
  Lemma TI_print_ty_lts l : Forall gparam_ok l -> forall tr, TI (fst (print_ty_lts l tr)).
  Proof.
    induction 1 as [|g l Hg _ IH]; intro tr; cbn [print_ty_lts]; [apply TI_nil|].
    destruct (gp_is_lt g); [|apply IH]. specialize (IH (gp_punct g)). destruct (print_ty_lts l (gp_punct g)) as [ts tr']. cbn [fst] in *.
    apply TI_app; [apply TI_gp_name_toks; exact Hg|]. apply TI_app; [destruct (gp_punct g); ti | exact IH].
  Qed.
  Lemma TI_print_ty_others l : Forall gparam_ok l -> forall tr, TI (print_ty_others l tr).
  Proof.
    induction 1 as [|g l Hg _ IH]; intro tr; cbn [print_ty_others]; [apply TI_nil|].
    destruct (gp_is_lt g); [apply IH|]. apply TI_app; [destruct tr; ti|]. apply TI_app; [apply TI_gp_name_toks; exact Hg|]. apply TI_app; [destruct (gp_punct g); ti | apply IH].
  Qed.
  Lemma TI_print_type_generics l : Forall gparam_ok l -> TI (print_type_generics l).
  Proof.
    intro H. unfold print_type_generics. destruct l as [|g l]; [apply TI_nil|].
    assert (H1 := TI_print_ty_lts _ H true). destruct (print_ty_lts (g :: l) true) as [lts tr]. cbn [fst] in H1.
    apply TI_app; [ti|]. apply TI_app; [exact H1|]. apply TI_app; [apply TI_print_ty_others; exact H | ti].
  Qed.

  Lemma push_param_ok l g : Forall gparam_ok l -> gparam_ok g -> Forall gparam_ok (push_param l g).
  Proof.
    intros Hl Hg. unfold push_param. apply Forall_app. split; [|constructor; [exact Hg | constructor]].
    rewrite Forall_forall in *. intros x Hx. apply in_map_iff in Hx. destruct Hx as (y & <- & Hy). exact (Hl y Hy).
  Qed.
  Lemma add_missing_lts_ok lts : Forall (fun n => P n) lts -> forall gens, Forall gparam_ok gens -> Forall gparam_ok (add_missing_lts gens lts).
  Proof.
    induction 1 as [|lt r Hlt _ IH]; intros gens Hg; cbn [add_missing_lts]; [exact Hg|]. apply IH.
    destruct (forallb _ gens); [|exact Hg]. apply push_param_ok; [exact Hg|]. split; cbn [gp_name gp_decl]; [exact Hlt | apply TI_lifetime; exact Hlt].
  Qed.
  Lemma TI_join_plus l : Forall (fun n => P n) l -> TI (join_plus l).
  Proof.
    induction 1 as [|x l Hx Hl IH]; [apply TI_nil|]. cbn [join_plus]. destruct l as [|y l']; [apply TI_lifetime; exact Hx|].
    apply TI_app; [apply TI_lifetime; exact Hx|]. apply TI_app; [ti | exact IH].
  Qed.

  Definition garg_ok (x : garg * bool) : Prop := match fst x with GLt n => P n | GOther ts => TI ts end.
  Lemma TI_print_garg g p : garg_ok (g, p) -> TI (print_garg g).
  Proof. unfold garg_ok. cbn [fst]. destruct g; cbn [print_garg]; intro H; [apply TI_lifetime; exact H | exact H]. Qed.
  Lemma TI_print_args_lts l : Forall garg_ok l -> forall tr, TI (fst (print_args_lts l tr)).
  Proof.
    induction 1 as [|[g p] l Hg _ IH]; intro tr; cbn [print_args_lts]; [apply TI_nil|].
    destruct (is_lt g); [|apply IH]. specialize (IH p). destruct (print_args_lts l p) as [ts tr']. cbn [fst] in *.
    apply TI_app; [exact (TI_print_garg g p Hg)|]. apply TI_app; [destruct p; ti | exact IH].
  Qed.
  Lemma TI_print_args_others l : Forall garg_ok l -> forall tr, TI (print_args_others l tr).
  Proof.
    induction 1 as [|[g p] l Hg _ IH]; intro tr; cbn [print_args_others]; [apply TI_nil|].
    destruct (is_lt g); [apply IH|]. apply TI_app; [destruct tr; ti|]. apply TI_app; [exact (TI_print_garg g p Hg)|]. apply TI_app; [destruct p; ti | apply IH].
  Qed.
  Lemma TI_print_angle a : angle_ok a -> TI (print_angle a).
  Proof.
    intro H. unfold print_angle. assert (H1 := TI_print_args_lts _ H true). destruct (print_args_lts (a_args a) true) as [lts tr]. cbn [fst] in H1.
    apply TI_app; [destruct (a_colon2 a); ti|]. apply TI_app; [ti|]. apply TI_app; [exact H1|]. apply TI_app; [apply TI_print_args_others; exact H | ti].
  Qed.

  Lemma angle_lts_ok a : opt_ok angle_ok a -> Forall (fun n => P n) (angle_lts a).
  Proof.
    intro H. unfold angle_lts. destruct a as [g|]; cbn [opt_ok] in H; [|constructor]. unfold angle_ok in H.
    induction H as [|[x b] l Hx _ IH]; cbn [flat_map]; [constructor|]. cbn [fst] in *. destruct x; cbn [app]; [constructor; [exact Hx | exact IH] | exact IH].
  Qed.

  Lemma TI_print_where w : opt_ok (fun w => Forall TI (wa_preds w)) w -> TI (print_where w).
  Proof.
    intro H. unfold print_where. destruct w as [a|]; cbn [opt_ok] in H; [|apply TI_nil]. apply TI_ident; [lit|].
    induction H as [|p l Hp Hl IH]; [apply TI_nil|]. destruct l as [|q l']; [exact Hp|]. apply TI_app; [exact Hp|]. apply TI_app; [ti | exact IH].
  Qed.

  Lemma TI_join_preds l : Forall TI l -> TI (join_preds l).
  Proof. induction 1 as [|p l Hp Hl IH]; [apply TI_nil|]. cbn [join_preds]. destruct l as [|q l']; [exact Hp|]. apply TI_app; [exact Hp|]. apply TI_app; [ti | exact IH]. Qed.

  Lemma TI_print_where_all own w : Forall TI own -> opt_ok (fun w => Forall TI (wa_preds w)) w -> TI (print_where_all own w).
  Proof.
    intros Ho Hw. unfold print_where_all. destruct own as [|p own']; [apply TI_print_where; exact Hw|].
    destruct w as [a|]; cbn [opt_ok] in Hw; (apply TI_ident; [lit|]).
    - apply TI_app; [apply TI_join_preds; exact Ho|]. apply TI_app; [ti | apply TI_join_preds; exact Hw].
    - apply TI_join_preds. exact Ho.
  Qed.

  Lemma these_lts_ok gens : Forall gparam_ok gens -> Forall (fun n => P n) (flat_map (fun g => if gp_is_lt g then [gp_name g] else []) gens).
  Proof. induction 1 as [|g l [Hn _] _ IH]; cbn [flat_map]; [constructor|]. destruct (gp_is_lt g); cbn [app]; [constructor; assumption | exact IH]. Qed.

  Lemma trait_env_ok t c : tview_ok t -> ictx_ok c -> env_ok (trait_env t c).
  Proof.
    intros (Hg & Hd & Hw & How) Hc. assert (Hcore : core_ok (c_core c)) by apply Hc. destruct Hcore as ((Htp & Hta) & _ & _ & _ & _ & _ & Hat & Hia & Hin).
    assert (Hdst : TI (c_dst c)) by apply Hc. assert (Hsrc : TI (c_src c)) by apply Hc.
    unfold trait_env. cbv zeta.
    set (these_lts := flat_map _ (tv_generics t)). set (those_lts := declarable_lts (angle_lts (tp_generics (c_ty c)))).
    assert (H1 : Forall (fun n => P n) these_lts) by (apply these_lts_ok; exact Hg).
    assert (H2 : Forall (fun n => P n) those_lts).
    { subst those_lts. unfold declarable_lts. apply Forall_forall. intros x Hx. apply filter_In in Hx. destruct Hx as [Hx _].
      assert (Ha : Forall (fun n => P n) (angle_lts (tp_generics (c_ty c)))) by (apply angle_lts_ok; exact Hta).
      rewrite Forall_forall in Ha. exact (Ha x Hx). }
    set (ref_lts := if is_ref (c_kind c) then _ else []).
    assert (H3 : Forall (fun n => P n) ref_lts). { subst ref_lts. destruct (is_ref (c_kind c)); [destruct (is_from (c_kind c)); assumption | constructor]. }
    clearbody these_lts those_lts ref_lts.
    assert (Hg1 : Forall gparam_ok (add_missing_lts (tv_generics t) those_lts)) by (apply add_missing_lts_ok; assumption).
    repeat (constructor; cbn [snd]).
    - destruct (tc_attr (c_core c)); [exact Hat | apply TI_nil].
    - destruct (tc_impl_attr (c_core c)); [exact Hia | apply TI_nil].
    - destruct (tc_inner_attr (c_core c)); [exact Hin | apply TI_nil].
    - exact Hdst.
    - exact Hsrc.
    - apply TI_print_type_generics. exact Hg.
    - unfold c_ty. destruct (tp_generics (tc_ty (c_core c))) as [a|]; cbn [opt_ok] in Hta; [apply TI_print_angle; exact Hta | apply TI_nil].
    - apply TI_print_impl_generics. destruct ref_lts as [|x r]; [exact Hg1|]. apply push_param_ok; [exact Hg1|].
      split; cbn [gp_name gp_decl]; [lit|]. apply TI_app; [apply TI_lifetime; lit|]. apply TI_app; [ti | apply TI_join_plus; exact H3].
    - apply TI_print_where_all; assumption.
    - destruct (is_ref (c_kind c)); [|apply TI_nil]. destruct ref_lts; [ti|]. apply TI_punct. apply TI_lifetime. lit.
  Qed.

  Lemma R_err_env c : ictx_ok c -> RR env_ok (err_env c).
  Proof.
    intro Hc. assert (Hcore : core_ok (c_core c)) by apply Hc. destruct Hcore as (_ & He & _). unfold err_env.
    destruct (tc_err (c_core c)) as [e|]; cbn [opt_ok] in He; [|apply RR_panic]. destruct He as [Hp Ha]. apply RR_ok.
    constructor; [exact Hp|]. constructor; [|constructor]. cbn [snd]. destruct (tp_generics e) as [a|]; cbn [opt_ok] in Ha; [apply TI_print_angle; exact Ha | apply TI_nil].
  Qed.

  Lemma TI_opt_toks o : oTI o -> TI (opt_toks o).
  Proof. destruct o; cbn [oTI opt_ok opt_toks]; [auto | intros _; apply TI_nil]. Qed.

  (* ---- quote_trait: every identifier of a generated item ---- *)
  Theorem RT_quote_trait t c0 : tview_ok t -> ictx_ok c0 -> RT (quote_trait t c0).
  Proof.
    intros Ht Hc0. unfold RT, quote_trait. cbv zeta.
    assert (Hpre : TI (opt_toks (struct_pre_init c0))) by (apply TI_opt_toks, TI_struct_pre_init; exact Hc0).
    assert (Hd : dview_ok (tv_data t)) by apply Ht.
    apply (RR_bind oTI); [destruct (is_some (tc_qret (c_core c0))); [apply RR_ok; exact Logic.I | apply R_struct_post_init; exact Hd]|]. intros post Hpost.
    set (c := {| c_kind := c_kind c0; c_post_init := is_some post |}).
    assert (Hc : ictx_ok c) by exact Hc0.
    assert (Hbase : env_ok (trait_env t c)) by (apply trait_env_ok; assumption).
    assert (Hpo : TI (opt_toks post)) by (apply TI_opt_toks; exact Hpost).
    assert (Hk : c_kind c = c_kind c0) by reflexivity. assert (Hf : c_fallible c = c_fallible c0) by reflexivity.
    clearbody c. rewrite Hk, Hf. clear Hk Hf.
    assert (env_cons : forall k v e, TI v -> env_ok e -> env_ok ((k, v) :: e)) by (intros; constructor; assumption).
    assert (env_app : forall e1 e2, env_ok e1 -> env_ok e2 -> env_ok (e1 ++ e2)) by (intros; apply Forall_app; split; assumption).
    destruct (is_from (c_kind c0)); [|destruct (is_intoish (c_kind c0))]; destruct (c_fallible c0).
    - apply (RR_bind TI); [apply RT_main_code_block_ok; assumption|]. intros init Hi.
      apply (RR_bind env_ok); [apply R_err_env; exact Hc|]. intros ee Hee. apply RR_ok. apply TI_inst; [|apply sk_ok_try_from]. auto.
    - apply (RR_bind TI); [apply RT_main_code_block; assumption|]. intros init Hi. apply RR_ok. apply TI_inst; [|apply sk_ok_from]. auto.
    - apply (RR_bind TI); [apply RT_main_code_block_ok; assumption|]. intros init Hi.
      apply (RR_bind env_ok); [apply R_err_env; exact Hc|]. intros ee Hee. cbv zeta. apply RR_ok.
      assert (He1 : env_ok (("pre_init", opt_toks (struct_pre_init c0)) :: ("init", init) :: ("post_init", opt_toks post) :: ee ++ trait_env t c)) by auto.
      apply TI_inst; [|apply sk_ok_try_into]. apply env_cons; [|exact He1].
      destruct post; apply TI_inst; try exact He1; [apply sk_ok_try_into_body_post | apply sk_ok_try_into_body_plain].
    - apply (RR_bind TI); [apply RT_main_code_block; assumption|]. intros init Hi. cbv zeta. apply RR_ok.
      assert (He1 : env_ok (("pre_init", opt_toks (struct_pre_init c0)) :: ("init", init) :: ("post_init", opt_toks post) :: trait_env t c)) by auto.
      apply TI_inst; [|apply sk_ok_into]. apply env_cons; [|exact He1].
      destruct post; apply TI_inst; try exact He1; [apply sk_ok_into_body_post | apply sk_ok_into_body_plain].
    - apply (RR_bind TI); [apply RT_main_code_block; assumption|]. intros init Hi.
      apply (RR_bind env_ok); [apply R_err_env; exact Hc|]. intros ee Hee. apply RR_ok. apply TI_inst; [|apply sk_ok_try_into_existing]. auto 10.
    - apply (RR_bind TI); [apply RT_main_code_block; assumption|]. intros init Hi. apply RR_ok. apply TI_inst; [|apply sk_ok_into_existing]. auto 10.
  Qed.

  (* ---- from the parsed data type to the views ---- *)
  Definition member_attrs_ok (m : member_attrs) : Prop :=
    Forall (fun a => omember_ok (mc_member (ma_core a)) /\ oTI (mc_action (ma_core a))) (m_attrs m) /\
    Forall (fun a => Forall member_ok (ch_path a)) (m_child m) /\
    Forall (fun a => opt_ok (Forall pcf_ok) (pa_children a)) (m_parent m) /\
    Forall (fun a => oTI (fg_action (gh_core a))) (m_ghost m) /\
    Forall (fun a => ghosts_ok (ga_core a)) (m_ghosts m) /\
    Forall (fun a => TI (lp_toks a)) (m_lit m) /\ Forall (fun a => TI (lp_toks a)) (m_pat m).
  Definition field_ok (f : field) : Prop := member_attrs_ok (f_attrs f) /\ member_ok (f_member f) /\ oTI (f_ty f).
  Definition variant_ok (v : variant) : Prop := member_attrs_ok (v_attrs v) /\ P (v_ident v) /\ Forall field_ok (v_fields v).
  Definition dt_attrs_ok (d : dt_attrs) : Prop :=
    Forall (fun a => core_ok (ta_core a)) (d_attrs d) /\ Forall (fun a => ghosts_ok (ga_core a)) (d_ghosts d) /\
    Forall (fun w => Forall TI (wa_preds w)) (d_where d) /\ Forall child_parents_ok (d_child_parents d).
  Definition data_ok (d : data_type) : Prop :=
    P (dt_ident d) /\ Forall gparam_ok (dt_generics d) /\ dt_attrs_ok (dt_get_attrs d) /\
    match d with DStruct s => Forall field_ok (s_fields s) | DEnum e => Forall variant_ok (e_variants e) end /\
    Forall TI (dt_where d).

  Lemma find_for_ok {A} (Q : A -> Prop) ty_of ok (l : list A) ty x : Forall Q l -> find_for ty_of ok l ty = Some x -> Q x.
  Proof.
    intros H E. unfold find_for in E. destruct (find _ l) as [y|] eqn:E1; [injection E as <-; exact (find_ok Q _ l y H E1)|]. exact (find_ok Q _ l x H E).
  Qed.

  Lemma opt_find_for_ok {A} (Q : A -> Prop) ty_of ok (l : list A) ty : Forall Q l -> opt_ok Q (find_for ty_of ok l ty).
  Proof. intro H. destruct (find_for ty_of ok l ty) as [x|] eqn:E; cbn [opt_ok]; [exact (find_for_ok Q _ _ l ty x H E) | exact Logic.I]. Qed.

  Lemma opt_map_ok {A B} (Q : B -> Prop) (f : A -> B) o : opt_ok (fun a => Q (f a)) o -> opt_ok Q (option_map f o).
  Proof. destruct o; cbn; auto. Qed.

  Lemma or_else_ok {A} (Q : A -> Prop) a b : opt_ok Q a -> opt_ok Q b -> opt_ok Q (or_else a b).
  Proof. destruct a; cbn; auto. Qed.

  Lemma field_attr_core_ok m k f ty : member_attrs_ok m -> opt_ok (fun mc => omember_ok (mc_member mc) /\ oTI (mc_action mc)) (field_attr_core m k f ty).
  Proof. intros (H & _). unfold field_attr_core, field_attr. apply opt_map_ok. apply opt_find_for_ok. exact H. Qed.

  Lemma applicable_attr_ok m k f ty : member_attrs_ok m -> opt_ok applicable_ok (applicable_attr m k f ty).
  Proof.
    intro Hm. unfold applicable_attr.
    assert (Hg : opt_ok (fun g => oTI (fg_action g)) (m_ghost_for m ty k)).
    { unfold m_ghost_for. apply opt_map_ok. apply opt_find_for_ok. apply Hm. }
    destruct (m_ghost_for m ty k) as [g|]; cbn [opt_ok] in *; [exact Hg|].
    apply (opt_map_ok applicable_ok AField). cbn [applicable_ok]. unfold field_chain.
    repeat (apply or_else_ok; [try (destruct (_ : bool); [|exact Logic.I]); apply field_attr_core_ok; exact Hm|]).
    destruct (_ : bool); [apply field_attr_core_ok; exact Hm | exact Logic.I].
  Qed.

  Lemma view_field_ok k fl ty f : field_ok f -> fview_ok (view_field k fl ty f).
  Proof.
    intros (Hm & Hmem & Hty). unfold fview_ok, view_field. cbn [fv_member fv_ty fv_child fv_ghost fv_pparent fv_attr].
    split; [exact Hmem|]. split; [exact Hty|]. split.
    { unfold m_child_for. apply opt_map_ok. apply opt_find_for_ok. apply Hm. }
    split. { unfold m_ghost_for. apply opt_map_ok. apply opt_find_for_ok. apply Hm. }
    split.
    { destruct Hm as (_ & _ & Hpa & _). destruct (parameterized_parent_attr (f_attrs f) ty) as [p|] eqn:E; [|exact Logic.I].
      unfold parameterized_parent_attr in E. exact (find_for_ok _ _ _ _ _ _ Hpa E). }
    apply applicable_attr_ok. exact Hm.
  Qed.

  Lemma ghosts_attr_for_ok (gs : list ghosts_attr) ty (ok : ghosts_attr -> bool) :
    Forall (fun a => ghosts_ok (ga_core a)) gs -> opt_ok ghosts_ok (option_map ga_core (find_for (fun x => sg_ty (ga_core x)) ok gs ty)).
  Proof. intro H. apply opt_map_ok. apply opt_find_for_ok. exact H. Qed.

  Lemma view_struct_ok k fl ty s : dt_attrs_ok (s_attrs s) -> Forall field_ok (s_fields s) -> sview_ok (view_struct k fl ty s).
  Proof.
    intros (_ & Hg & _ & Hcp) Hf. unfold sview_ok, view_struct. cbn [sv_fields sv_ghosts sv_child_parents]. split.
    { rewrite Forall_forall in *. intros x Hx. apply in_map_iff in Hx. destruct Hx as (f & <- & Hin). apply view_field_ok, Hf, Hin. }
    split; [unfold ghosts_attr_for; apply ghosts_attr_for_ok; exact Hg|]. unfold child_parents_attr_for. apply opt_find_for_ok. exact Hcp.
  Qed.

  Lemma view_variant_ok k fl ty v : variant_ok v -> vview_ok (view_variant k fl ty v).
  Proof.
    intros (Hm & Hid & Hf). unfold vview_ok, view_variant. cbn [vv_ident vv_struct vv_attr vv_lit vv_pat].
    split; [exact Hid|]. split.
    { unfold sview_ok. cbn [sv_fields sv_ghosts sv_child_parents]. split.
      - rewrite Forall_forall in *. intros x Hx. apply in_map_iff in Hx. destruct Hx as (f & <- & Hin). apply view_field_ok, Hf, Hin.
      - split; [|exact Logic.I]. unfold variant_ghosts. apply ghosts_attr_for_ok. apply Hm. }
    split; [apply applicable_attr_ok; exact Hm|].
    split; [unfold m_lit_for | unfold m_pat_for]; apply opt_find_for_ok; apply Hm.
  Qed.

  Lemma view_type_ok k fl ty d : data_ok d -> tview_ok (view_type k fl ty d).
  Proof.
    intros (Hid & Hg & Ha & Hd & How). unfold tview_ok, view_type. cbn [tv_generics tv_data tv_where tv_own_where]. split; [exact Hg|]. split.
    - destruct d as [s|e]; cbn [dview_ok dt_get_attrs] in *.
      + apply view_struct_ok; assumption.
      + split.
        * rewrite Forall_forall in *. intros x Hx. apply in_map_iff in Hx. destruct Hx as (v & <- & Hin). apply view_variant_ok, Hd, Hin.
        * unfold ghosts_attr_for. apply ghosts_attr_for_ok. apply Ha.
    - split; [unfold where_attr_for; apply opt_find_for_ok; apply Ha | exact How].
  Qed.

  Lemma impl_contexts_ok d : data_ok d -> Forall ictx_ok (impl_contexts d).
  Proof.
    intros (Hid & _ & (Hat & _) & _). unfold impl_contexts. cbv zeta. apply Forall_flat_map. rewrite Forall_forall. intros kf _.
    rewrite Forall_forall. intros c Hc. apply in_map_iff in Hc. destruct Hc as (a & <- & Ha).
    unfold iter_for_kind in Ha. apply filter_In in Ha. destruct Ha as [Ha _]. rewrite Forall_forall in Hat. specialize (Hat a Ha).
    assert (Hty : TI [TIdent (dt_ident d)]) by (apply TI_ident; [exact Hid | apply TI_nil]).
    assert (Htp : TI (tp_path (tc_ty (ta_core a)))) by apply Hat.
    unfold ictx_ok. cbn [c_dst c_src c_core]. split; [destruct (is_from (fst kf)); assumption|]. split; [destruct (is_from (fst kf)); assumption | exact Hat].
  Qed.

  (* the closed-world statement for the whole expansion *)
  Theorem data_type_impl_idents d ts : data_ok d -> data_type_impl d = Ok ts -> TI ts.
  Proof.
    intros Hd E. unfold data_type_impl in E.
    assert (H : RR (Forall TI) (mapM (expand_impl d) (impl_contexts d))).
    { apply RR_mapM. intros c Hc. unfold expand_impl. assert (Hic := impl_contexts_ok d Hd). rewrite Forall_forall in Hic.
      apply RT_quote_trait; [apply view_type_ok; exact Hd | apply Hic, Hc]. }
    destruct (mapM (expand_impl d) (impl_contexts d)) as [impls| | |]; cbn [bind] in E; try discriminate. injection E as <-.
    apply TI_concat. apply H. reflexivity.
  Qed.
End ProvC.

(* ---- the instance the property names: neither `std` nor `alloc` ---- *)
Definition no_std_P (i : string) : Prop := i <> "std" /\ i <> "alloc".

Lemma expand_literals_no_std : forall i, In i expand_literals -> no_std_P i.
Proof.
  assert (H : forallb (fun i => negb (String.eqb i "std") && negb (String.eqb i "alloc")) expand_literals = true) by (vm_compute; reflexivity).
  intros i Hi. rewrite forallb_forall in H. specialize (H i Hi). apply andb_prop in H. destruct H as [H1 H2].
  split; intro E; subst i; discriminate.
Qed.

Lemma f_ident_no_std : forall n, no_std_P (f_ident n).
Proof. intro n. unfold f_ident. cbn [String.append]. split; intro E; discriminate E. Qed.

Definition no_std_prov : Prov := {| P := no_std_P; P_lit := expand_literals_no_std; P_f := f_ident_no_std |}.

Lemma no_std_alloc : forall d ts,
    @data_ok no_std_prov d -> data_type_impl d = Ok ts -> ~ In "std" (toks_idents ts) /\ ~ In "alloc" (toks_idents ts).
Proof.
  intros d ts Hd E. assert (H := @data_type_impl_idents no_std_prov d ts Hd E). unfold TI in H. cbn [P no_std_prov] in H.
  split; intro Hin; destruct (H _ Hin) as [H1 H2]; [apply H1 | apply H2]; reflexivity.
Qed.

