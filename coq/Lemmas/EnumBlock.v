(* C02: the match body of an enum conversion, in full generality - ghost variants, #[ghosts] arms and the default case included. *)
From Coq Require Import List String Ascii Bool Arith.
From O2o.Model Require Import Tok Syn Attr Ast Lookup Expand.
From O2o.Lemmas Require Import LitPat.
Import ListNotations.
Open Scope list_scope.

(* a variant contributes an arm unless: converting FROM the counterpart it is a ghost variant (the counterpart has no such variant);
   converting INTO it is a ghost variant without a default expression *)
Definition contributes (c : ictx) (v : vview) : bool :=
  negb (is_from (c_kind c) && is_some (vv_ghost v)) &&
  negb (negb (is_from (c_kind c)) && match vv_ghost v with Some g => negb (is_some (fg_action g)) | None => false end).

Definition default_arm (vs : list vview) (ghosts : option ghosts_core) (c : ictx) : list tok :=
  match tc_default (c_core c) with
  | Some dc =>
      if (is_from (c_kind c) && (existsb (fun v => is_some (vv_lit v) || is_some (vv_pat v)) vs || is_some ghosts))
         || (negb (is_from (c_kind c)) && existsb (fun v => is_some (vv_ghost v)) vs)
      then TIdent "_" :: quote_action dc None c else []
  | None => []
  end.

Lemma mapM_filtered {A B} (f : A -> res (list B)) (keep : A -> bool) (g : A -> list B) : forall l,
    (forall x, In x l -> keep x = true -> f x = Ok (g x)) ->
    mapM (fun x => if keep x then f x else Ok []) l = Ok (map (fun x => if keep x then g x else []) l).
Proof.
  induction l as [|x l IH]; intro H; cbn [mapM map]; [reflexivity|].
  rewrite IH by (intros y Hy; apply H; right; exact Hy).
  destruct (keep x) eqn:E; [rewrite (H x (or_introl eq_refl) E)|]; reflexivity.
Qed.

Lemma concat_map_filter {A B} (keep : A -> bool) (g : A -> list B) : forall l,
    List.concat (map (fun x => if keep x then g x else []) l) = List.concat (map g (filter keep l)).
Proof.
  induction l as [|x l IH]; [reflexivity|]. cbn [map filter List.concat]. destruct (keep x); cbn [map List.concat app]; rewrite IH; reflexivity.
Qed.

(* the match body = the arms of the contributing variants in declaration order, then the #[ghosts] arms in the order they are
   written, then the default case - for every list of variants, whatever their instructions *)
Theorem enum_block_structure : forall vs ghosts c (arm : vview -> list tok) (garm : ghost_data -> list tok),
    (forall v, In v vs -> contributes c v = true -> render_enum_line v c = Ok (arm v)) ->
    (forall g x, ghosts = Some g -> In x (sg_data g) -> render_enum_ghost_line x c = Ok (garm x)) ->
    enum_init_block vs ghosts c =
    Ok [brace (List.concat (map arm (filter (contributes c) vs)) ++
               List.concat (map garm (match ghosts with Some g => sg_data g | None => [] end)) ++
               default_arm vs ghosts c)].
Proof.
  intros vs ghosts c arm garm Hv Hg. unfold enum_init_block.
  assert (E : mapM (fun v => if is_from (c_kind c) && is_some (vv_ghost v) then Ok []
                             else if negb (is_from (c_kind c)) && match vv_ghost v with Some g => negb (is_some (fg_action g)) | None => false end
                                  then Ok [] else render_enum_line v c) vs
              = Ok (map (fun v => if contributes c v then arm v else []) vs)).
  { rewrite <- (mapM_filtered (fun v => render_enum_line v c) (contributes c) arm vs Hv).
    clear Hv Hg. induction vs as [|v vs IH]; [reflexivity|]. cbn [mapM]. rewrite IH.
    unfold contributes. destruct (is_from (c_kind c) && is_some (vv_ghost v)); cbn [negb andb]; [reflexivity|].
    destruct (negb (is_from (c_kind c)) && _); reflexivity. }
  rewrite E. cbn [bind]. rewrite concat_map_filter.
  destruct ghosts as [g|].
  - rewrite (mapM_all_ok _ garm) by (intros x Hx; exact (Hg g x eq_refl Hx)). cbn [bind]. reflexivity.
  - cbn [bind List.concat map app]. reflexivity.
Qed.

(* a #[ghosts] arm (From only): `Src::<Variant or destructuring> => <expression>,`; nothing for the other direction *)
Lemma ghosts_arm : forall x c,
    render_enum_ghost_line x c =
    match gd_ident x with
    | GMember (MIndex _) => Panic "17"
    | GMember (MNamed ident) =>
        if is_from (c_kind c) then Ok (c_src c ++ colon2 ++ [TIdent ident] ++ fatarrow ++ quote_action (gd_action x) None c ++ [comma]) else Ok []
    | GDestr destr =>
        if is_from (c_kind c) then Ok (c_src c ++ colon2 ++ destr ++ fatarrow ++ quote_action (gd_action x) None c ++ [comma]) else Ok []
    end.
Proof. intros x c. reflexivity. Qed.

(* ---- the arm of a variant that a variant-level instruction renames: `#[map(W)] V ..` ---- *)
(* the two pieces every non-literal arm is made of (as in C02_plain_arm) *)
Definition arm_ctx (v : vview) (c : ictx) : ictx :=
  {| c_kind := c_kind c; c_fallible := c_fallible c; c_core := c_core c;
     c_hint := match vv_hint v with Some h => th_hint h | None => HUnspecified end; c_impl_type := ITVariant;
     c_dst := c_dst c; c_src := c_src c; c_post_init := c_post_init c; c_named := sv_named (vv_struct v) |}.
Definition arm_destr (v : vview) (c : ictx) : res (list tok) :=
  let hint := match vv_hint v with Some h => th_hint h | None => HUnspecified end in
  let empty_fields := is_empty_list (sv_fields (vv_struct v)) in
  if empty_fields && (negb (is_from (c_kind c)) || hint_maybe hint HUnit) then Ok []
  else if empty_fields && is_from (c_kind c) && hint_eqb hint HTuple then Ok [paren dotdot]
  else if empty_fields && is_from (c_kind c) && hint_eqb hint HStruct then Ok [brace dotdot]
  else variant_destruct_block (vv_struct v) (arm_ctx v c).
Definition arm_init (v : vview) (c : ictx) : res (list tok) :=
  let hint := match vv_hint v with Some h => th_hint h | None => HUnspecified end in
  if is_empty_list (sv_fields (vv_struct v)) && hint_maybe hint HUnit then Ok [] else struct_init_block (vv_struct v) (arm_ctx v c).

(* From<Counterpart>: the counterpart's variant W is matched, the own variant V is built *)
Theorem renamed_arm_from : forall v c mc w,
    vv_attr v = Some (AField mc) -> mc_member mc = Some (MNamed w) -> mc_action mc = None ->
    vv_lit v = None -> vv_pat v = None -> is_from (c_kind c) = true ->
    render_enum_line v c =
    (destr <- arm_destr v c ;; init <- arm_init v c ;;
     Ok (c_src c ++ colon2 ++ [TIdent w] ++ destr ++ fatarrow ++ (c_dst c ++ colon2 ++ [TIdent (vv_ident v)]) ++ init ++ [comma])).
Proof.
  intros v c mc w Ha Hm Hact Hl Hp Hk. unfold render_enum_line, arm_destr, arm_init, arm_ctx. cbv zeta. rewrite Ha, Hl, Hp, Hk.
  cbn [has_action]. rewrite Hact. cbn [is_some orb].
  match goal with |- bind ?d _ = bind ?d' _ => change d' with d; destruct d as [destr| | |]; cbn [bind]; try reflexivity end.
  match goal with |- bind ?d _ = bind ?d' _ => change d' with d; destruct d as [init| | |]; cbn [bind]; try reflexivity end.
  cbn [get_action_or get_field_name_or]. rewrite Hact, Hm. cbn [bind member_tok]. rewrite <- !app_assoc. reflexivity.
Qed.

(* Into<Counterpart>: the own variant V is matched, the counterpart's variant W is built *)
Theorem renamed_arm_into : forall v c mc w,
    vv_attr v = Some (AField mc) -> mc_member mc = Some (MNamed w) -> mc_action mc = None ->
    vv_lit v = None -> vv_pat v = None -> is_intoish (c_kind c) = true ->
    render_enum_line v c =
    (destr <- arm_destr v c ;; init <- arm_init v c ;;
     Ok ((c_src c ++ colon2 ++ [TIdent (vv_ident v)]) ++ destr ++ fatarrow ++ (c_dst c ++ colon2) ++ TIdent w :: init ++ [comma])).
Proof.
  intros v c mc w Ha Hm Hact Hl Hp Hk. unfold render_enum_line, arm_destr, arm_init, arm_ctx. cbv zeta. rewrite Ha, Hl, Hp, Hk.
  assert (F : is_from (c_kind c) = false) by (destruct (c_kind c); cbn in Hk |- *; congruence). rewrite F.
  cbn [has_action]. rewrite Hact. cbn [is_some orb].
  match goal with |- bind ?d _ = bind ?d' _ => change d' with d; destruct d as [destr| | |]; cbn [bind]; try reflexivity end.
  match goal with |- bind ?d _ = bind ?d' _ => change d' with d; destruct d as [init| | |]; cbn [bind]; try reflexivity end.
  cbn [get_stuff]. rewrite Hact, Hm. cbn [bind member_tok]. rewrite <- !app_assoc. reflexivity.
Qed.
