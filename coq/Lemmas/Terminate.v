(* C16 (the descent terminates): for a struct without parameterised #[parent] members the fuel struct_init_block gives the
   mutual descent is never exhausted - provided it covers three units per nesting level - and the member loops never run out of
   their own fuel: every callee consumes at least the member it was called for.  So the model's `Oom "fuel"` outcome (and the
   implementation's only source of non-termination here: a `while let Some(..) = members.peek()` loop whose body does not advance)
   does not occur on these inputs. *)
From Coq Require Import List String Ascii Bool Arith Lia.
From O2o.Model Require Import Tok Syn Attr Ast Lookup Validate Expand Derive.
From O2o.Lemmas Require Import PanicFree Descent.
Import ListNotations.
Open Scope string_scope.
Open Scope list_scope.

Definition NO {A} (r : res A) : Prop := forall w, r <> Oom w.

Lemma NO_ok {A} (a : A) : NO (Ok a). Proof. intros w H; discriminate. Qed.
Lemma NO_err {A} m : NO (@Err A m). Proof. intros w H; discriminate. Qed.
Lemma NO_panic {A} s : NO (@Panic A s). Proof. intros w H; discriminate. Qed.
Lemma NO_bind {A B} (r : res A) (k : A -> res B) : NO r -> (forall a, NO (k a)) -> NO (bind r k).
Proof. intros Hr Hk w H. destruct r as [a|m|site|w']; cbn [bind] in H; try discriminate; [exact (Hk a w H)|]. exact (Hr w' eq_refl). Qed.
Lemma NO_mapM {A B} (f : A -> res B) l : (forall x, NO (f x)) -> NO (mapM f l).
Proof.
  intro Hf. induction l as [|x l IH]; cbn [mapM]; [apply NO_ok|].
  apply NO_bind; [apply Hf|]. intro y. apply NO_bind; [exact IH|]. intro ys. apply NO_ok.
Qed.

Ltac no_step :=
  match goal with
  | |- NO (Ok _) => apply NO_ok
  | |- NO (Err _) => apply NO_err
  | |- NO (Panic _) => apply NO_panic
  | |- NO (bind _ _) => apply NO_bind; [|intro]
  | |- NO (mapM _ _) => apply NO_mapM; intro
  | |- NO (if ?b then _ else _) => destruct b
  | |- NO (match ?x with _ => _ end) => destruct x
  | |- NO (let '(_, _) := ?x in _) => destruct x
  end.
Ltac no := repeat no_step.

Lemma NO_get_field_name_or a m : NO (get_field_name_or a m). Proof. unfold get_field_name_or; no. Qed.
Lemma NO_get_action_or a p c o : NO (get_action_or a p c o). Proof. unfold get_action_or; no. Qed.
Lemma NO_get_stuff a obj fp c o : NO (get_stuff a obj fp c o). Proof. unfold get_stuff; no. Qed.
Lemma NO_get_ident a : NO (get_ident a). Proof. unfold get_ident; no. Qed.
#[local] Hint Resolve NO_get_field_name_or NO_get_action_or NO_get_stuff NO_get_ident : no.
Ltac no' := repeat (first [no_step | solve [auto with no]]).

Lemma NO_render_struct_line f c hint idx pc : NO (render_struct_line f c hint idx pc).
Proof. unfold render_struct_line. cbv zeta. no'. Qed.
Lemma NO_render_ghost_line g c : NO (render_ghost_line g c). Proof. unfold render_ghost_line. cbv zeta. no'. Qed.
Lemma NO_wrap_struct c hint named frags : NO (wrap_struct c hint named frags). Proof. unfold wrap_struct; no'. Qed.
Lemma NO_nth_str l n : NO (nth_str l n). Proof. unfold nth_str; no'. Qed.

(* ---- strings: every earlier element of a child path's prefix strings is a dotted prefix of the last one ---- *)
Lemma app_assoc_s (a b c : string) : (a ^^ b) ^^ c = a ^^ (b ^^ c).
Proof. induction a as [|x a IH]; cbn [String.append]; [reflexivity | rewrite IH; reflexivity]. Qed.
Lemma prefix_app (a b : string) : String.prefix a (a ^^ b) = true.
Proof. induction a as [|x a IH]; cbn [String.append String.prefix]; [destruct b; reflexivity|]. destruct (Ascii.ascii_dec x x); [exact IH | contradiction]. Qed.

Lemma aux_elems : forall r s x, In x (child_path_strs_aux s false r) -> exists t, x = s ^^ "." ^^ t.
Proof.
  induction r as [|m r IH]; intros s x Hin; [destruct Hin|]. cbn [child_path_strs_aux] in Hin. destruct Hin as [<-|Hin].
  - exists (member_str m). reflexivity.
  - destruct (IH _ _ Hin) as [t ->]. exists (member_str m ^^ "." ^^ t). rewrite !app_assoc_s. reflexivity.
Qed.

Lemma last_in {A} (l : list A) d : l <> [] -> In (last l d) l.
Proof. induction l as [|x l IH]; intro H; [contradiction H; reflexivity|]. destruct l as [|y l']; [left; reflexivity|]. right. apply IH. discriminate. Qed.

Lemma aux_last_under : forall l pre first k p,
    nth_error (child_path_strs_aux pre first l) k = Some p ->
    let q := last (child_path_strs_aux pre first l) "" in
    q = p \/ exists t, q = p ^^ "." ^^ t.
Proof.
  induction l as [|m r IH]; intros pre first k p Hk; [destruct k; discriminate Hk|]. cbn [child_path_strs_aux] in *.
  set (s := if first then member_str m else pre ^^ "." ^^ member_str m) in *.
  destruct k as [|k]; cbn [nth_error] in Hk.
  - injection Hk as <-. destruct r as [|m2 r2]; [left; reflexivity|]. right.
    apply (aux_elems (m2 :: r2) s). change (last (s :: child_path_strs_aux s false (m2 :: r2)) "") with (last (child_path_strs_aux s false (m2 :: r2)) "").
    apply last_in. cbn. discriminate.
  - destruct r as [|m2 r2]; [destruct k; discriminate Hk|].
    change (last (s :: child_path_strs_aux s false (m2 :: r2)) "") with (last (child_path_strs_aux s false (m2 :: r2)) "").
    exact (IH s false k p Hk).
Qed.

Lemma path_last_under ch k p :
  nth_error (child_path_strs ch) k = Some p ->
  String.eqb (child_path_last ch) p || starts_with (child_path_last ch) (p ^^ ".") = true.
Proof.
  intro Hk. unfold child_path_last, last_str, child_path_strs in *. destruct (aux_last_under ch "" true k p Hk) as [->|[t ->]].
  - rewrite String.eqb_refl. reflexivity.
  - apply orb_true_iff. right. unfold starts_with. rewrite <- app_assoc_s. apply prefix_app.
Qed.

Lemma strs_length : forall l pre first, List.length (child_path_strs_aux pre first l) = List.length l.
Proof. induction l as [|m r IH]; intros; cbn [child_path_strs_aux List.length]; [reflexivity | rewrite IH; reflexivity]. Qed.

(* ---- progress of init_inner (as for render_child in Descent.v) ---- *)
Lemma init_inner_makes_progress s c fuel m ms named cp cr depth ts rest p :
  init_inner s c fuel (m :: ms) named (Some (cp, cr, depth)) = Ok (ts, rest) ->
  nth_error (child_path_strs cp) depth = Some p -> under p m = true ->
  exists consumed, m :: ms = (m :: consumed) ++ rest.
Proof.
  intros E Hp Hu. destruct (descent_mutual s c fuel) as [Hi _]. destruct (Hi (m :: ms) named (Some (cp, cr, depth))) as [Hs Hst].
  destruct (Hs _ _ E) as [consumed Hc]. specialize (Hst _ _ E).
  destruct consumed as [|x consumed]; cbn [app] in Hc.
  - subst rest. cbn [stops_at] in Hst. destruct Hst as [p' [Hp' Hu']]. rewrite Hp in Hp'. injection Hp' as <-. rewrite Hu in Hu'. discriminate Hu'.
  - injection Hc as <- ->. exists consumed. reflexivity.
Qed.

Section Term.
  Variable D : nat.      (* a bound on the length of every child path *)

  Definition cwf (m : container) : Prop :=
    match fc_data m with
    | FdField f => match fv_child f with Some ch => fc_path m = child_path_last ch /\ 1 <= List.length ch <= D | None => True end
    | FdGhost g => match gd_path g with Some gp => fc_path m = child_path_last gp /\ 1 <= List.length gp <= D | None => True end
    | FdParentChild _ _ => False
    end.

  Definition callee_ok (cf : list member -> list container -> res (list tok) -> res (list tok * list container)) : Prop :=
    forall ch m rest line, fc_path m = child_path_last ch -> 1 <= List.length ch <= D -> Forall cwf (m :: rest) -> NO line ->
      NO (cf ch (m :: rest) line) /\
      (forall frag rest', cf ch (m :: rest) line = Ok (frag, rest') -> exists consumed, m :: rest = (m :: consumed) ++ rest').

  Lemma NO_bind_dep {A B} (r : res A) (k : A -> res B) : NO r -> (forall a, r = Ok a -> NO (k a)) -> NO (bind r k).
  Proof. intros Hr Hk w H. destruct r as [a|m|site|w']; cbn [bind] in H; try discriminate; [exact (Hk a eq_refl w H)|]. exact (Hr w' eq_refl). Qed.

  Lemma suffix_wf (m : container) consumed rest' l : Forall cwf l -> l = (m :: consumed) ++ rest' -> Forall cwf rest' /\ List.length rest' < List.length l.
  Proof. intros Hw ->. split; [apply Forall_app in Hw; exact (proj2 Hw)|]. rewrite app_length. cbn [List.length]. lia. Qed.

  Lemma member_loop_NO c fc hint cf gf pf :
    callee_ok cf -> callee_ok (fun cp ms _ => gf cp ms) ->
    forall n members idx acc, List.length members < n -> Forall cwf members -> NO (member_loop c fc hint cf gf pf n members idx acc).
  Proof.
    intros Hcf Hgf. induction n as [|n IH]; intros members idx acc Hlen Hw; [lia|]. cbn [member_loop].
    destruct members as [|m rest]; [apply NO_ok|]. cbn [List.length] in Hlen.
    inversion Hw as [|? ? Hm Hrest]; subst.
    apply NO_bind; [destruct fc as [[[cp o] depth]|]; [apply NO_bind; [apply NO_nth_str | intro; apply NO_ok] | apply NO_ok]|].
    intro brk. destruct brk; [apply NO_ok|]. unfold cwf in Hm.
    destruct (fc_data m) as [f|g|f p]; [| |contradiction Hm].
    - destruct (negb (is_from (c_kind c)) && _); [apply IH; [lia | exact Hrest]|].
      destruct (is_from (c_kind c) && _); [apply IH; [lia | exact Hrest]|].
      destruct (fv_child f) as [ch|].
      + destruct Hm as [Hp Hl]. destruct (Hcf ch m rest (render_struct_line f c hint idx None) Hp Hl Hw (NO_render_struct_line _ _ _ _ _)) as [Hno Hprog].
        apply NO_bind_dep; [exact Hno|]. intros [frag rest'] E. destruct (Hprog frag rest' E) as [consumed Hc].
        destruct (suffix_wf m consumed rest' (m :: rest) Hw Hc) as [Hw' Hl']. cbn [List.length] in Hl'. apply IH; [lia | exact Hw'].
      + apply NO_bind_dep; [apply NO_bind; [apply NO_render_struct_line | intro; apply NO_ok]|]. intros [frag rest'] E.
        destruct (render_struct_line f c hint idx None) as [line| | |]; cbn [bind] in E; try discriminate E. injection E as _ <-.
        apply IH; [lia | exact Hrest].
    - destruct (gd_path g) as [gp|]; [|apply NO_panic]. destruct Hm as [Hp Hl].
      destruct (Hgf gp m rest (Ok []) Hp Hl Hw (NO_ok _)) as [Hno Hprog]. cbv beta in Hno, Hprog.
      apply NO_bind_dep; [exact Hno|]. intros [frag rest'] E. destruct (Hprog frag rest' E) as [consumed Hc].
      destruct (suffix_wf m consumed rest' (m :: rest) Hw Hc) as [Hw' Hl']. cbn [List.length] in Hl'. apply IH; [lia | exact Hw'].
  Qed.

  Lemma child_fragment_progress s c fuel ch m rest depth hint line frag rest' :
    child_fragment s c fuel ch (m :: rest) depth hint line = Ok (frag, rest') -> fc_path m = child_path_last ch ->
    exists consumed, m :: rest = (m :: consumed) ++ rest'.
  Proof.
    intros E Hp. destruct fuel as [|fuel]; [discriminate E|]. rewrite child_fragment_S in E. cbv zeta in E.
    assert (Htl : forall (l : res (list tok)), (x <- l ;; Ok (x, tl (m :: rest))) = Ok (frag, rest') -> exists consumed, m :: rest = (m :: consumed) ++ rest').
    { intros l El. destruct l as [x| | |]; cbn [bind] in El; try discriminate El. injection El as _ <-. exists []. reflexivity. }
    destruct (match depth with None => true | Some d => _ end); [|exact (Htl _ E)].
    set (nd := match depth with None => 0 | Some d => S d end) in *.
    destruct (is_intoish (c_kind c)).
    - destruct (sv_child_parents s) as [cpa|]; [|discriminate E]. unfold nth_str in E.
      destruct (nth_error (child_path_strs ch) nd) as [p|] eqn:En; cbn [bind] in E; [|discriminate E].
      destruct (find _ (ca_data cpa)) as [cd|]; [|discriminate E].
      apply (nested_literal_makes_progress _ _ _ _ _ _ _ _ _ _ _ _ p E En).
      unfold under. rewrite Hp. exact (path_last_under ch nd p En).
    - destruct (is_into_existing (c_kind c)); [|exact (Htl _ E)]. unfold nth_str in E.
      destruct (nth_error (child_path_strs ch) nd) as [p|] eqn:En; cbn [bind] in E; [|discriminate E].
      apply (init_inner_makes_progress _ _ _ _ _ _ _ _ _ _ _ p E En).
      unfold under. rewrite Hp. exact (path_last_under ch nd p En).
  Qed.

  Definition lv (fc : option fctx) : nat := match fc with Some (_, _, d) => S d | None => 0 end.
  Definition lvd (depth : option nat) : nat := match depth with Some d => S d | None => 0 end.

  Lemma descent_NO s c : forall fuel,
      (forall members named fc, Forall cwf members -> 3 * (D - lv fc) + 2 <= fuel -> NO (init_inner s c fuel members named fc)) /\
      (forall cp members depth hint line, 1 <= List.length cp <= D -> Forall cwf members -> NO line -> 3 * (D - lvd depth) + 1 <= fuel ->
          NO (child_fragment s c fuel cp members depth hint line)) /\
      (forall cd members named cp depth hint, Forall cwf members -> 3 * (D - depth) <= fuel -> depth < D ->
          NO (render_child s c fuel cd members named cp depth hint)).
  Proof.
    induction fuel as [|fuel [IHi [IHc IHr]]].
    - repeat split; intros; try lia. 
    - split; [|split].
      + intros members named fc Hw Hf. rewrite init_inner_S. cbv zeta.
        set (hint := match fc with Some (_, Some (_, h), _) => h | _ => c_hint c end).
        set (dopt := option_map (fun x : list member * option child_render * nat => snd x) fc).
        assert (Hd : lvd dopt = lv fc) by (destruct fc as [[[cp o] d]|]; reflexivity).
        apply NO_bind.
        * apply member_loop_NO; [| |lia|exact Hw].
          -- intros ch m rest line Hp Hl Hw' Hline. split.
             ++ apply IHc; [exact Hl | exact Hw' | exact Hline | rewrite Hd; lia].
             ++ intros frag rest' E. exact (child_fragment_progress _ _ _ _ _ _ _ _ _ _ _ E Hp).
          -- intros gp m rest line Hp Hl Hw' _. split.
             ++ apply IHc; [exact Hl | exact Hw' | apply NO_ok | rewrite Hd; lia].
             ++ intros frag rest' E. exact (child_fragment_progress _ _ _ _ _ _ _ _ _ _ _ E Hp).
        * intros [frags rest]. apply NO_bind.
          -- destruct (negb (is_from (c_kind c))); [|apply NO_ok]. destruct (sv_ghosts s) as [ga|]; [|apply NO_ok].
             apply NO_mapM. intro x. destruct (gd_path x) as [gp|], fc as [[[cp o] d]|]; try apply NO_ok; try apply NO_render_ghost_line.
             apply NO_bind; [apply NO_nth_str|]. intro p. destruct (String.eqb _ p); [apply NO_render_ghost_line | apply NO_ok].
          -- intro ghosts. apply NO_bind; [apply NO_wrap_struct | intro; apply NO_ok].
      + intros cp members depth hint line Hl Hw Hline Hf. rewrite child_fragment_S. cbv zeta.
        assert (Htl : NO (l <- line ;; Ok (l, tl members))) by (apply NO_bind; [exact Hline | intro; apply NO_ok]).
        destruct (match depth with None => true | Some d => Nat.ltb d (List.length (child_path_strs cp) - 1) end) eqn:Ed; [|exact Htl].
        assert (Hnd : lvd depth < D).
        { unfold child_path_strs in Ed. rewrite strs_length in Ed. destruct depth as [d|]; cbn [lvd]; [apply Nat.ltb_lt in Ed|]; lia. }
        set (nd := match depth with None => 0 | Some d => S d end). assert (End : nd = lvd depth) by (destruct depth; reflexivity).
        destruct (is_intoish (c_kind c)).
        * destruct (sv_child_parents s) as [cpa|]; [|apply NO_panic]. apply NO_bind; [apply NO_nth_str|]. intro p.
          destruct (find _ (ca_data cpa)) as [cd|]; [|apply NO_panic]. apply IHr; [exact Hw | lia | lia].
        * destruct (is_into_existing (c_kind c)); [|exact Htl]. apply NO_bind; [apply NO_nth_str|]. intro p. cbv zeta.
          apply IHi; [exact Hw|]. cbn [lv]. lia.
      + intros cd members named cp depth hint Hw Hf Hd. rewrite render_child_S.
        destruct (nth_error cp depth) as [name|]; [|apply NO_panic].
        apply NO_bind; [apply IHi; [exact Hw | cbn [lv]; lia]|]. intros [init rest]. cbv zeta.
        destruct (c_named c), hint; first [apply NO_ok | apply NO_panic].
  Qed.
End Term.

(* ---- the fuel struct_init_block provides is enough ---- *)
Lemma length_app_s (a b : string) : String.length (a ^^ b) = String.length a + String.length b.
Proof. induction a as [|x a IH]; cbn [String.append String.length]; [reflexivity | rewrite IH; reflexivity]. Qed.

Definition path_wf (ch : list member) : Prop := ch <> [] /\ Forall (fun x => member_str x <> "") ch.

Lemma nonempty_len (x : string) : x <> "" -> 1 <= String.length x.
Proof. destruct x; [intro H; contradiction H; reflexivity | intros _; cbn; lia]. Qed.

Lemma aux_last_length : forall (l : list member) (pre : string) (first : bool),
    l <> [] -> Forall (fun x => member_str x <> "") l ->
    List.length l + (if first then 0 else String.length pre) <= String.length (last (child_path_strs_aux pre first l) "").
Proof.
  induction l as [|m r IH]; intros pre first Hne Hf; [contradiction Hne; reflexivity|].
  inversion Hf as [|? ? Hm Hr]; subst. cbn [child_path_strs_aux].
  set (s := if first then member_str m else pre ^^ "." ^^ member_str m).
  assert (Hs : 1 + (if first then 0 else String.length pre) <= String.length s).
  { subst s. pose proof (nonempty_len _ Hm). destruct first; [lia|]. rewrite !length_app_s. cbn [String.length]. lia. }
  clearbody s. destruct r as [|m2 r2].
  - cbn [child_path_strs_aux last List.length]. remember (if first then 0 else String.length pre) as C eqn:EC. remember (String.length s) as B eqn:EB.
    clear - Hs. lia.
  - change (last (s :: child_path_strs_aux s false (m2 :: r2)) "") with (last (child_path_strs_aux s false (m2 :: r2)) "").
    assert (H := IH s false ltac:(discriminate) Hr). cbn [List.length] in *. cbv beta iota in H.
    remember (String.length (last (child_path_strs_aux s false (m2 :: r2)) "")) as A eqn:EA. remember (String.length s) as B eqn:EB.
    remember (if first then 0 else String.length pre) as C eqn:EC. remember (Datatypes.length r2) as E eqn:EE.
    clear - H Hs. lia.
Qed.

Lemma path_len_bound ch : path_wf ch -> 1 <= List.length ch <= String.length (child_path_last ch).
Proof.
  intros [Hne Hf]. split; [destruct ch; [contradiction Hne; reflexivity | cbn; lia]|].
  unfold child_path_last, last_str, child_path_strs. pose proof (aux_last_length ch "" true Hne Hf) as H. cbv beta iota in H. rewrite Nat.add_0_r in H. exact H.
Qed.

Definition struct_wf (s : sview) : Prop :=
  Forall (fun f => fv_pparent f = None /\ match fv_child f with Some ch => path_wf ch | None => True end) (sv_fields s) /\
  match sv_ghosts s with
  | Some g => Forall (fun x => match gd_path x with Some gp => path_wf gp | None => True end) (sg_data g)
  | None => True
  end.

Lemma assign_groups_items : forall items groups only_new cs gs x,
    assign_groups items groups only_new = (cs, gs) -> In x cs -> In (fc_path x, fc_data x) items.
Proof.
  induction items as [|[p d] r IH]; intros groups only_new cs gs x H Hin; cbn [assign_groups] in H.
  - injection H as <- <-. destruct Hin.
  - destruct (group_of groups p) as [g|].
    + destruct (assign_groups r groups only_new) as [cs' gs'] eqn:Er. injection H as <- <-.
      apply in_app_or in Hin. destruct Hin as [Hin|Hin].
      * destruct only_new; [destruct Hin|]. destruct Hin as [<-|[]]. left. reflexivity.
      * right. exact (IH _ _ _ _ _ Er Hin).
    + destruct (assign_groups r (groups ++ [p]) only_new) as [cs' gs'] eqn:Er. injection H as <- <-.
      destruct Hin as [<-|Hin]; [left; reflexivity | right; exact (IH _ _ _ _ _ Er Hin)].
Qed.

Lemma max_path_len_ge : forall cs x, In x cs -> String.length (fc_path x) <= max_path_len cs.
Proof.
  induction cs as [|y cs IH]; intros x Hin; [destruct Hin|]. cbn [max_path_len fold_right]. destruct Hin as [<-|Hin]; [lia|].
  specialize (IH x Hin). unfold max_path_len in IH. lia.
Qed.

Lemma containers_cwf s : struct_wf s -> Forall (cwf (Nat.max 1 (max_path_len (sorted_containers s)))) (sorted_containers s).
Proof.
  intros [Hf Hg]. apply Forall_forall. intros x Hx. pose proof (max_path_len_ge _ _ Hx) as Hmax.
  revert Hx Hmax. generalize (max_path_len (sorted_containers s)) as L. intros L Hx Hmax.
  unfold sorted_containers in Hx. destruct (assign_groups (field_items s) [""] false) as [c1 g1] eqn:E1.
  destruct (assign_groups (ghost_items s) g1 true) as [c2 g2] eqn:E2.
  apply in_flat_map in Hx. destruct Hx as [g [_ Hx]]. apply filter_In in Hx. destruct Hx as [Hx _].
  apply in_app_or in Hx. unfold cwf. destruct Hx as [Hx|Hx].
  - pose proof (assign_groups_items _ _ _ _ _ _ E1 Hx) as Hi. unfold field_items in Hi. apply in_flat_map in Hi.
    destruct Hi as [f [Hfin Hi]]. rewrite Forall_forall in Hf. destruct (Hf f Hfin) as [Hpp Hch]. rewrite Hpp in Hi.
    destruct Hi as [Hi|[]]. injection Hi as Hp Hd. rewrite <- Hd. destruct (fv_child f) as [ch|]; [|exact Logic.I].
    split; [symmetry; exact Hp|]. destruct (path_len_bound ch Hch) as [H1 H2]. rewrite <- Hp in Hmax. lia.
  - pose proof (assign_groups_items _ _ _ _ _ _ E2 Hx) as Hi. unfold ghost_items in Hi.
    destruct (sv_ghosts s) as [ga|]; [|destruct Hi]. apply in_map_iff in Hi. destruct Hi as [y [Hy Hyin]].
    injection Hy as Hp Hd. rewrite <- Hd. rewrite Forall_forall in Hg. specialize (Hg y Hyin).
    destruct (gd_path y) as [gp|]; [|exact Logic.I]. split; [symmetry; exact Hp|].
    destruct (path_len_bound gp Hg) as [H1 H2]. rewrite <- Hp in Hmax. lia.
Qed.

(* the descent never runs out of fuel *)
Theorem struct_init_block_terminates s c : struct_wf s -> NO (struct_init_block s c).
Proof.
  intro Hw. unfold struct_init_block. destruct (_ || _); [apply NO_ok|]. cbv zeta.
  set (cs := sorted_containers s). set (L := max_path_len cs).
  apply NO_bind; [|intros [toks r]; apply NO_ok].
  destruct (descent_NO (Nat.max 1 L) s c (4 * (List.length cs + 2) * (L + 2))) as [Hi _].
  apply Hi; [exact (containers_cwf s Hw)|]. cbn [lv]. nia.
Qed.

(* non-vacuity: the interleaved witness of F-03a (three #[child] members over two nesting levels) is well-formed in this sense *)
From O2o.Lemmas Require Import Flatten.
Example struct_wf_example : struct_wf f03a_struct.
Proof.
  assert (P2 : path_wf [MNamed "vehicle"; MNamed "machine"]).
  { split; [discriminate|]. repeat constructor; cbn; discriminate. }
  assert (P1 : path_wf [MNamed "vehicle"]).
  { split; [discriminate|]. repeat constructor; cbn; discriminate. }
  unfold struct_wf. split; [|exact Logic.I]. unfold f03a_struct, f03a_field. cbn [sv_fields].
  apply Forall_cons; [split; [reflexivity | exact P2]|].
  apply Forall_cons; [split; [reflexivity | exact Logic.I]|].
  apply Forall_cons; [split; [reflexivity | exact P1]|].
  apply Forall_cons; [split; [reflexivity | exact P2]|].
  apply Forall_nil.
Qed.
