(* C03: flattened mappings - grouping of the flat members, child paths on read / write, bare parents. *)
From Coq Require Import List String Ascii Bool Arith Lia Sorting.Sorted Permutation.
From O2o.Model Require Import Tok Syn Attr Ast Lookup Expand.
From O2o.Gen Require Import Skeleton.
From O2o.Lemmas Require Import Designated.
Import ListNotations.
Open Scope list_scope.

(* ---- the stable sort by first-seen group: members of one group are contiguous, none lost, none added ---- *)
Definition by_groups (all : list container) (a n : nat) : list container :=
  flat_map (fun g => filter (fun c => Nat.eqb (fc_gr c) g) all) (seq a n).

Definition gr_le (x y : container) : Prop := fc_gr x <= fc_gr y.

Lemma by_groups_bounds : forall all a n x, In x (by_groups all a n) -> a <= fc_gr x < a + n.
Proof.
  intros all a n x H. unfold by_groups in H. apply in_flat_map in H. destruct H as [g [Hg Hx]].
  apply in_seq in Hg. apply filter_In in Hx. destruct Hx as [_ Hx]. apply Nat.eqb_eq in Hx. lia.
Qed.

Lemma StronglySorted_app {A} (R : A -> A -> Prop) l1 l2 :
  StronglySorted R l1 -> StronglySorted R l2 -> (forall x y, In x l1 -> In y l2 -> R x y) -> StronglySorted R (l1 ++ l2).
Proof.
  induction l1 as [|a l1 IH]; intros H1 H2 H; cbn [app]; [exact H2|].
  inversion H1 as [|? ? Hs Hf]; subst. constructor.
  - apply IH; [exact Hs | exact H2 | intros x y Hx Hy; apply H; [right; exact Hx | exact Hy]].
  - apply Forall_app. split; [exact Hf|]. apply Forall_forall. intros y Hy. apply H; [left; reflexivity | exact Hy].
Qed.

Lemma filter_same_group_sorted : forall all g, StronglySorted gr_le (filter (fun c => Nat.eqb (fc_gr c) g) all).
Proof.
  intros all g. induction all as [|x all IH]; cbn [filter]; [constructor|].
  destruct (Nat.eqb (fc_gr x) g) eqn:E; [|exact IH]. constructor; [exact IH|].
  apply Forall_forall. intros y Hy. apply filter_In in Hy. destruct Hy as [_ Hy].
  apply Nat.eqb_eq in E, Hy. unfold gr_le. lia.
Qed.

Lemma by_groups_sorted : forall all n a, StronglySorted gr_le (by_groups all a n).
Proof.
  intros all n. induction n as [|n IH]; intro a; [constructor|].
  unfold by_groups. cbn [seq flat_map]. apply StronglySorted_app.
  - apply filter_same_group_sorted.
  - apply IH.
  - intros x y Hx Hy. apply filter_In in Hx. destruct Hx as [_ Hx]. apply Nat.eqb_eq in Hx.
    apply (by_groups_bounds all (S a) n) in Hy. unfold gr_le. lia.
Qed.

Lemma sorted_before : forall l2 b l3 x, StronglySorted gr_le (l2 ++ b :: l3) -> In x l2 -> gr_le x b.
Proof.
  induction l2 as [|y l2 IH]; intros b l3 x Hs Hx; [destruct Hx|]. cbn [app] in Hs. inversion Hs as [|? ? Hs' Hf']; subst.
  destruct Hx as [<-|Hx].
  - rewrite Forall_forall in Hf'. apply Hf'. apply in_or_app. right. left. reflexivity.
  - eapply IH; eauto.
Qed.

(* members of one group (= one child path) sit next to each other after the sort *)
Theorem group_contiguous : forall all n l1 a l2 b l3,
    by_groups all 0 n = l1 ++ a :: l2 ++ b :: l3 -> fc_gr a = fc_gr b ->
    Forall (fun x => fc_gr x = fc_gr a) l2.
Proof.
  intros all n l1 a l2 b l3 H Hab.
  assert (S := by_groups_sorted all n 0). rewrite H in S.
  assert (S2 : StronglySorted gr_le (a :: l2 ++ b :: l3)).
  { clear H. induction l1 as [|x l1 IH]; [exact S|]. cbn [app] in S. inversion S as [|? ? S' _]; subst. apply IH. exact S'. }
  inversion S2 as [|? ? Hs Hf]; subst. apply Forall_forall. intros x Hx.
  assert (Ha : gr_le a x). { rewrite Forall_forall in Hf. apply Hf. apply in_or_app. left. exact Hx. }
  assert (Hb : gr_le x b) by (eapply sorted_before; eauto).
  unfold gr_le in *. lia.
Qed.

Lemma flat_map_ext_in' {A B} (f g : A -> list B) l : (forall x, In x l -> f x = g x) -> flat_map f l = flat_map g l.
Proof.
  induction l as [|x l IH]; intro H; cbn [flat_map]; [reflexivity|].
  rewrite (H x (or_introl eq_refl)), IH; [reflexivity|]. intros y Hy. apply H. right. exact Hy.
Qed.

Lemma filter_filter_neq : forall (all : list container) n g, g <> n ->
    filter (fun c => Nat.eqb (fc_gr c) g) (filter (fun c => negb (Nat.eqb (fc_gr c) n)) all) = filter (fun c => Nat.eqb (fc_gr c) g) all.
Proof.
  intros all n g Hne. induction all as [|x all IH]; [reflexivity|]. cbn [filter].
  destruct (Nat.eqb (fc_gr x) n) eqn:En; cbn [negb filter].
  - apply Nat.eqb_eq in En. assert (E : Nat.eqb (fc_gr x) g = false) by (apply Nat.eqb_neq; lia). rewrite E. exact IH.
  - destruct (Nat.eqb (fc_gr x) g); [f_equal|]; exact IH.
Qed.

(* the sort keeps every member whose group number is in range exactly once *)
Theorem by_groups_permutation : forall all n,
    Forall (fun c => fc_gr c < n) all -> Permutation (by_groups all 0 n) all.
Proof.
  intros all n. revert all. induction n as [|n IH]; intros all H.
  - destruct all as [|x all]; [constructor|]. inversion H; subst. lia.
  - (* peel the last group *)
    assert (E : by_groups all 0 (S n) = by_groups all 0 n ++ filter (fun c => Nat.eqb (fc_gr c) n) all).
    { unfold by_groups. rewrite seq_S, flat_map_app. cbn [flat_map]. rewrite app_nil_r. reflexivity. }
    rewrite E.
    assert (P : Permutation all (filter (fun c => negb (Nat.eqb (fc_gr c) n)) all ++ filter (fun c => Nat.eqb (fc_gr c) n) all)).
    { clear. induction all as [|x all IHa]; [constructor|]. cbn [filter]. destruct (Nat.eqb (fc_gr x) n); cbn [negb app].
      - eapply Permutation_trans; [apply perm_skip, IHa|]. apply Permutation_middle.
      - apply perm_skip, IHa. }
    eapply Permutation_trans; [|apply Permutation_sym, P]. apply Permutation_app_tail.
    assert (F : by_groups all 0 n = by_groups (filter (fun c => negb (Nat.eqb (fc_gr c) n)) all) 0 n).
    { unfold by_groups. apply flat_map_ext_in'. intros g Hg. apply in_seq in Hg. symmetry. apply filter_filter_neq. lia. }
    rewrite F. apply IH. apply Forall_forall. intros c Hc. apply filter_In in Hc. destruct Hc as [Hc Hn].
    rewrite Forall_forall in H. specialize (H c Hc). apply negb_true_iff, Nat.eqb_neq in Hn. lia.
Qed.

(* ---- a bare #[parent]: produced from the whole counterpart, poured in through into_existing ---- *)
Theorem bare_parent_from : forall f c hint idx n,
    fv_member f = MNamed n -> fv_attr f = None -> fv_has_parent f = true -> is_from (c_kind c) = true -> hint_eqb hint HTuple = false ->
    render_struct_line f c hint idx None = Ok ([TIdent n; P1 ":"] ++ parent_conv c ++ [comma]).
Proof.
  intros f c hint idx n Hm Ha Hp Hk Hh. unfold render_struct_line. rewrite Hm, Ha, Hp, Hk.
  destruct (c_kind c); cbn [is_from] in Hk; try discriminate Hk; destruct hint; cbn [hint_eqb] in Hh; try discriminate Hh;
    cbn [is_intoish is_into_existing hint_su hint_tu hint_eqb andb orb negb]; reflexivity.
Qed.

Lemma parent_conv_forms : forall c,
    parent_conv c =
    match is_ref (c_kind c), c_fallible c with
    | true, true => [TIdent "value"; dot; TIdent "try_into"; paren []; P1 "?"]
    | true, false => [TIdent "value"; dot; TIdent "into"; paren []]
    | false, true => [paren [P1 "&"; TIdent "value"]; dot; TIdent "try_into"; paren []; P1 "?"]
    | false, false => [paren [P1 "&"; TIdent "value"]; dot; TIdent "into"; paren []]
    end.
Proof. reflexivity. Qed.

Fixpoint stok_text (t : stok) : string :=
  match t with
  | SI s => s
  | SP c _ => String c EmptyString
  | SL s => s
  | SH h => ("#" ^^ h)%string
  | SG d l =>
      let inner := (fix go (l : list stok) : string := match l with [] => EmptyString | x :: r => (stok_text x ^^ go r)%string end) l in
      match d with
      | DParen => ("(" ^^ inner ^^ ")")%string | DBrace => ("{" ^^ inner ^^ "}")%string
      | DBracket => ("[" ^^ inner ^^ "]")%string | DNone => inner
      end
  end.
Definition stoks_text_flat (l : list stok) : string := fold_right (fun t acc => (stok_text t ^^ acc)%string) EmptyString l.

(* the (regenerated) render_parent templates: self.<member>.[try_]into_existing(<&mut obj | other>)[?]; *)
Definition render_parent_facts : bool :=
  forallb (fun e : string * bool * list stok =>
    let '(k, fallible, toks) := e in
    let txt := stoks_text_flat toks in
    String.eqb txt
      ((if str_in k ["RefInto"; "RefIntoExisting"] then "(&(self.#member))" else "self.#member") ^^ "." ^^
       (if fallible then "try_into_existing" else "into_existing") ^^
       (if str_in k ["OwnedInto"; "RefInto"] then "(&mutobj)" else "(other)") ^^ (if fallible then "?" else "") ^^ ";")%string)
    sk_render_parent && Nat.eqb (List.length sk_render_parent) 8.

Lemma render_parent_ok : render_parent_facts = true.
Proof. vm_compute. reflexivity. Qed.

(* struct_post_init: one render_parent statement per bare-parent field, in field order, nothing for From *)
Lemma post_init_parents : forall fs c s0,
    is_from (c_kind c) = false ->
    struct_post_init (VStruct {| sv_fields := fs; sv_named := sv_named s0; sv_unit := sv_unit s0; sv_ghosts := sv_ghosts s0;
                                 sv_child_parents := sv_child_parents s0 |}) c =
    (frags <- mapM (fun f => if fv_has_pl_parent f then render_parent f c else Ok []) fs ;;
     if forallb is_empty_list frags then Ok None else Ok (Some (List.concat frags))).
Proof. intros fs c s0 H. unfold struct_post_init. rewrite H. reflexivity. Qed.

(* ---- finding F-03a: with interleaved fields the intermediate struct is emitted twice ---- *)
Definition f03a_field (name : string) (idx : nat) (ch : option (list member)) : fview :=
  {| fv_member := MNamed name; fv_idx := idx; fv_str := name; fv_ty := None; fv_child := ch; fv_ghost := None;
     fv_has_parent := false; fv_has_pl_parent := false; fv_pparent := None; fv_attr := None |}.
Definition f03a_struct : sview :=
  {| sv_fields := [f03a_field "brand" 0 (Some [MNamed "vehicle"; MNamed "machine"]); f03a_field "n" 1 None;
                   f03a_field "seats" 2 (Some [MNamed "vehicle"]); f03a_field "year" 3 (Some [MNamed "vehicle"; MNamed "machine"])];
     sv_named := true; sv_unit := false; sv_ghosts := None;
     sv_child_parents := Some {| ca_ty := None;
        ca_data := [{| cd_ty := [TIdent "Vehicle"]; cd_hint := HUnspecified; cd_path := [MNamed "vehicle"]; cd_str := "vehicle" |};
                    {| cd_ty := [TIdent "Machine"]; cd_hint := HUnspecified; cd_path := [MNamed "vehicle"; MNamed "machine"]; cd_str := "vehicle.machine" |}] |} |}.
Definition f03a_ctx : ictx :=
  {| c_kind := OwnedInto; c_fallible := false;
     c_core := {| tc_ty := {| tp_path := [TIdent "Car"]; tp_str := "Car"; tp_generics := None; tp_nameless := false |}; tc_err := None; tc_hint := HUnspecified;
                  tc_init := None; tc_update := None; tc_qret := None; tc_default := None; tc_repeat := None; tc_skip := false; tc_stop := false;
                  tc_attr := None; tc_impl_attr := None; tc_inner_attr := None |};
     c_hint := HUnspecified; c_impl_type := ITStruct; c_dst := [TIdent "Car"]; c_src := [TIdent "S"]; c_post_init := false; c_named := true |}.

Definition top_level_count (name : string) (r : res (list tok)) : nat :=
  match r with
  | Ok [TGroup DBrace inner] => List.length (filter (fun t => match t with TIdent s => String.eqb s name | _ => false end) inner)
  | _ => 0
  end.

Lemma built_twice_when_interleaved : top_level_count "vehicle" (struct_init_block f03a_struct f03a_ctx) = 2.
Proof. vm_compute. reflexivity. Qed.

(* the same fields, grouped: built once *)
Definition f03a_struct_grouped : sview :=
  {| sv_fields := [f03a_field "brand" 0 (Some [MNamed "vehicle"; MNamed "machine"]); f03a_field "year" 1 (Some [MNamed "vehicle"; MNamed "machine"]);
                   f03a_field "seats" 2 (Some [MNamed "vehicle"]); f03a_field "n" 3 None];
     sv_named := true; sv_unit := false; sv_ghosts := None; sv_child_parents := sv_child_parents f03a_struct |}.
Lemma built_once_when_grouped : top_level_count "vehicle" (struct_init_block f03a_struct_grouped f03a_ctx) = 1.
Proof. vm_compute. reflexivity. Qed.

(* sorted_containers is this sort *)
Lemma sorted_is_by_groups : forall s, exists all n, sorted_containers s = by_groups all 0 n.
Proof.
  intro s. unfold sorted_containers. destruct (assign_groups (field_items s) [""%string] false) as [c1 g1].
  destruct (assign_groups (ghost_items s) g1 true) as [c2 g2]. exists (c1 ++ c2), (List.length g2). reflexivity.
Qed.
