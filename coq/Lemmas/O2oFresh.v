(* C11: when is the lifetime added for by-reference conversions fresh?  Exactly when no lifetime of the deriving type and
   no declarable lifetime of the counterpart path is itself called 'o2o (finding F-11g: otherwise it is declared twice). *)
From Coq Require Import List String Ascii Bool.
From O2o.Model Require Import Tok Syn Attr Ast Lookup Expand.
From O2o.Lemmas Require Import Generics.
Import ListNotations.
Open Scope string_scope.
Open Scope list_scope.

Lemma NoDup_snoc {A} (l : list A) (x : A) : NoDup (l ++ [x]) <-> NoDup l /\ ~ In x l.
Proof.
  split.
  - intro H. apply NoDup_remove in H. rewrite app_nil_r in H. exact H.
  - intros [Hl Hx]. induction l as [|y l IH]; cbn [app].
    + constructor; [intros []|constructor].
    + inversion Hl as [|? ? Hy Hl']; subst. constructor.
      * intro Hin. apply in_app_or in Hin. destruct Hin as [Hin|[<-|[]]]; [exact (Hy Hin)|]. apply Hx. left. reflexivity.
      * apply IH; [exact Hl'|]. intro Hin. apply Hx. right. exact Hin.
Qed.

Definition o2o_param (bound : list tok) : gparam :=
  {| gp_k := GPLt; gp_name := "o2o"; gp_punct := false; gp_decl := lifetime "o2o" ++ [P1 ":"] ++ bound |}.

Theorem o2o_fresh_iff : forall gens bound,
    NoDup (lt_names (push_param gens (o2o_param bound))) <-> NoDup (lt_names gens) /\ ~ In "o2o" (lt_names gens).
Proof.
  intros gens bound. rewrite (lt_names_push gens (o2o_param bound) eq_refl). cbn [o2o_param gp_name]. apply NoDup_snoc.
Qed.

(* the witness of F-11g: `struct S<'o2o>` *)
Example o2o_not_fresh_refuted :
  exists gens bound, NoDup (lt_names gens) /\ ~ NoDup (lt_names (push_param gens (o2o_param bound))).
Proof.
  exists [{| gp_k := GPLt; gp_name := "o2o"; gp_punct := false; gp_decl := lifetime "o2o" |}], (lifetime "o2o").
  split.
  - cbn. constructor; [intros []|constructor].
  - intro H. apply o2o_fresh_iff in H. destruct H as [_ H]. apply H. cbn. left. reflexivity.
Qed.
