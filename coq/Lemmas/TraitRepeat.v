(* C14, trait level: the HashMap-threaded repeat() templates of get_data_type_attrs equal a declarative written-out form. *)
From Coq Require Import List String Ascii Bool Arith.
From O2o.Model Require Import Tok Syn Attr Ast.
Import ListNotations.
Open Scope list_scope.

(* ---- the key (applicable_to, fallible) is compared by an equivalence ---- *)
Lemma appl_eqb_refl : forall a, appl_eqb a a = true.
Proof. induction a as [|x a IH]; cbn; [reflexivity|]. rewrite Bool.eqb_reflx. exact IH. Qed.
Lemma appl_eqb_eq : forall a b, appl_eqb a b = true -> a = b.
Proof.
  induction a as [|x a IH]; destruct b as [|y b]; cbn; intro H; try discriminate; [reflexivity|].
  apply andb_prop in H. destruct H as [H1 H2]. apply Bool.eqb_prop in H1. subst. f_equal. apply IH. exact H2.
Qed.
Lemma rkey_eqb_refl : forall k, rkey_eqb k k = true.
Proof. intros [a f]. unfold rkey_eqb. cbn. rewrite appl_eqb_refl, Bool.eqb_reflx. reflexivity. Qed.
Lemma rkey_eqb_eq : forall a b, rkey_eqb a b = true -> a = b.
Proof.
  intros [a f] [b g] H. unfold rkey_eqb in H. cbn in H. apply andb_prop in H. destruct H as [H1 H2].
  apply appl_eqb_eq in H1. apply Bool.eqb_prop in H2. subst. reflexivity.
Qed.
Lemma rkey_eqb_sym : forall a b, rkey_eqb a b = rkey_eqb b a.
Proof.
  intros a b. destruct (rkey_eqb a b) eqn:E.
  - apply rkey_eqb_eq in E. subst. symmetry. apply rkey_eqb_refl.
  - destruct (rkey_eqb b a) eqn:E2; [|reflexivity]. apply rkey_eqb_eq in E2. subst. rewrite rkey_eqb_refl in E. discriminate.
Qed.

Lemma rmap_get_remove : forall m k k', rmap_get (rmap_remove m k) k' = if rkey_eqb k' k then None else rmap_get m k'.
Proof.
  induction m as [|[k0 v] m IH]; intros k k'; cbn [rmap_remove rmap_get].
  - destruct (rkey_eqb k' k); reflexivity.
  - destruct (rkey_eqb k k0) eqn:E0.
    + rewrite IH. apply rkey_eqb_eq in E0. subst k0. destruct (rkey_eqb k' k); reflexivity.
    + cbn [rmap_get]. rewrite IH. destruct (rkey_eqb k' k0) eqn:E1; [|reflexivity].
      apply rkey_eqb_eq in E1. subst k0. destruct (rkey_eqb k' k) eqn:E2; [|reflexivity].
      apply rkey_eqb_eq in E2. subst. rewrite rkey_eqb_refl in E0. discriminate.
Qed.

Lemma rmap_get_insert : forall m k v k', rmap_get (rmap_insert m k v) k' = if rkey_eqb k' k then Some v else rmap_get m k'.
Proof. intros. unfold rmap_insert. cbn [rmap_get]. rewrite rmap_get_remove. destruct (rkey_eqb k' k); reflexivity. Qed.

(* ---- the threading restricted to trait instructions ---- *)
Definition key_of (a : trait_attr) : rkey := (ta_appl a, ta_fallible a).
Definition has_repeat (a : trait_attr) : bool := is_some (tc_repeat (ta_core a)).

Definition step (m : rmap) (ta : trait_attr) : res (rmap * trait_attr) :=
  let k := key_of ta in
  let m1 := if tc_stop (ta_core ta) then rmap_remove m k else m in
  let to_repeat := rmap_get m1 k in
  if has_repeat ta then
    if is_some to_repeat && negb (tc_stop (ta_core ta))
    then Err (MO2o "Previous repeat() instruction must be terminated with 'stop_repeat'")
    else Ok (rmap_insert m1 k ta, ta)
  else
    match to_repeat with
    | Some tr =>
        core <- merge_trait_core (ta_core ta) (ta_core tr) ;;
        Ok (m1, {| ta_core := core; ta_fallible := ta_fallible ta; ta_appl := ta_appl ta |})
    | None => Ok (m1, ta)
    end.

Fixpoint thread (m : rmap) (l : list trait_attr) : res (list trait_attr) :=
  match l with
  | [] => Ok []
  | a :: r => '(m', a') <- step m a ;; r' <- thread m' r ;; Ok (a' :: r')
  end.

Fixpoint dmaps (l : list dt_instr) : list trait_attr :=
  match l with [] => [] | DMap a :: r => a :: dmaps r | _ :: r => dmaps r end.

(* collect_dt_attrs threads exactly the trait instructions, in order; nothing else touches the templates *)
Theorem collect_threads : forall instrs m acc d,
    collect_dt_attrs instrs m acc = Ok d ->
    exists l, thread m (dmaps instrs) = Ok l /\ d_attrs d = d_attrs acc ++ l.
Proof.
  induction instrs as [|i rest IH]; intros m acc d H; cbn [collect_dt_attrs] in H.
  - injection H as <-. exists []. split; [reflexivity | rewrite app_nil_r; reflexivity].
  - destruct i; cbn [dmaps];
      try (destruct (IH _ _ _ H) as [l [Hl Hd]]; exists l; split; [exact Hl | exact Hd]).
    (* DMap *)
    cbn [thread]. unfold step. fold (key_of a). unfold has_repeat.
    match type of H with bind ?r _ = _ => destruct r as [[m2 ta']| | |] eqn:E; cbn [bind] in H; try discriminate H end.
    destruct (IH _ _ _ H) as [l [Hl Hd]]. cbn [d_attrs] in Hd.
    exists (ta' :: l). split; [|rewrite Hd, <- app_assoc; reflexivity].
    unfold key_of in *.
    destruct (is_some (tc_repeat (ta_core a))).
    + destruct (is_some (rmap_get (if tc_stop (ta_core a) then rmap_remove m (ta_appl a, ta_fallible a) else m) (ta_appl a, ta_fallible a))
                && negb (tc_stop (ta_core a))); [discriminate E|].
      injection E as <- <-. cbn [bind]. rewrite Hl. reflexivity.
    + destruct (rmap_get (if tc_stop (ta_core a) then rmap_remove m (ta_appl a, ta_fallible a) else m) (ta_appl a, ta_fallible a)) as [tr|].
      * destruct (merge_trait_core (ta_core a) (ta_core tr)) as [core| | |]; cbn [bind] in E |- *; try discriminate E.
        injection E as <- <-. rewrite Hl. reflexivity.
      * injection E as <- <-. cbn [bind]. rewrite Hl. reflexivity.
Qed.

(* ---- declaratively: the template open for key k after a prefix (given in reverse) ---- *)
Fixpoint open_template (k : rkey) (rev_prefix : list trait_attr) : option trait_attr :=
  match rev_prefix with
  | [] => None
  | a :: r =>
      if rkey_eqb k (key_of a) then
        if has_repeat a then Some a
        else if tc_stop (ta_core a) then None
        else open_template k r
      else open_template k r
  end.

(* an instruction becomes: itself when it opens a template; otherwise itself with the parameters of
   the open template of ITS OWN key merged in (merge copies the selected ones unless skip_repeat) *)
Definition written_out (rev_prefix : list trait_attr) (a : trait_attr) : res trait_attr :=
  if has_repeat a then Ok a else
  match (if tc_stop (ta_core a) then None else open_template (key_of a) rev_prefix) with
  | Some tr => core <- merge_trait_core (ta_core a) (ta_core tr) ;;
               Ok {| ta_core := core; ta_fallible := ta_fallible a; ta_appl := ta_appl a |}
  | None => Ok a
  end.

Definition inv (m : rmap) (rev_prefix : list trait_attr) : Prop := forall k, rmap_get m k = open_template k rev_prefix.

Lemma step_spec : forall m pre a m' a',
    inv m pre -> step m a = Ok (m', a') -> written_out pre a = Ok a' /\ inv m' (a :: pre).
Proof.
  intros m pre a m' a' Hinv H. unfold step in H. unfold written_out.
  assert (Hget : rmap_get (if tc_stop (ta_core a) then rmap_remove m (key_of a) else m) (key_of a)
                 = if tc_stop (ta_core a) then None else open_template (key_of a) pre).
  { destruct (tc_stop (ta_core a)); [rewrite rmap_get_remove, rkey_eqb_refl; reflexivity | apply Hinv]. }
  rewrite Hget in H.
  assert (Hinv1 : forall k, rmap_get (if tc_stop (ta_core a) then rmap_remove m (key_of a) else m) k
                            = if rkey_eqb k (key_of a) then (if tc_stop (ta_core a) then None else open_template k pre) else open_template k pre).
  { intro k. destruct (tc_stop (ta_core a)).
    - rewrite rmap_get_remove. destruct (rkey_eqb k (key_of a)); [reflexivity | apply Hinv].
    - rewrite Hinv. destruct (rkey_eqb k (key_of a)); reflexivity. }
  destruct (has_repeat a) eqn:Hr.
  - destruct (is_some (if tc_stop (ta_core a) then None else open_template (key_of a) pre) && negb (tc_stop (ta_core a))); [discriminate H|].
    injection H as <- <-. split; [reflexivity|]. intro k. rewrite rmap_get_insert. cbn [open_template]. rewrite Hr.
    destruct (rkey_eqb k (key_of a)) eqn:E0; [reflexivity|]. rewrite Hinv1, E0. reflexivity.
  - destruct (if tc_stop (ta_core a) then None else open_template (key_of a) pre) as [tr|] eqn:Et.
    + destruct (merge_trait_core (ta_core a) (ta_core tr)) as [core| | |]; cbn [bind] in H |- *; try discriminate H.
      injection H as <- <-. split; [reflexivity|]. intro k. rewrite Hinv1. cbn [open_template]. rewrite Hr.
      destruct (rkey_eqb k (key_of a)) eqn:E; [|reflexivity].
      destruct (tc_stop (ta_core a)); [reflexivity|]. reflexivity.
    + injection H as <- <-. split; [reflexivity|]. intro k. rewrite Hinv1. cbn [open_template]. rewrite Hr.
      destruct (rkey_eqb k (key_of a)) eqn:E; [|reflexivity].
      destruct (tc_stop (ta_core a)); reflexivity.
Qed.

Fixpoint unroll (rev_prefix : list trait_attr) (l : list trait_attr) : res (list trait_attr) :=
  match l with
  | [] => Ok []
  | a :: r => a' <- written_out rev_prefix a ;; r' <- unroll (a :: rev_prefix) r ;; Ok (a' :: r')
  end.

(* whenever the threading succeeds it yields the written-out form *)
Theorem thread_is_unroll : forall l m pre l', inv m pre -> thread m l = Ok l' -> unroll pre l = Ok l'.
Proof.
  induction l as [|a r IH]; intros m pre l' Hinv H; cbn [thread unroll] in *; [exact H|].
  destruct (step m a) as [[m' a']| | |] eqn:E; cbn [bind] in H; try discriminate.
  destruct (step_spec m pre a m' a' Hinv E) as [Hw Hinv']. rewrite Hw. cbn [bind].
  destruct (thread m' r) as [r'| | |] eqn:Er; cbn [bind] in H; try discriminate. injection H as <-.
  rewrite (IH m' (a :: pre) r' Hinv' Er). reflexivity.
Qed.

Lemma inv_empty : inv [] [].
Proof. intro k. reflexivity. Qed.

(* the key is the instruction name: (applicable_to, fallible) is injective on the 24 names (TablesFacts.key_injective) *)

(* copying: with skip_repeat nothing is copied; otherwise exactly the selected parameters, and a
   selected parameter the instruction sets itself is the documented conflict *)
Lemma merge_skip_trait : forall a t, tc_skip a = true -> merge_trait_core a t = Ok a.
Proof. intros a t H. unfold merge_trait_core. rewrite H. reflexivity. Qed.

Lemma merge_copies_selected : forall a t fl r,
    tc_skip a = false -> tc_repeat t = Some fl -> merge_trait_core a t = Ok r ->
    tc_init r = (if rflag fl 0 then tc_init t else tc_init a) /\
    tc_update r = (if rflag fl 1 then tc_update t else tc_update a) /\
    tc_qret r = (if rflag fl 2 then tc_qret t else tc_qret a) /\
    tc_default r = (if rflag fl 3 then tc_default t else tc_default a) /\
    tc_ty r = tc_ty a /\ tc_err r = tc_err a /\ tc_hint r = tc_hint a /\
    tc_attr r = tc_attr a /\ tc_impl_attr r = tc_impl_attr a /\ tc_inner_attr r = tc_inner_attr a.
Proof.
  intros a t fl r Hs Hr H. unfold merge_trait_core in H. rewrite Hs, Hr in H.
  destruct (rflag fl 0); destruct (rflag fl 1); destruct (rflag fl 2); destruct (rflag fl 3);
    repeat match type of H with
           | context [match ?o with Some _ => Err _ | None => _ end] => destruct o; cbn [bind] in H; try discriminate H
           end; cbn [bind] in H; injection H as <-; cbn; auto 12.
Qed.
