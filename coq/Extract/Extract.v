(* Extraction directives, nothing else. *)
From Coq Require Extraction.
From Coq Require Import ExtrOcamlBasic ExtrOcamlNativeString.
From O2o.Model Require Import Tok Syn Attr Ast Lookup Validate Expand Derive.
Extraction Language OCaml.
Extraction "model.ml" derive1 derive2 toks_to_string.
