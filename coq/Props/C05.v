(* C05 The most specific applicable member instruction wins; others never interfere. *)
From Coq Require Import List String Bool.
From O2o.Model Require Import Tok Syn Attr Ast Lookup Expand.
From O2o.Lemmas Require Import Chain.
Import ListNotations.

(* the instruction that takes effect is the first hit along the declared levels: exactly that kind,
   else (fallible) the infallible instruction of that kind, else (into_existing) the corresponding
   into instruction; and a #[ghost] applicable to the conversion beats them all *)
Theorem C05_chain : forall m k f ty,
    applicable_attr m k f ty =
    match m_ghost_for m ty k with
    | Some g => Some (AGhost g)
    | None => option_map AField (first_some (fun kf => field_attr_core m (fst kf) (snd kf) ty) (levels k f))
    end.
Proof. exact ghost_first. Qed.
Print Assumptions C05_chain.

(* at each level the instruction dedicated to the counterpart beats the default one *)
Theorem C05_dedicated : forall {A} (ty_of : A -> option type_path) ok l ty,
    (forall x, find (fun x => ok x && ty_is (ty_of x) ty) l = Some x -> find_for ty_of ok l ty = Some x) /\
    (find (fun x => ok x && ty_is (ty_of x) ty) l = None ->
     find_for ty_of ok l ty = find (fun x => ok x && ty_none (ty_of x)) l).
Proof. exact @dedicated_first. Qed.
Print Assumptions C05_dedicated.

(* instructions not applicable to a conversion never change what it resolves to, nor anything else
   rendering reads of the member (for any position of the instruction, any other instructions) *)
Theorem C05_noninterference : forall fld l1 a l2 k f ty,
    applicable_somewhere a k f ty = false ->
    view_field k f ty {| f_attrs := with_attrs (f_attrs fld) (l1 ++ a :: l2); f_idx := f_idx fld; f_member := f_member fld;
                         f_member_str := f_member_str fld; f_ty := f_ty fld |}
    = view_field k f ty {| f_attrs := with_attrs (f_attrs fld) (l1 ++ l2); f_idx := f_idx fld; f_member := f_member fld;
                           f_member_str := f_member_str fld; f_ty := f_ty fld |}.
Proof. exact view_field_not_applicable. Qed.
Print Assumptions C05_noninterference.

(* an instruction behind an earlier one that satisfies the same test is shadowed in that lookup *)
Theorem C05_shadowed : forall {A} (ty_of : A -> option type_path) ok l1 a l2 ty,
    existsb (fun x => ok x && ty_is (ty_of x) ty) l1 = true ->
    find_for ty_of ok (l1 ++ a :: l2) ty = find_for ty_of ok (l1 ++ l2) ty.
Proof. exact @shadowed_in_lookup. Qed.
Print Assumptions C05_shadowed.

(* the copies of the chain (expansion / validation) select the same instruction for infallible conversions *)
Theorem C05_agree_partial : forall m k ty,
    field_chain m k false ty = option_map ma_core (applicable_field_attr m k false ty).
Proof. exact chains_agree_infallible. Qed.
Print Assumptions C05_agree_partial.

(* ... and do not for fallible ones: validation never consults fallible member instructions (finding F-05a) *)
Theorem C05_agree_refuted :
  exists m k ty, field_chain m k true ty <> option_map ma_core (applicable_field_attr m k false ty).
Proof. exact chains_disagree_fallible. Qed.
Print Assumptions C05_agree_refuted.

(* ... and therefore never changes that conversion's generated impl: token-identical output, for any
   struct, any field, any position among the field's instructions *)
Theorem C05_impl_unchanged : forall s pre fld post l1 a l2 c,
    applicable_somewhere a (c_kind c) (c_fallible c) (c_ty c) = false ->
    expand_impl (DStruct (set_fields s (pre ++ set_field_attrs fld (l1 ++ a :: l2) :: post))) c
    = expand_impl (DStruct (set_fields s (pre ++ set_field_attrs fld (l1 ++ l2) :: post))) c.
Proof. exact impl_unchanged_by_inapplicable. Qed.
Print Assumptions C05_impl_unchanged.
