(* C06 Impls for one counterpart type are independent of the other counterparts. *)
From Coq Require Import List String Bool.
From O2o.Model Require Import Tok Syn Attr Ast Lookup Expand.
From O2o.Lemmas Require Import Project.
Import ListNotations.

(* `project ty d` removes the trait instructions for other counterparts and every instruction
   dedicated to them (member mappings, ghost, ghosts, child, child_parents, parent, where_clause,
   literal, pattern, type_hint), on structs and enums, fields, variants and variant fields.
   Everything an impl for `ty` reads of the input is unchanged by that ... *)
Theorem C06_view : forall k f ty d, view_type k f ty (project ty d) = view_type k f ty d.
Proof. exact view_type_project. Qed.
Print Assumptions C06_view.

(* ... so each impl for `ty` is generated identically from the joint input and from its projection ... *)
Theorem C06_impl : forall ty d c,
    tp_eqb (c_ty c) ty = true -> expand_impl (project ty d) c = expand_impl d c.
Proof. exact expand_impl_project. Qed.
Print Assumptions C06_impl.

(* ... and the projection's output is exactly the joint input's impls for that counterpart, in order *)
Theorem C06_impls : forall ty d,
    data_type_impl (project ty d) =
    (impls <- mapM (expand_impl d) (filter (for_ty ty) (impl_contexts d)) ;; Ok (List.concat impls)).
Proof. exact project_impls. Qed.
Print Assumptions C06_impls.
