(* C16 Expansion never panics (partial: site inventory + guarded-site lemmas; known reachable sites are findings - see DESIGN.md). *)
From Coq Require Import List String Ascii Bool.
From O2o.Model Require Import Tok Syn Attr Ast Lookup Validate Expand Derive.
From O2o.Gen Require Import Sites.
From O2o.Lemmas Require Import Sites NoPanic PanicFree PanicReach.
Import ListNotations.

(* every panic!/unreachable!/todo!/unwrap()/expect()/index site of the (regenerated) source inventory is
   classified, and the classification has no stale row: a site added to the source breaks this *)
Theorem C16_sites_covered : sites_covered = true /\ table_fresh = true.
Proof. exact (conj sites_covered_ok table_fresh_ok). Qed.
Print Assumptions C16_sites_covered.

(* guarded sites, for every input: *)
(* unreachable!("13") / ("14"): the error-instruction lists only hold the three matched classes *)
Theorem C16_error_instrs : forall be attrs d bark is_enum,
    get_data_type_attrs be attrs = Ok (d, bark) -> exists l, validate_error_instrs is_enum d = Ok l.
Proof. exact error_instrs_never_panic. Qed.
Print Assumptions C16_error_instrs.

Theorem C16_member_error_instrs : forall be ty attrs bark m is_enum,
    get_member_attrs be ty attrs bark = Ok m -> exists l, validate_member_error_instrs is_enum m = Ok l.
Proof. exact member_error_instrs_never_panic. Qed.
Print Assumptions C16_member_error_instrs.

(* unreachable!("5"): a template exists for every non-From kind *)
Theorem C16_render_parent : forall f c, is_from (c_kind c) = false -> exists ts, render_parent f c = Ok ts.
Proof. exact render_parent_total. Qed.
Print Assumptions C16_render_parent.

(* unreachable!("4"): the destructuring form is always Struct, Tuple or Unit *)
Theorem C16_destruct_form : forall s c, variant_destruct_block s c <> Panic "4".
Proof. exact destruct_form_total. Qed.
Print Assumptions C16_destruct_form.

(* err_ty.unwrap() in the three try_ skeletons: validation accepted => every fallible impl context has an error type *)
Theorem C16_err_ty : forall order_tp d c,
    validate_msgs order_tp d = Ok [] -> In c (impl_contexts d) -> c_fallible c = true -> exists e, err_env c = Ok e.
Proof. exact fallible_has_error_type. Qed.
Print Assumptions C16_err_ty.

(* todo!() in struct_post_init: a #[parent] on a variant is rejected by validation *)
Theorem C16_variant_parent : forall order_tp e v p,
    In v (e_variants e) -> In p (m_parent (v_attrs v)) ->
    forall msgs, validate_msgs order_tp (DEnum e) = Ok msgs -> msgs <> [].
Proof. exact variant_parent_rejected. Qed.
Print Assumptions C16_variant_parent.

(* the whole pipeline, for every input, back end and option: whatever panic the model can raise is raised at one of the
   30 named sites below (closed world: no other Panic constructor is reachable from derive_model) ... *)
Theorem C16_model_sites : forall be order order_tp x s,
    derive_model be order order_tp x = OPanic s -> In s all_sites.
Proof. exact model_panics_at_listed_sites. Qed.
Print Assumptions C16_model_sites.

(* ... and each of those names is the model name of a row of the source inventory (classified guarded, local or known-reachable),
   so a model panic always points at an inventoried panic!/unreachable!/todo!/unwrap/index site of /repo *)
Theorem C16_model_sites_inventoried :
  forallb (fun s => existsb (fun e => let '(_, _, _, _, _, _, site, _) := e in String.eqb s site) site_table) all_sites = true.
Proof. vm_compute. reflexivity. Qed.
Print Assumptions C16_model_sites_inventoried.

(* ---- the guards, proved for every input ----
   Of the 30 sites, the model can panic only at those the inventory classifies as known-reachable - each a recorded finding
   (F-16c..m, matched by site).  All the others are unreachable for every input, back end and hash order: dead by the control flow
   that surrounds them (4, 5, 7, 9, the ghost-action unwrap: the loops skip exactly the members whose rendering would reach them),
   by an invariant of the descent (every child-path / sub-path index is in range; a ghost entry becomes a container only when its
   path opens a new group, so its child path exists; child paths are non-empty because the grammar parses them with
   parse_separated_nonempty), or because validation accepted the input (13 / 14: the error lists hold error instructions only;
   err_ty.unwrap(): a fallible instruction has an error type; todo!() in struct_post_init: #[parent] on a variant is rejected).
   Trying to prove the last validation-guarded site unreachable produced finding F-16m instead. *)
Theorem C16_only_at_findings : forall be order order_tp x s,
    (forall l, Permutation.Permutation (order l) l) ->
    derive_model be order order_tp x = OPanic s -> In s known_reachable.
Proof. exact model_panics_only_at_findings. Qed.
Print Assumptions C16_only_at_findings.

Theorem C16_known_reachable_list : forall s, In s known_reachable <->
    In s ["1"; "2"; "6"; "8"; "10"; "11"; "12"; "15"; "16"; "17"; "18"; "19"; "todo"; "child_parents-unwrap"; "child_data-unwrap"; "field-ty-unwrap"; "sub_path-type-unwrap"]%string.
Proof. intro s. symmetry. exact (reach_sites_are_known s). Qed.
Print Assumptions C16_known_reachable_list.

(* the descent terminates (Lemmas/Terminate.v): for a struct without parameterised #[parent] members whose child paths are non-empty
   lists of non-empty names, struct_init_block never runs out of fuel - every callee of the member loop consumes at least the
   member it was called for (so the loop's own fuel, one unit per member, suffices), each nesting level costs three units of the outer
   fuel, and the number of levels is bounded by the length of the longest path string.  The model's `Oom "fuel"` outcome - the
   image of a `while let Some(..) = members.peek()` loop that does not advance - does not occur on these inputs *)
From O2o.Lemmas Require Import Terminate.

Theorem C16_descent_terminates : forall s c, struct_wf s -> forall w, struct_init_block s c <> Oom w.
Proof. exact struct_init_block_terminates. Qed.
Print Assumptions C16_descent_terminates.

Theorem C16_descent_terminates_example : struct_wf Flatten.f03a_struct.
Proof. exact struct_wf_example. Qed.
Print Assumptions C16_descent_terminates_example.
