(* C20 Generated code works in #![no_std]: only core, o2o::traits and user names (partial: the templates; see DESIGN.md). *)
From Coq Require Import List String Ascii Bool.
From O2o.Model Require Import Tok Syn Attr Ast Lookup Expand.
From O2o.Gen Require Import Skeleton.
From O2o.Lemmas Require Import NoStd Contexts.
Import ListNotations.

(* all 18 regenerated quote! templates (the six trait skeletons, the four into() body forms, the
   eight render_parent forms): every identifier they write is on the allow-list, every `::`-path is
   ::core::convert / ::core::result / o2o::traits, none mentions std or alloc *)
Theorem C20_templates : templates_no_std = true.
Proof. exact templates_ok. Qed.
Print Assumptions C20_templates.

(* every generated item is an instance of one of those skeletons (holes filled with rendered fragments) *)
Theorem C20_items_from_templates : forall t c ts,
    quote_trait t c = Ok ts -> exists e, ts = inst e (skeleton_of (c_kind c) (c_fallible c)).
Proof. exact quote_trait_skeleton. Qed.
Print Assumptions C20_items_from_templates.

(* the conversion call emitted for a bare #[parent] uses only value / into / try_into *)
Theorem C20_parent_conv : forall c, forallb (fun i => str_in i allow_idents) (toks_idents (parent_conv c)) = true.
Proof. exact parent_conv_idents. Qed.
Print Assumptions C20_parent_conv.

(* ---- closed world: the provenance of every identifier of the generated code, for every input ----
   `data_ok d` says that every identifier carried by the parsed input d (type name, generic parameters, field / variant names,
   member names and the tokens of types, expressions, literals, patterns, where-predicates, attribute payloads) satisfies Pr.
   Then every identifier of every generated impl satisfies Pr, provided Pr holds of the 35 identifiers the renderer and the
   regenerated templates write themselves (expand_literals: keywords, core / convert / result / o2o / traits, the trait and
   method names, value / other / obj / self / Ok / Default / default / Error) and of the payload bindings f0, f1, ... *)
From O2o.Lemmas Require Import IdentBase IdentProv IdentExample.

Theorem C20_provenance : forall (Pr : string -> Prop) (H1 : forall i, In i expand_literals -> Pr i) (H2 : forall n, Pr (f_ident n)) d ts,
    @data_ok (Build_Prov Pr H1 H2) d -> data_type_impl d = Ok ts -> forall i, In i (toks_idents ts) -> Pr i.
Proof. intros Pr H1 H2 d ts Hd E. exact (@data_type_impl_idents (Build_Prov Pr H1 H2) d ts Hd E). Qed.
Print Assumptions C20_provenance.

(* the instance the property names: an input that mentions neither `std` nor `alloc` expands to code that mentions neither *)
Theorem C20_no_std_alloc : forall d ts,
    @data_ok no_std_prov d -> data_type_impl d = Ok ts -> ~ In "std"%string (toks_idents ts) /\ ~ In "alloc"%string (toks_idents ts).
Proof. exact no_std_alloc. Qed.
Print Assumptions C20_no_std_alloc.

(* the hypotheses are satisfiable: a concrete struct with a renamed field, an expression and a ghost satisfies data_ok, expands, and its output is covered *)
Theorem C20_example : exists d ts, @data_ok no_std_prov d /\ data_type_impl d = Ok ts /\ ts <> [].
Proof. exact provenance_example. Qed.
Print Assumptions C20_example.
