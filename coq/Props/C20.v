(* C20 Generated code works in #![no_std]: only core, o2o::traits and user names (partial: the templates; see DESIGN.md). *)
From Coq Require Import List String Ascii Bool.
From O2o.Model Require Import Tok Syn Attr Ast Lookup Expand.
From O2o.Gen Require Import Skeleton.
From O2o.Lemmas Require Import NoStd Contexts.
Import ListNotations.

(* all 18 regenerated quote! templates (the six trait skeletons, the four into() body forms, the
   eight render_parent forms): every identifier they write is on the allow-list, every `::`-path is
   ::core::convert / ::core::result / o2o::traits, none mentions std or alloc *)
Theorem C20_templates : templates_no_std = true.
Proof. exact templates_ok. Qed.
Print Assumptions C20_templates.

(* every generated item is an instance of one of those skeletons (holes filled with rendered fragments) *)
Theorem C20_items_from_templates : forall t c ts,
    quote_trait t c = Ok ts -> exists e, ts = inst e (skeleton_of (c_kind c) (c_fallible c)).
Proof. exact quote_trait_skeleton. Qed.
Print Assumptions C20_items_from_templates.

(* the conversion call emitted for a bare #[parent] uses only value / into / try_into *)
Theorem C20_parent_conv : forall c, forallb (fun i => str_in i allow_idents) (toks_idents (parent_conv c)) = true.
Proof. exact parent_conv_idents. Qed.
Print Assumptions C20_parent_conv.
