(* C19 Expansion is a deterministic function of the input. *)
From Coq Require Import List String Permutation.
From O2o.Model Require Import Tok Syn Attr Ast Validate Derive.
From O2o.Gen Require Import Unordered.
From O2o.Lemmas Require Import SortPerm UnorderedUses.

(* whatever order the message map and the two sets of counterpart types are iterated in
   (any permutation: the hash seed), the model's outcome is the same *)
Theorem C19_order_independent :
  forall (o1 o2 : list string -> list string) (t1 t2 : list type_path -> list type_path),
    (forall l, Permutation (o1 l) l) -> (forall l, Permutation (o2 l) l) ->
    (forall l, Permutation (t1 l) l) -> (forall l, Permutation (t2 l) l) ->
    forall be x, derive_model be o1 t1 x = derive_model be o2 t2 x.
Proof. exact derive_deterministic. Qed.
Print Assumptions C19_order_independent.

(* every other use of a HashMap / HashSet in the (regenerated) source inventory is lookup-only *)
Theorem C19_uses : forallb use_ok unordered_uses = true.
Proof. exact all_uses_ok. Qed.
Print Assumptions C19_uses.

Theorem C19_anchors_seen :
  existsb (fun c => String.eqb (snd (fst c)) "errors") unordered_containers = true /\
  existsb (fun c => String.eqb (snd (fst c)) "group_paths") unordered_containers = true /\
  existsb (fun c => String.eqb (snd (fst c)) "trait_attrs_to_repeat") unordered_containers = true /\
  existsb (fun u => let '(_, _, _, m, s) := u in String.eqb m "iter" && s)%bool unordered_uses = true.
Proof. exact anchors_seen. Qed.
Print Assumptions C19_anchors_seen.
