(* C04 Each trait instruction yields exactly the documented set of trait impls. *)
From Coq Require Import List String Bool Permutation.
From O2o.Model Require Import Tok Syn Attr Ast Lookup Expand.
From O2o.Gen Require Import Tables Readme Skeleton.
From O2o.Lemmas Require Import TablesFacts Contexts.
Import ListNotations.

(* (i) tables: every documented instruction name means, in the (regenerated) match arms and appl_*
   functions of the code, exactly the kinds and fallibility the (regenerated) README tables give it,
   and the code knows no other trait instruction: 24 names on each side. *)
Theorem C04_tables :
  forallb (fun e => same_doc (dt_code_kinds (fst e)) (snd e)) documented = true /\
  forallb (fun n => str_in n (map fst documented)) dt_map_names = true /\
  forallb (fun n => str_in n dt_map_names) (map fst documented) = true /\
  List.length dt_map_names = 24 /\ List.length documented = 24.
Proof. exact (conj dt_tables_match dt_names_documented). Qed.
Print Assumptions C04_tables.

(* the README's 12-kind listing names each basic instruction once and with the code's spelling *)
Theorem C04_listing :
  forallb (fun e => match listing_kind e with
                    | Some (k, f) => String.eqb (fst (fst (fst e))) (basic_name k f) || str_in (fst (fst (fst e))) readme_listing_typos
                    | None => false end) readme_listing = true /\
  forallb (fun kf => Nat.eqb 1 (List.length (filter (fun e => match listing_kind e with
                                                              | Some (k, f) => kind_eqb k (fst kf) && Bool.eqb f (snd kf)
                                                              | None => false end) readme_listing)))
          (list_prod all_kinds [false; true]) = true.
Proof. exact listing_names. Qed.
Print Assumptions C04_listing.

(* (ii) one impl context per (kind, fallibility, instruction) requested - none missing, none extra -
   for any list of trait instructions, any counterpart and error type forms *)
Theorem C04_contexts : forall d, Permutation (map ctx_key (impl_contexts d)) (requested d).
Proof. exact contexts_exact. Qed.
Print Assumptions C04_contexts.

(* (iii) the requested set does not depend on the order in which the instructions are written *)
Theorem C04_order : forall l l', Permutation l l' -> Permutation (requested_of l) (requested_of l').
Proof. exact requested_order. Qed.
Print Assumptions C04_order.

(* the output is the concatenation of one item per context *)
Theorem C04_count : forall d ts,
    data_type_impl d = Ok ts ->
    exists impls, ts = List.concat impls /\ List.length impls = List.length (requested d).
Proof. exact impl_count. Qed.
Print Assumptions C04_count.

(* (iv) each item is an instance of the (regenerated) quote! skeleton of its (kind, fallibility) ... *)
Theorem C04_skeleton : forall t c ts,
    quote_trait t c = Ok ts -> exists e, ts = inst e (skeleton_of (c_kind c) (c_fallible c)).
Proof. exact quote_trait_skeleton. Qed.
Print Assumptions C04_skeleton.

(* ... and the six skeletons spell the documented trait path, method name, and `type Error = <declared error type>` *)
Theorem C04_skeleton_traits :
  map (fun kf => (stoks_text (path_after_impl_gens (skeleton_of (fst kf) (snd kf))),
                  fn_name (skeleton_of (fst kf) (snd kf)),
                  has_type_error (skeleton_of (fst kf) (snd kf))))
      [(FromOwned, false); (FromOwned, true); (OwnedInto, false); (OwnedInto, true); (OwnedIntoExisting, false); (OwnedIntoExisting, true)]
  = [("::core::convert::From", "from", false); ("::core::convert::TryFrom", "try_from", true);
     ("::core::convert::Into", "into", false); ("::core::convert::TryInto", "try_into", true);
     ("o2o::traits::IntoExisting", "into_existing", false); ("o2o::traits::TryIntoExisting", "try_into_existing", true)]%string.
Proof. exact skeleton_traits. Qed.
Print Assumptions C04_skeleton_traits.

(* lifted to the generated code (Lemmas/OrderLift.v): writing the trait instructions in another order only permutes the generated
   impls - the same impls, token for token, none missing, none extra *)
From O2o.Lemmas Require Import ShortcutLift OrderLift.

Theorem C04_order_whole_impl : forall d l' impls,
    Permutation (d_attrs (dt_get_attrs d)) l' ->
    mapM (expand_impl d) (impl_contexts d) = Ok impls ->
    exists impls', mapM (expand_impl (set_trait_attrs d l')) (impl_contexts (set_trait_attrs d l')) = Ok impls' /\ Permutation impls impls'.
Proof. exact reordered_instructions_permute_the_impls. Qed.
Print Assumptions C04_order_whole_impl.

(* the counterpart in the header is the path the instruction names: leading `::`, every segment, then the arguments of the last
   segment (`#dst #those_gens`), for every path (Lemmas/Counterpart.v) *)
From O2o.Lemmas Require Import Generics Counterpart.

Theorem C04_counterpart_prints_back : forall p, tp_written (type_path_of_path p) = print_path p.
Proof. exact type_path_prints_back. Qed.
Print Assumptions C04_counterpart_prints_back.

Theorem C04_header_names_the_counterpart : forall d c,
    In c (impl_contexts d) ->
    (if is_from (c_kind c) then c_src c else c_dst c) = tp_path (c_ty c) /\
    (if is_from (c_kind c) then c_dst c else c_src c) = [TIdent (dt_ident d)].
Proof. exact header_names_the_counterpart. Qed.
Print Assumptions C04_header_names_the_counterpart.

Theorem C04_header_counterpart_env : forall t c,
    env_get (trait_env t c) "dst" = c_dst c /\ env_get (trait_env t c) "src" = c_src c /\
    env_get (trait_env t c) "those_gens" = angle_toks (tp_generics (c_ty c)).
Proof. exact header_counterpart_env. Qed.
Print Assumptions C04_header_counterpart_env.

Theorem C04_error_type_prints_back : forall c e en,
    tc_err (c_core c) = Some e -> err_env c = Ok en ->
    env_get en "err_ty" ++ env_get en "err_gens" = tp_written e.
Proof. exact error_type_prints_back. Qed.
Print Assumptions C04_error_type_prints_back.
