(* C18 The syn 1 and syn 2 back-ends behave identically (the cfg-split code; everything else is one source: see DESIGN.md). *)
From Coq Require Import List String Ascii Bool.
From O2o.Model Require Import Tok Syn Attr Ast.
From O2o.Gen Require Import SynIdents.
From O2o.Lemmas Require Import Backends.
Import ListNotations.

Theorem C18_extract : forall a, attr_shape a -> same_verdict (bare_attr_tokens S1 a) (bare_attr_tokens S2 a).
Proof. exact extraction_agrees. Qed.
Print Assumptions C18_extract.

Theorem C18_extract_accepts : forall be a inner,
    bare_attr_tokens be a = Ok inner -> attr_shape a -> (ra_toks a = [] /\ inner = []) \/ ra_toks a = [TGroup DParen inner].
Proof. exact extraction_accepts. Qed.
Print Assumptions C18_extract_accepts.

Theorem C18_idents : forall s, is_plain_ident S1 s <> is_plain_ident S2 s -> str_in s keywords_s2_only = true.
Proof. exact ident_classes_differ_only_on. Qed.
Print Assumptions C18_idents.

(* the two identifier classes of the model are exactly the accept_as_ident functions of the two syn versions /repo/Cargo.lock
   pins; the lists are regenerated from the vendored syn sources on every run *)
Theorem C18_ident_classes_are_syn_s : forall s,
    is_plain_ident S1 s = negb (str_in s syn1_refused_idents) /\ is_plain_ident S2 s = negb (str_in s syn2_refused_idents).
Proof. exact ident_classes_are_syn_s. Qed.
Print Assumptions C18_ident_classes_are_syn_s.
