(* C11 Generics, lifetimes and where-clauses are carried so the impl type-checks (partial: the header logic; rustc's type checker is not modelled). *)
From Coq Require Import List String Ascii Bool.
From O2o.Model Require Import Tok Syn Attr Ast Lookup Expand.
From O2o.Lemmas Require Import Generics.
Import ListNotations.

(* lifetimes that appear only in the counterpart's path are declared on the impl ... *)
Theorem C11_missing_lt : forall lts gens lt, In lt lts -> In lt (lt_names (add_missing_lts gens lts)).
Proof. exact missing_lifetimes_declared. Qed.
Print Assumptions C11_missing_lt.

(* ... every lifetime exactly once, even if the path repeats one or shares one with the type ... *)
Theorem C11_declared_once : forall lts gens, NoDup (lt_names gens) -> NoDup (lt_names (add_missing_lts gens lts)).
Proof. exact lifetimes_declared_once. Qed.
Print Assumptions C11_declared_once.

(* ... and the deriving type's type / const parameters are carried unchanged, in order *)
Theorem C11_params_carried : forall lts gens,
    map gp_name (filter (fun x => negb (gp_is_lt x)) (add_missing_lts gens lts)) = map gp_name (filter (fun x => negb (gp_is_lt x)) gens).
Proof. exact others_untouched. Qed.
Print Assumptions C11_params_carried.

(* the deriving type is applied to its parameters in argument form *)
Theorem C11_arg_form : forall t c, env_get (trait_env t c) "these_gens" = print_type_generics (tv_generics t).
Proof. exact self_type_in_argument_form. Qed.
Print Assumptions C11_arg_form.

(* by-reference conversions: the fresh 'o2o outlives the relevant lifetimes and is the lifetime of the borrow *)
Theorem C11_o2o : forall t c,
    is_ref (c_kind c) = true ->
    let these_lts := flat_map (fun g => if gp_is_lt g then [gp_name g] else []) (tv_generics t) in
    let those_lts := declarable_lts (angle_lts (tp_generics (c_ty c))) in
    let ref_lts := if is_from (c_kind c) then these_lts else those_lts in
    ref_lts <> [] ->
    env_get (trait_env t c) "r" = P1 "&" :: lifetime "o2o" /\
    env_get (trait_env t c) "impl_gens" =
      print_impl_generics (push_param (add_missing_lts (tv_generics t) those_lts)
                             {| gp_k := GPLt; gp_name := "o2o"; gp_punct := false; gp_decl := lifetime "o2o" ++ [P1 ":"] ++ join_plus ref_lts |}).
Proof. exact o2o_lifetime. Qed.
Print Assumptions C11_o2o.

Theorem C11_no_o2o : forall t c,
    is_ref (c_kind c) = false ->
    env_get (trait_env t c) "r" = [] /\
    env_get (trait_env t c) "impl_gens" = print_impl_generics (add_missing_lts (tv_generics t) (declarable_lts (angle_lts (tp_generics (c_ty c))))).
Proof. exact no_o2o_otherwise. Qed.
Print Assumptions C11_no_o2o.

(* the where-clause dedicated to the counterpart, else the default one, is the one attached *)
Theorem C11_where : forall k f ty d c,
    env_get (trait_env (view_type k f ty d) c) "where_clause" =
    print_where_all (dt_where d) (find_for wa_ty (fun _ => true) (d_where (dt_get_attrs d)) ty).
Proof. exact where_clause_choice. Qed.
Print Assumptions C11_where.

(* the deriving type's own where-predicates (struct S<T> where T: Clone) are carried into every impl, first and in order,
   followed by the predicates of the applicable #[where_clause]; without them the clause is what it was (fix F-11c) *)
Theorem C11_own_where : forall own w, own <> [] ->
    exists rest, print_where_all own w = TIdent "where" :: join_preds own ++ rest /\
                 rest = match w with Some a => [comma] ++ join_preds (wa_preds a) | None => [] end.
Proof. exact own_where_carried. Qed.
Print Assumptions C11_own_where.
Theorem C11_no_own_where : forall w, print_where_all [] w = print_where w.
Proof. exact no_own_where. Qed.
Print Assumptions C11_no_own_where.

(* 'static and '_ are not lifetime parameters: they are never declared on the impl nor bound by 'o2o (finding F-11d, repaired in
   /repo); every other lifetime argument of the counterpart path is *)
Theorem C11_declarable : forall l x, In x (declarable_lts l) <-> In x l /\ x <> "static"%string /\ x <> "_"%string.
Proof. exact declarable_spec. Qed.
Print Assumptions C11_declarable.

(* composed: every lifetime argument of the counterpart path that can be a parameter is declared on the impl; 'static / '_ are declared
   only if the deriving type's own parameter list names them *)
Theorem C11_counterpart_lifetimes_declared : forall gens l lt,
    In lt l -> lt <> "static"%string -> lt <> "_"%string -> In lt (lt_names (add_missing_lts gens (declarable_lts l))).
Proof. exact counterpart_lifetimes_declared. Qed.
Print Assumptions C11_counterpart_lifetimes_declared.

Theorem C11_static_never_added : forall gens l lt,
    (lt = "static"%string \/ lt = "_"%string) -> In lt (lt_names (add_missing_lts gens (declarable_lts l))) -> In lt (lt_names gens).
Proof. exact static_never_added. Qed.
Print Assumptions C11_static_never_added.

(* the added lifetime is fresh - declared once - exactly when no lifetime already on the impl is itself called 'o2o; the unchanged
   code does not avoid the clash (finding F-11g, witness `struct S<'o2o>`) *)
From O2o.Lemmas Require Import O2oFresh.

Theorem C11_o2o_fresh_iff : forall gens bound,
    NoDup (lt_names (push_param gens (o2o_param bound))) <-> NoDup (lt_names gens) /\ ~ In "o2o"%string (lt_names gens).
Proof. exact o2o_fresh_iff. Qed.
Print Assumptions C11_o2o_fresh_iff.

Theorem C11_o2o_fresh_refuted :
  exists gens bound, NoDup (lt_names gens) /\ ~ NoDup (lt_names (push_param gens (o2o_param bound))).
Proof. exact o2o_not_fresh_refuted. Qed.
Print Assumptions C11_o2o_fresh_refuted.
