(* C09 literal/pattern instructions map enum variants to primitive values both ways. *)
From Coq Require Import List String Ascii Bool.
From O2o.Model Require Import Tok Syn Attr Ast Lookup Expand.
From O2o.Lemmas Require Import LitPat.
Import ListNotations.

(* tokens: #[literal(x)] V gives the arm `x => Self::V,` when converting from the primitive and
   `Self::V => x,` when converting into it; #[pattern(p)] V gives `p => Self::V,` *)
Theorem C09_literal_from : forall v c lit,
    unit_variant v -> vv_lit v = Some lit -> vv_pat v = None -> is_from (c_kind c) = true ->
    render_enum_line v c = Ok (lp_toks lit ++ fatarrow ++ c_dst c ++ colon2 ++ [TIdent (vv_ident v)] ++ [comma]).
Proof. exact lit_arm_from. Qed.
Print Assumptions C09_literal_from.

Theorem C09_pattern_from : forall v c pat,
    unit_variant v -> vv_lit v = None -> vv_pat v = Some pat -> is_from (c_kind c) = true ->
    render_enum_line v c = Ok (lp_toks pat ++ fatarrow ++ c_dst c ++ colon2 ++ [TIdent (vv_ident v)] ++ [comma]).
Proof. exact pat_arm_from. Qed.
Print Assumptions C09_pattern_from.

Theorem C09_literal_into : forall v c lit,
    unit_variant v -> vv_lit v = Some lit -> vv_pat v = None -> is_intoish (c_kind c) = true ->
    render_enum_line v c = Ok (c_src c ++ colon2 ++ [TIdent (vv_ident v)] ++ fatarrow ++ lp_toks lit ++ [comma]).
Proof. exact lit_arm_into. Qed.
Print Assumptions C09_literal_into.

(* the match lists the variants' arms in declaration order, any number of variants, and the `_ =>`
   default case - when the instruction declares one and a literal / pattern variant exists - last *)
Theorem C09_order : forall vs c (arm : vview -> list tok),
    (forall v, In v vs -> vv_ghost v = None /\ render_enum_line v c = Ok (arm v)) ->
    enum_init_block vs None c =
    Ok [brace (List.concat (map arm vs) ++
               match tc_default (c_core c) with
               | Some dc => if (is_from (c_kind c) && (existsb (fun v => is_some (vv_lit v) || is_some (vv_pat v)) vs || false))
                               || (negb (is_from (c_kind c)) && existsb (fun v => is_some (vv_ghost v)) vs)
                            then TIdent "_" :: quote_action dc None c else []
               | None => []
               end)].
Proof. exact arms_in_declaration_order. Qed.
Print Assumptions C09_order.

(* semantics of that match, for any value domain and any pattern semantics in which a literal
   pattern matches exactly its value: the first matching arm in declaration order decides ... *)
Theorem C09_first_match : forall (Val : Type) (matches : list tok -> Val -> bool) pre a post x,
    (forall b, In b pre -> matches (arm_toks b) x = false) -> matches (arm_toks a) x = true ->
    eval_from Val matches (pre ++ a :: post) x = Some (arm_name a).
Proof. exact from_declaration_order. Qed.
Print Assumptions C09_first_match.

(* ... values matched by no arm evaluate the default case ... *)
Theorem C09_default : forall (Val : Type) (matches : list tok -> Val -> bool) arms x,
    (forall b, In b arms -> matches (arm_toks b) x = false) -> eval_from Val matches arms x = None.
Proof. exact from_default. Qed.
Print Assumptions C09_default.

(* ... and converting a variant to its literal and back returns the variant, when the literals are
   pairwise distinct in value and no earlier pattern matches the literal (with such a pattern the
   declaration-order rule itself demands the other answer: C09_guard_needed) *)
Theorem C09_round_trip : forall (Val : Type) (matches : list tok -> Val -> bool) (denote : list tok -> Val),
    (forall l x, matches l x = true <-> x = denote l) ->
    forall pre l n post,
      (forall b, In b pre -> match b with
                             | ALit l' _ => denote l' <> denote l
                             | APat p _ => matches p (denote l) = false
                             end) ->
      (forall b, In b pre -> match b with ALit _ m => m <> n | APat _ _ => True end) ->
      exists x, eval_into Val denote (pre ++ ALit l n :: post) n = Some x /\ eval_from Val matches (pre ++ ALit l n :: post) x = Some n.
Proof. exact round_trip. Qed.
Print Assumptions C09_round_trip.

Theorem C09_guard_needed : forall (Val : Type) (matches : list tok -> Val -> bool) (denote : list tok -> Val) p m l n post,
    matches p (denote l) = true -> eval_from Val matches (APat p m :: ALit l n :: post) (denote l) = Some m.
Proof. exact earlier_pattern_wins. Qed.
Print Assumptions C09_guard_needed.
