(* C03 Flattened (child/parent) mappings are faithful; each nested struct is built once (partial: see DESIGN.md). *)
From Coq Require Import List String Ascii Bool Permutation.
From O2o.Model Require Import Tok Syn Attr Ast Lookup Expand.
From O2o.Lemmas Require Import Designated Flatten Descent.
Import ListNotations.

(* #[child(a.b)]: from() reads value.a.b.<field> ... *)
Theorem C03_child_read : forall f c hint idx,
    plain_field f c -> is_from (c_kind c) = true ->
    render_struct_line f c hint idx None = spec_line_in f c hint.
Proof. exact line_in. Qed.
Print Assumptions C03_child_read.

(* ... and into_existing() writes other.a.b.<field> (path_of prefixes the child path), in every cell (finding F-03b - the positional
   counterpart, field without instruction - was repaired in /repo: the theorem has no exception any more) *)
Theorem C03_child_write : forall f c hint idx,
    plain_field f c -> is_from (c_kind c) = false ->
    render_struct_line f c hint idx None = spec_line_out f c hint idx.
Proof. exact line_out. Qed.
Print Assumptions C03_child_write.

(* whatever the order or interleaving of the flat struct's fields: after the sort by first-seen
   child path the members of one path are contiguous, and the sort neither loses nor duplicates a member *)
Theorem C03_group_contiguous : forall all n l1 a l2 b l3,
    by_groups all 0 n = l1 ++ a :: l2 ++ b :: l3 -> fc_gr a = fc_gr b ->
    Forall (fun x => fc_gr x = fc_gr a) l2.
Proof. exact group_contiguous. Qed.
Print Assumptions C03_group_contiguous.

Theorem C03_all_and_only : forall all n,
    Forall (fun c => fc_gr c < n) all -> Permutation (by_groups all 0 n) all.
Proof. exact by_groups_permutation. Qed.
Print Assumptions C03_all_and_only.

(* the full statement - every intermediate struct built exactly once for ANY order - is refuted
   (finding F-03a): contiguity of one path does not make a node contiguous with its sub-nodes *)
Theorem C03_into_once_refuted : top_level_count "vehicle" (struct_init_block f03a_struct f03a_ctx) = 2.
Proof. exact built_twice_when_interleaved. Qed.
Print Assumptions C03_into_once_refuted.

Theorem C03_into_once_grouped_instance : top_level_count "vehicle" (struct_init_block f03a_struct_grouped f03a_ctx) = 1.
Proof. exact built_once_when_grouped. Qed.
Print Assumptions C03_into_once_grouped_instance.

(* what a nested struct literal consumes, for every struct, context, fuel and member list: a contiguous prefix of the members it
   is handed, stopping exactly at the first member that is not under its path (or at the end) ... *)
Theorem C03_literal_consumes_a_prefix : forall s c fuel cd members named cp depth hint ts rest,
  render_child s c fuel cd members named cp depth hint = Ok (ts, rest) ->
  (exists consumed, members = consumed ++ rest) /\
  (rest = [] \/ exists m r p, rest = m :: r /\ nth_error (child_path_strs cp) depth = Some p /\ under p m = false).
Proof. exact nested_literal_consumes_a_prefix. Qed.
Print Assumptions C03_literal_consumes_a_prefix.

(* ... it makes progress: handed a member of its own path it consumes at least that member, whenever it returns at all ... *)
Theorem C03_literal_makes_progress : forall s c fuel cd m ms named cp depth hint ts rest p,
  render_child s c fuel cd (m :: ms) named cp depth hint = Ok (ts, rest) ->
  nth_error (child_path_strs cp) depth = Some p -> under p m = true ->
  exists consumed, m :: ms = (m :: consumed) ++ rest.
Proof. exact nested_literal_makes_progress. Qed.
Print Assumptions C03_literal_makes_progress.

(* ... the top-level literal consumes everything (no member is dropped by the descent) ... *)
Theorem C03_top_level_consumes_all : forall s c fuel members named ts rest,
  init_inner s c fuel members named None = Ok (ts, rest) -> rest = [].
Proof. exact top_level_consumes_all. Qed.
Print Assumptions C03_top_level_consumes_all.

(* ... and so, for ANY order of the flat struct's fields, all the members of one FULL child path go into one struct literal:
   once the literal for path p has been started at a member of path p, no member left over has path p.  This is the part of
   "each intermediate struct is built once" that holds unconditionally; for a proper prefix of a path it does not
   (C03_into_once_refuted, finding F-03a). *)
Theorem C03_one_literal_per_full_path : forall s c fuel cd pre h tl_ named cp depth hint ts rest p,
  sorted_containers s = pre ++ h :: tl_ -> fc_path h = p -> nth_error (child_path_strs cp) depth = Some p ->
  render_child s c fuel cd (h :: tl_) named cp depth hint = Ok (ts, rest) ->
  forall z, In z rest -> fc_path z <> p.
Proof. exact exact_path_members_go_into_one_literal. Qed.
Print Assumptions C03_one_literal_per_full_path.

(* what a nested literal is made of.  Into: `[name:] <Type> { .. },` with the type (and shape hint) the #[child_parents] instruction
   in effect gives for exactly the path prefix, the name the path segment at that depth, the inside the same descent one level down *)
Theorem C03_nested_literal_of_child : forall s c fuel cp members depth hint line ts rest,
    is_intoish (c_kind c) = true ->
    (match depth with None => true | Some d => Nat.ltb d (List.length (child_path_strs cp) - 1) end) = true ->
    child_fragment s c (S (S fuel)) cp members depth hint line = Ok (ts, rest) ->
    let nd := match depth with None => 0 | Some d => S d end in
    exists cpa p cd name init,
      sv_child_parents s = Some cpa /\ nth_error (child_path_strs cp) nd = Some p /\
      find (fun x => String.eqb (cd_str x) p) (ca_data cpa) = Some cd /\
      nth_error cp nd = Some name /\
      init_inner s c fuel members (c_named c) (Some (cp, Some (cd_ty cd, cd_hint cd), nd)) = Ok (init, rest) /\
      (ts = [member_tok name; P1 ":"] ++ cd_ty cd ++ init ++ [comma] \/ ts = cd_ty cd ++ init ++ [comma]).
Proof. exact nested_literal_of_child. Qed.
Print Assumptions C03_nested_literal_of_child.

(* From, parameterised #[parent(..)]: the literal carries the type written next to the nested member (the field's own type at the top) *)
Theorem C03_nested_literal_of_parent : forall s c fuel f p members named depth line ts rest,
    is_from (c_kind c) = true ->
    (match depth with None => true | Some d => Nat.ltb d (List.length (pc_sub p)) end) = true ->
    parent_child_fragment s c (S (S fuel)) f p members named depth line = Ok (ts, rest) ->
    let nd := match depth with None => 0 | Some d => S d end in
    let cp := fv_member f :: map fst (pc_sub p) in
    exists ty name init,
      (match depth with
       | Some d => exists m, nth_error (pc_sub p) d = Some (m, Some ty)
       | None => fv_ty f = Some ty
       end) /\
      nth_error cp nd = Some name /\
      init_inner s c fuel members named (Some (cp, Some (ty, c_hint c), nd)) = Ok (init, rest) /\
      ts = (if c_named c then [member_tok name; P1 ":"] else []) ++ ty ++ init ++ [comma].
Proof. exact nested_literal_of_parent. Qed.
Print Assumptions C03_nested_literal_of_parent.

(* IntoExisting: nothing is constructed, the same descent yields the inner assignments only *)
Theorem C03_existing_descends_without_literal : forall s c fuel cp members depth hint line,
    is_into_existing (c_kind c) = true ->
    (match depth with None => true | Some d => Nat.ltb d (List.length (child_path_strs cp) - 1) end) = true ->
    let nd := match depth with None => 0 | Some d => S d end in
    child_fragment s c (S fuel) cp members depth hint line =
    (p <- nth_str (child_path_strs cp) nd ;;
     init_inner s c fuel members (c_named c)
       (Some (cp, option_map (fun x => (cd_ty x, cd_hint x)) (find_child_data (sv_child_parents s) p), nd))).
Proof. exact existing_descends_without_literal. Qed.
Print Assumptions C03_existing_descends_without_literal.

(* a bare #[parent] field is produced from the whole counterpart ... *)
Theorem C03_parent_bare_from : forall f c hint idx n,
    fv_member f = MNamed n -> fv_attr f = None -> fv_has_parent f = true -> is_from (c_kind c) = true -> hint_eqb hint HTuple = false ->
    render_struct_line f c hint idx None = Ok ([TIdent n; P1 ":"] ++ parent_conv c ++ [comma]).
Proof. exact bare_parent_from. Qed.
Print Assumptions C03_parent_bare_from.

(* ... and poured into the counterpart through its own into_existing conversion: the regenerated
   render_parent templates, one statement per bare-parent field, in field order *)
Theorem C03_parent_bare_templates : render_parent_facts = true.
Proof. exact render_parent_ok. Qed.
Print Assumptions C03_parent_bare_templates.

Theorem C03_parent_bare_into : forall fs c s0,
    is_from (c_kind c) = false ->
    struct_post_init (VStruct {| sv_fields := fs; sv_named := sv_named s0; sv_unit := sv_unit s0; sv_ghosts := sv_ghosts s0;
                                 sv_child_parents := sv_child_parents s0 |}) c =
    (frags <- mapM (fun f => if fv_has_pl_parent f then render_parent f c else Ok []) fs ;;
     if forallb is_empty_list frags then Ok None else Ok (Some (List.concat frags))).
Proof. exact post_init_parents. Qed.
Print Assumptions C03_parent_bare_into.
