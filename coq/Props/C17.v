(* C17 Accepted inputs expand to syntactically valid impl items of the right shape (the skeleton level; user fragments and the rendered bodies are the oracle's: see DESIGN.md). *)
From Coq Require Import List String Ascii Bool.
From O2o.Model Require Import Tok Syn Attr Ast Lookup Expand.
From O2o.Gen Require Import Skeleton.
From O2o.Lemmas Require Import Contexts ItemShape.
Import ListNotations.

(* the six regenerated skeletons (finite, by computation): header `impl <gens> <one of the six traits><..> for <type> <where>`,
   body = [`type Error = <declared>;` iff fallible] + exactly one method with the documented name and signature, nothing else *)
Theorem C17_skeletons : skeleton_shapes = true.
Proof. exact skeleton_shapes_ok. Qed.
Print Assumptions C17_skeletons.

Theorem C17_ref_kinds_share : forall k f,
    skeleton_of k f = skeleton_of (match k with FromRef => FromOwned | RefInto => OwnedInto | RefIntoExisting => OwnedIntoExisting | x => x end) f.
Proof. exact skeleton_by_class. Qed.
Print Assumptions C17_ref_kinds_share.

(* whenever expansion succeeds the output is a sequence of instances of those skeletons, one per impl context *)
Theorem C17_output_is_items : forall d ts,
    data_type_impl d = Ok ts ->
    exists items, ts = List.concat items /\ List.length items = List.length (impl_contexts d) /\
                  Forall2 (fun item c => exists e, item = inst e (skeleton_of (c_kind c) (c_fallible c))) items (impl_contexts d).
Proof. exact output_is_items. Qed.
Print Assumptions C17_output_is_items.
