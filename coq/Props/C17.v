(* C17 Accepted inputs expand to syntactically valid impl items of the right shape (the skeleton level; user fragments and the rendered bodies are the oracle's: see DESIGN.md). *)
From Coq Require Import List String Ascii Bool.
From O2o.Model Require Import Tok Syn Attr Ast Lookup Expand.
From O2o.Gen Require Import Skeleton.
From O2o.Lemmas Require Import Contexts ItemShape.
Import ListNotations.

(* the six regenerated skeletons (finite, by computation): header `impl <gens> <one of the six traits><..> for <type> <where>`,
   body = [`type Error = <declared>;` iff fallible] + exactly one method with the documented name and signature, nothing else *)
Theorem C17_skeletons : skeleton_shapes = true.
Proof. exact skeleton_shapes_ok. Qed.
Print Assumptions C17_skeletons.

Theorem C17_ref_kinds_share : forall k f,
    skeleton_of k f = skeleton_of (match k with FromRef => FromOwned | RefInto => OwnedInto | RefIntoExisting => OwnedIntoExisting | x => x end) f.
Proof. exact skeleton_by_class. Qed.
Print Assumptions C17_ref_kinds_share.

(* whenever expansion succeeds the output is a sequence of instances of those skeletons, one per impl context *)
Theorem C17_output_is_items : forall d ts,
    data_type_impl d = Ok ts ->
    exists items, ts = List.concat items /\ List.length items = List.length (impl_contexts d) /\
                  Forall2 (fun item c => exists e, item = inst e (skeleton_of (c_kind c) (c_fallible c))) items (impl_contexts d).
Proof. exact output_is_items. Qed.
Print Assumptions C17_output_is_items.

(* the assignment-style bodies consist of statements (Lemmas/Statements.v): when a bare #[parent] forces `let mut obj = ..; ..; obj`
   every own-field line and every #[ghosts] entry is `obj.<place> = <value>;`, and in an into_existing body `other.<place> = <value>;`
   - never a literal fragment `name: value,` (the repaired findings F-17d and F-17e) *)
From O2o.Model Require Import Expand.
From O2o.Lemmas Require Import Statements.

Theorem C17_post_init_lines_are_statements : forall f c hint idx ts,
    is_intoish (c_kind c) = true -> c_post_init c = true -> fv_has_parent f = false ->
    render_struct_line f c hint idx None = Ok ts -> statement_on "obj" ts.
Proof. exact lines_are_statements_post_init. Qed.
Print Assumptions C17_post_init_lines_are_statements.

Theorem C17_existing_lines_are_statements : forall f c hint idx ts,
    is_into_existing (c_kind c) = true -> fv_has_parent f = false ->
    render_struct_line f c hint idx None = Ok ts -> statement_on "other" ts.
Proof. exact lines_are_statements_existing. Qed.
Print Assumptions C17_existing_lines_are_statements.

Theorem C17_ghost_lines_are_statements : forall g c ts,
    render_ghost_line g c = Ok ts ->
    (is_intoish (c_kind c) = true -> c_post_init c = true -> statement_on "obj" ts) /\
    (is_into_existing (c_kind c) = true -> statement_on "other" ts).
Proof. exact ghost_lines_are_statements. Qed.
Print Assumptions C17_ghost_lines_are_statements.
