(* C14 repeat / skip_repeat / stop_repeat equal writing the instructions out. *)
From Coq Require Import List String Bool.
From O2o.Model Require Import Tok Syn Attr Ast.
From O2o.Lemmas Require Import RepeatSpec.
Import ListNotations.

(* member level (fields, variants, variant fields - the three instances of the threading differ only
   in what they remember about the opening `repeat`): threading the context through a member
   sequence, from any initial block (the permeating case starts a variant's fields inside the block
   left open by the previous variant), yields the written-out form: each member keeps its own
   instructions and, inside a block and unless marked skip_repeat, receives the block's
   instructions of the selected categories after them; a block is opened by `repeat` and ended by the
   next `stop_repeat` (which may itself reopen one) *)
Theorem C14_member : forall {C} (mk : member_attrs -> mrepeat_attr -> C) get,
    (forall a r, get (mk a r) = a) ->
    forall l ctx0 pre l' ctxe,
      thread_all mk get (active_rev mk ctx0 pre) l = Ok (l', ctxe) ->
      l' = unroll mk get ctx0 pre l /\ ctxe = active_rev mk ctx0 (rev l ++ pre).
Proof. intros C mk get H. exact (thread_is_unroll mk get). Qed.
Print Assumptions C14_member.

(* the only way threading fails: a `repeat` on a member while an earlier block is still open *)
Theorem C14_member_error : forall {C} (mk : member_attrs -> mrepeat_attr -> C) get l ctx0 pre m,
    thread_all mk get (active_rev mk ctx0 pre) l = Err m ->
    m = unterminated_repeat /\
    exists l1 a l2, l = l1 ++ a :: l2 /\ is_some (m_repeat a) = true /\ m_stop a = false /\
                    is_some (active_rev mk ctx0 (rev l1 ++ pre)) = true.
Proof. intros C mk get. exact (thread_error mk get). Qed.
Print Assumptions C14_member_error.

Theorem C14_skip : forall a c, m_skip a = true -> merge_member_attrs a c = a.
Proof. exact merge_skip. Qed.
Print Assumptions C14_skip.

Theorem C14_categories : forall a c r, m_skip a = false -> m_repeat c = Some r ->
    m_attrs (merge_member_attrs a c) = m_attrs a ++ (if rep_flag r 0 then m_attrs c else []) /\
    m_child (merge_member_attrs a c) = m_child a ++ (if rep_flag r 1 then m_child c else []) /\
    m_parent (merge_member_attrs a c) = m_parent a ++ (if rep_flag r 2 then m_parent c else []) /\
    m_ghost (merge_member_attrs a c) = m_ghost a ++ (if rep_flag r 3 then m_ghost c else []) /\
    m_hint (merge_member_attrs a c) = m_hint a ++ (if rep_flag r 4 then m_hint c else []) /\
    m_ghosts (merge_member_attrs a c) = m_ghosts a /\ m_lit (merge_member_attrs a c) = m_lit a /\ m_pat (merge_member_attrs a c) = m_pat a.
Proof. exact merge_appends. Qed.
Print Assumptions C14_categories.

(* the code's field loop is that threading applied to the parsed instructions of the fields *)
Theorem C14_fields : forall be bark fs ctx i attrs,
    Syn.mapM (fun rf => get_member_attrs be (Some (rf_ty rf)) (rf_attrs rf) bark) fs = Syn.Ok attrs ->
    fields_from_syn be bark ctx i fs =
    Syn.bind (thread_all (fun a r => (a, mr_permeate r)) fst ctx attrs)
             (fun x => let '(attrs', ctx') := x in Syn.Ok (mk_fields i fs attrs', ctx')).
Proof. exact fields_from_syn_threads. Qed.
Print Assumptions C14_fields.

(* ---- trait level ---- *)
From O2o.Lemmas Require Import TraitRepeat.

(* get_data_type_attrs threads exactly the trait instructions, in order, through the template map *)
Theorem C14_trait_collect : forall instrs m acc d,
    collect_dt_attrs instrs m acc = Syn.Ok d ->
    exists l, thread m (dmaps instrs) = Syn.Ok l /\ d_attrs d = d_attrs acc ++ l.
Proof. exact collect_threads. Qed.
Print Assumptions C14_trait_collect.

(* and that threading is the written-out form: each later instruction of the same key (= the same
   instruction name, TablesFacts.key_injective) receives the parameters of the template opened by the
   last `repeat(..)` of that key and not yet ended by a `stop_repeat` of that key; templates of other
   keys never interfere *)
Theorem C14_trait : forall l m pre l', inv m pre -> thread m l = Syn.Ok l' -> unroll pre l = Syn.Ok l'.
Proof. exact thread_is_unroll. Qed.
Print Assumptions C14_trait.

Theorem C14_trait_start : inv [] [].
Proof. exact inv_empty. Qed.
Print Assumptions C14_trait_start.

Theorem C14_trait_skip : forall a t, tc_skip a = true -> merge_trait_core a t = Syn.Ok a.
Proof. exact merge_skip_trait. Qed.
Print Assumptions C14_trait_skip.

Theorem C14_trait_copies : forall a t fl r,
    tc_skip a = false -> tc_repeat t = Some fl -> merge_trait_core a t = Syn.Ok r ->
    tc_init r = (if rflag fl 0 then tc_init t else tc_init a) /\
    tc_update r = (if rflag fl 1 then tc_update t else tc_update a) /\
    tc_qret r = (if rflag fl 2 then tc_qret t else tc_qret a) /\
    tc_default r = (if rflag fl 3 then tc_default t else tc_default a) /\
    tc_ty r = tc_ty a /\ tc_err r = tc_err a /\ tc_hint r = tc_hint a /\
    tc_attr r = tc_attr a /\ tc_impl_attr r = tc_impl_attr a /\ tc_inner_attr r = tc_inner_attr a.
Proof. exact merge_copies_selected. Qed.
Print Assumptions C14_trait_copies.

(* ---- downstream of the threading (Lemmas/RepeatFlags.v) ---- *)
From O2o.Model Require Import Expand.
From O2o.Lemmas Require Import RepeatFlags.

(* the markers themselves are invisible to the code generator: with repeat / skip_repeat / stop_repeat erased from every field,
   variant and payload field - i.e. with exactly what the written-out form threads to - the generated impls are the same.
   (Validation does read one marker: a permeating repeat on a struct field is a reported misuse.) *)
Theorem C14_marks_invisible_to_codegen : forall d, data_type_impl (erase_data d) = data_type_impl d.
Proof. exact marks_invisible_to_codegen. Qed.
Print Assumptions C14_marks_invisible_to_codegen.
