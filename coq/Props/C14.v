(* C14 repeat / skip_repeat / stop_repeat equal writing the instructions out. *)
From Coq Require Import List String Bool.
From O2o.Model Require Import Tok Syn Attr Ast.
From O2o.Lemmas Require Import RepeatSpec.
Import ListNotations.

(* member level (fields, variants, variant fields - the three instances of the threading differ only
   in what they remember about the opening `repeat`): threading the context through a member
   sequence, from any initial block (the permeating case starts a variant's fields inside the block
   left open by the previous variant), yields the written-out form: each member keeps its own
   instructions and, inside a block and unless marked skip_repeat, receives the block's
   instructions of the selected categories after them; a block is opened by `repeat` and ended by the
   next `stop_repeat` (which may itself reopen one) *)
Theorem C14_member : forall {C} (mk : member_attrs -> mrepeat_attr -> C) get,
    (forall a r, get (mk a r) = a) ->
    forall l ctx0 pre l' ctxe,
      thread_all mk get (active_rev mk ctx0 pre) l = Ok (l', ctxe) ->
      l' = unroll mk get ctx0 pre l /\ ctxe = active_rev mk ctx0 (rev l ++ pre).
Proof. intros C mk get H. exact (thread_is_unroll mk get). Qed.
Print Assumptions C14_member.

(* the only way threading fails: a `repeat` on a member while an earlier block is still open *)
Theorem C14_member_error : forall {C} (mk : member_attrs -> mrepeat_attr -> C) get l ctx0 pre m,
    thread_all mk get (active_rev mk ctx0 pre) l = Err m ->
    m = unterminated_repeat /\
    exists l1 a l2, l = l1 ++ a :: l2 /\ is_some (m_repeat a) = true /\ m_stop a = false /\
                    is_some (active_rev mk ctx0 (rev l1 ++ pre)) = true.
Proof. intros C mk get. exact (thread_error mk get). Qed.
Print Assumptions C14_member_error.

Theorem C14_skip : forall a c, m_skip a = true -> merge_member_attrs a c = a.
Proof. exact merge_skip. Qed.
Print Assumptions C14_skip.

Theorem C14_categories : forall a c r, m_skip a = false -> m_repeat c = Some r ->
    m_attrs (merge_member_attrs a c) = m_attrs a ++ (if rep_flag r 0 then m_attrs c else []) /\
    m_child (merge_member_attrs a c) = m_child a ++ (if rep_flag r 1 then m_child c else []) /\
    m_parent (merge_member_attrs a c) = m_parent a ++ (if rep_flag r 2 then m_parent c else []) /\
    m_ghost (merge_member_attrs a c) = m_ghost a ++ (if rep_flag r 3 then m_ghost c else []) /\
    m_hint (merge_member_attrs a c) = m_hint a ++ (if rep_flag r 4 then m_hint c else []) /\
    m_ghosts (merge_member_attrs a c) = m_ghosts a /\ m_lit (merge_member_attrs a c) = m_lit a /\ m_pat (merge_member_attrs a c) = m_pat a.
Proof. exact merge_appends. Qed.
Print Assumptions C14_categories.

(* the code's field loop is that threading applied to the parsed instructions of the fields *)
Theorem C14_fields : forall be bark fs ctx i attrs,
    Syn.mapM (fun rf => get_member_attrs be (Some (rf_ty rf)) (rf_attrs rf) bark) fs = Syn.Ok attrs ->
    fields_from_syn be bark ctx i fs =
    Syn.bind (thread_all (fun a r => (a, mr_permeate r)) fst ctx attrs)
             (fun x => let '(attrs', ctx') := x in Syn.Ok (mk_fields i fs attrs', ctx')).
Proof. exact fields_from_syn_threads. Qed.
Print Assumptions C14_fields.
