(* C07 Owned, by-reference, fallible and into-existing flavours of a mapping agree (struct lines and bodies; partial for `?` propagation, see DESIGN.md). *)
From Coq Require Import List String Ascii Bool.
From O2o.Model Require Import Tok Syn Attr Ast Lookup Expand.
From O2o.Gen Require Import Skeleton.
From O2o.Lemmas Require Import Designated Flavours.
Open Scope string_scope.
Open Scope list_scope.
Import ListNotations.

(* by-reference = owned: with the same resolved view of the field, its line does not depend on the
   kind within a class (From / Into / IntoExisting) *)
Theorem C07_ref : forall f c k' hint idx,
    same_class (c_kind c) k' -> fv_has_parent f = false ->
    render_struct_line f (set_kind c k') hint idx None = render_struct_line f c hint idx None.
Proof. exact line_same_class. Qed.
Print Assumptions C07_ref.

Theorem C07_ref_class : forall k, same_class k (ref_of k).
Proof. exact ref_same_class. Qed.
Print Assumptions C07_ref_class.

(* fallible = infallible on every line; the fallible body is Ok(..) of the infallible one *)
Theorem C07_try_line : forall f c b hint idx pc,
    fv_has_parent f = false ->
    render_struct_line f (set_fallible c b) hint idx pc = render_struct_line f c hint idx pc.
Proof. exact line_fallible. Qed.
Print Assumptions C07_try_line.

Theorem C07_try_body : forall d c,
    tc_qret (c_core c) = None -> c_post_init c = false ->
    main_code_block_ok d c = (inner <- main_code_block d c ;; Ok [TIdent "Ok"; paren inner]).
Proof. exact try_wraps_ok. Qed.
Print Assumptions C07_try_body.

(* into_existing assigns, to the place into() fills (under the field's child path), the value into() puts there *)
Theorem C07_existing_named : forall f c k2 hint idx p v,
    plain_field f c -> is_intoish (c_kind c) = true -> is_into_existing k2 = true ->
    dest_named (fv_member f) hint = Some true -> place_named f = Ok p -> value_out f c = Ok v ->
    render_struct_line f c hint idx None = Ok ([member_tok p; P1 ":"] ++ v ++ [comma]) /\
    render_struct_line f (set_kind c k2) hint idx None = Ok ([TIdent "other"; dot] ++ path_of f p ++ [P1 "="] ++ v ++ [semi]).
Proof. exact existing_agrees_with_into. Qed.
Print Assumptions C07_existing_named.

Theorem C07_existing_positional : forall f c k2 hint idx v,
    plain_field f c -> is_intoish (c_kind c) = true -> is_into_existing k2 = true ->
    dest_named (fv_member f) hint = Some false -> place_positional f idx = Ok (MIndex idx) -> value_out f c = Ok v ->
    render_struct_line f c hint idx None = Ok (v ++ [comma]) /\
    render_struct_line f (set_kind c k2) hint idx None = Ok ([TIdent "other"; dot] ++ path_of f (MIndex idx) ++ [P1 "="] ++ v ++ [semi]).
Proof. exact existing_agrees_with_into_positional. Qed.
Print Assumptions C07_existing_positional.

(* frame: an into_existing body consists of the lines of the written fields, the #[ghosts] entries and
   nothing else (C01_block): a field of the existing value that no line names is never assigned *)
Theorem C07_frame : forall s c fuel fs cs named,
    Forall (fun f => fv_child f = None) fs ->
    Forall2 (fun x f => fc_data x = FdField f) cs fs ->
    init_inner s c (S fuel) cs named None =
    (ls <- spec_lines fs c (c_hint c) 0 ;; gs <- spec_ghosts s c ;;
     toks <- wrap_struct c (c_hint c) named (ls ++ List.concat gs ++ spec_update c) ;; Ok (toks, [])).
Proof. exact init_block_plain. Qed.
Print Assumptions C07_frame.

(* the four Into-side bodies that flatten a bare #[parent] run vars, own assignments, parent conversions in the same order
   (the quote! blocks are re-read from /repo on every run): into_existing and into agree on fields both write *)
Theorem C07_statement_order :
  statement_holes sk_into_body_post = ["pre_init"; "init"; "post_init"] /\
  statement_holes sk_try_into_body_post = ["pre_init"; "init"; "post_init"] /\
  statement_holes sk_into_existing = ["pre_init"; "init"; "post_init"] /\
  statement_holes sk_try_into_existing = ["pre_init"; "init"; "post_init"] /\
  statement_holes sk_into_body_plain = ["pre_init"; "init"] /\
  statement_holes sk_try_into_body_plain = ["pre_init"; "init"].
Proof. exact statement_order. Qed.
Print Assumptions C07_statement_order.

(* by-reference = owned for WHOLE bodies (Lemmas/KindClass.v): given the same resolved views - the lookups are where ownership
   legitimately matters - the generated body (infallible and fallible form) does not depend on the kind within its class, for every
   struct and enum without #[parent] members, through the whole fuelled descent, ghost lines, nested literals, match arms, update,
   quick return.  (With #[parent] members the flavours differ by design: `(&value).into()` vs `value.into()`, the
   ownership-specific instruction inside #[parent(..)], the into_existing templates.) *)
From O2o.Lemmas Require Import KindClass.

Theorem C07_ref_whole_body : forall d c k',
    same_class (c_kind c) k' -> dview_no_parents d ->
    main_code_block d (set_kind c k') = main_code_block d c /\ main_code_block_ok d (set_kind c k') = main_code_block_ok d c.
Proof. exact body_same_class. Qed.
Print Assumptions C07_ref_whole_body.

(* fallible = infallible for whole bodies (Lemmas/FallibleClass.v), same scope; the fallible skeleton then wraps the body in Ok(..)
   (C07_try_body) *)
From O2o.Lemmas Require Import FallibleClass.

Theorem C07_try_whole_body : forall d c b,
    dview_no_parents d -> main_code_block d (set_fallible c b) = main_code_block d c.
Proof. exact body_same_fallible. Qed.
Print Assumptions C07_try_whole_body.

(* both at once: the body of any flavour of a class equals the body of any other, given the same views *)
Theorem C07_flavours_whole_body : forall d c k' b,
    same_class (c_kind c) k' -> dview_no_parents d ->
    main_code_block d (set_fallible (set_kind c k') b) = main_code_block d c.
Proof. exact body_same_flavour. Qed.
Print Assumptions C07_flavours_whole_body.
