(* C02 Enum conversions map each variant and payload field to its designated target (lines and arms; see DESIGN.md for what the oracle adds). *)
From Coq Require Import List String Ascii Bool.
From O2o.Model Require Import Tok Syn Attr Ast Lookup Expand.
From O2o.Lemmas Require Import Designated Variants LitPat.
Import ListNotations.

(* payload fields, converting into the counterpart: every cell (named / positional member x
   instruction form x hint): the designated place (renamed member or own name; position for a tuple
   form) receives the instruction's expression with ~ = the field's binding, else the binding; the
   binding of a tuple payload field i is f<i> *)
Theorem C02_payload_out : forall f c hint idx,
    payload_field f c -> is_intoish (c_kind c) = true ->
    render_struct_line f c hint idx None = spec_line_out_v f c hint.
Proof. exact payload_line_out. Qed.
Print Assumptions C02_payload_out.

(* converting from the counterpart: the own field receives the expression with ~ = the binding of the
   designated counterpart field (renamed member, own name, or f<position> for a tuple form) *)
Theorem C02_payload_in : forall f c hint idx,
    payload_field f c -> is_from (c_kind c) = true ->
    render_struct_line f c hint idx None = spec_line_in_v f c hint.
Proof. exact payload_line_in. Qed.
Print Assumptions C02_payload_in.

(* closedness: the arm's pattern binds every payload field under exactly the binding its line reads *)
Theorem C02_closed : forall s c,
    is_from (c_kind c) = false -> sv_ghosts s = None \/ True ->
    variant_destruct_block s c =
    Ok [if sv_named s then brace (flat_map (fun x => [member_tok (fv_member x); comma]) (sv_fields s))
        else paren (flat_map (fun x => [TIdent (f_ident (fv_idx x)); comma]) (sv_fields s))].
Proof. exact destruct_binds_own. Qed.
Print Assumptions C02_closed.

(* the arm of a variant without variant-level instruction: `Src::V <pattern> => Dst::V <payload>,` -
   same variant name on both sides, payload built by the struct rules on the variant's own fields *)
Theorem C02_plain_arm : forall v c,
    vv_attr v = None -> vv_lit v = None -> vv_pat v = None ->
    render_enum_line v c =
    (let hint := match vv_hint v with Some h => th_hint h | None => HUnspecified end in
     let s := vv_struct v in
     let nc := {| c_kind := c_kind c; c_fallible := c_fallible c; c_core := c_core c; c_hint := hint; c_impl_type := ITVariant;
                  c_dst := c_dst c; c_src := c_src c; c_post_init := c_post_init c; c_named := sv_named s |} in
     let empty_fields := is_empty_list (sv_fields s) in
     destr <- (if empty_fields && (negb (is_from (c_kind c)) || hint_maybe hint HUnit) then Ok []
               else if empty_fields && is_from (c_kind c) && hint_eqb hint HTuple then Ok [paren dotdot]
               else if empty_fields && is_from (c_kind c) && hint_eqb hint HStruct then Ok [brace dotdot]
               else variant_destruct_block s nc) ;;
     init <- (if empty_fields && hint_maybe hint HUnit then Ok [] else struct_init_block s nc) ;;
     Ok ((c_src c ++ colon2 ++ [TIdent (vv_ident v)]) ++ destr ++ fatarrow ++ (c_dst c ++ colon2 ++ [TIdent (vv_ident v)]) ++ init ++ [comma])).
Proof. exact plain_arm. Qed.
Print Assumptions C02_plain_arm.

(* arms in variant declaration order; the `_ =>` default case last *)
Theorem C02_order : forall vs c (arm : vview -> list tok),
    (forall v, In v vs -> vv_ghost v = None /\ render_enum_line v c = Ok (arm v)) ->
    enum_init_block vs None c =
    Ok [brace (List.concat (map arm vs) ++
               match tc_default (c_core c) with
               | Some dc => if (is_from (c_kind c) && (existsb (fun v => is_some (vv_lit v) || is_some (vv_pat v)) vs || false))
                               || (negb (is_from (c_kind c)) && existsb (fun v => is_some (vv_ghost v)) vs)
                            then TIdent "_" :: quote_action dc None c else []
               | None => []
               end)].
Proof. exact arms_in_declaration_order. Qed.
Print Assumptions C02_order.

(* the whole match body, in full generality (Lemmas/EnumBlock.v): the arms of the contributing variants in declaration order - a
   ghost variant contributes nothing when converting FROM the counterpart, and nothing when converting INTO it unless it has a
   default expression -, then the #[ghosts] arms in the order they are written, then the default case; for any variants, any
   instructions on them, any conversion kind *)
From O2o.Lemmas Require Import EnumBlock.

Theorem C02_block : forall vs ghosts c (arm : vview -> list tok) (garm : ghost_data -> list tok),
    (forall v, In v vs -> contributes c v = true -> render_enum_line v c = Ok (arm v)) ->
    (forall g x, ghosts = Some g -> In x (sg_data g) -> render_enum_ghost_line x c = Ok (garm x)) ->
    enum_init_block vs ghosts c =
    Ok [brace (List.concat (map arm (filter (contributes c) vs)) ++
               List.concat (map garm (match ghosts with Some g => sg_data g | None => [] end)) ++
               default_arm vs ghosts c)].
Proof. exact enum_block_structure. Qed.
Print Assumptions C02_block.

(* a #[ghosts] arm: `Src::<variant or destructuring pattern> => <expression>,` when converting from the counterpart, nothing otherwise *)
Theorem C02_ghosts_arm : forall x c,
    render_enum_ghost_line x c =
    match gd_ident x with
    | GMember (MIndex _) => Panic "17"
    | GMember (MNamed ident) =>
        if is_from (c_kind c) then Ok (c_src c ++ colon2 ++ [TIdent ident] ++ fatarrow ++ quote_action (gd_action x) None c ++ [comma]) else Ok []
    | GDestr destr =>
        if is_from (c_kind c) then Ok (c_src c ++ colon2 ++ destr ++ fatarrow ++ quote_action (gd_action x) None c ++ [comma]) else Ok []
    end.
Proof. exact ghosts_arm. Qed.
Print Assumptions C02_ghosts_arm.

(* a variant renamed by a variant-level instruction `#[map(W)] V ..` (no expression): converting from the counterpart matches the
   counterpart's W and builds the own V; converting into it matches the own V and builds the counterpart's W; pattern and payload
   are those of the plain arm *)
Theorem C02_renamed_arm_from : forall v c mc w,
    vv_attr v = Some (AField mc) -> mc_member mc = Some (MNamed w) -> mc_action mc = None ->
    vv_lit v = None -> vv_pat v = None -> is_from (c_kind c) = true ->
    render_enum_line v c =
    (destr <- arm_destr v c ;; init <- arm_init v c ;;
     Ok (c_src c ++ colon2 ++ [TIdent w] ++ destr ++ fatarrow ++ (c_dst c ++ colon2 ++ [TIdent (vv_ident v)]) ++ init ++ [comma])).
Proof. exact renamed_arm_from. Qed.
Print Assumptions C02_renamed_arm_from.

Theorem C02_renamed_arm_into : forall v c mc w,
    vv_attr v = Some (AField mc) -> mc_member mc = Some (MNamed w) -> mc_action mc = None ->
    vv_lit v = None -> vv_pat v = None -> is_intoish (c_kind c) = true ->
    render_enum_line v c =
    (destr <- arm_destr v c ;; init <- arm_init v c ;;
     Ok ((c_src c ++ colon2 ++ [TIdent (vv_ident v)]) ++ destr ++ fatarrow ++ (c_dst c ++ colon2) ++ TIdent w :: init ++ [comma])).
Proof. exact renamed_arm_into. Qed.
Print Assumptions C02_renamed_arm_into.
