(* C12 Shortcut instructions equal the basic instructions they abbreviate. *)
From Coq Require Import List String Bool Permutation.
From O2o.Model Require Import Tok Syn Attr Ast Lookup Expand.
From O2o.Gen Require Import Tables Readme.
From O2o.Lemmas Require Import TablesFacts Contexts Shortcuts.
Import ListNotations.

(* tables (regenerated): a shortcut applies to exactly the union of the kinds of the basic
   instructions the README says it abbreviates, with the same fallibility *)
Theorem C12_union :
  forallb (fun n => appl_eqb (map (appl_get (appl_of_name n)) all_kinds) (or_appl (map appl_of_name (basics_of n)))
                    && forallb (fun b => Bool.eqb (fallible_of_name b) (fallible_of_name n)) (basics_of n)
                    && negb (is_empty_list (basics_of n)))
          dt_map_names = true.
Proof. exact shortcut_is_union. Qed.
Print Assumptions C12_union.

Theorem C12_basics_singletons :
  forallb (fun kf => match dt_code_kinds (basic_name (fst kf) (snd kf)) with
                     | Some ([k], f) => kind_eqb k (fst kf) && Bool.eqb f (snd kf)
                     | _ => false end)
          (list_prod all_kinds [false; true]) = true.
Proof. exact basics_are_singletons. Qed.
Print Assumptions C12_basics_singletons.

(* member level and nested-parent level use the same names with the same meaning *)
Theorem C12_member_tables :
  forallb (fun n => match assoc_str n documented with
                    | Some d => same_doc (mb_code_kinds n) d
                    | None => false end) mb_map_names = true /\
  List.length mb_map_names = 21.
Proof. exact mb_tables_match. Qed.
Print Assumptions C12_member_tables.

Theorem C12_nested_tables :
  forallb (fun n => match assoc_str n documented with
                    | Some (ks, false) => kinds_eqb (kinds_of_appl (appl_of_slots nested_map_slots n)) ks
                    | _ => false end) nested_map_names = true /\ List.length nested_map_names = 12.
Proof. exact nested_tables_match. Qed.
Print Assumptions C12_nested_tables.

(* ghost / ghosts are the union of their _owned and _ref forms *)
Theorem C12_ghost :
  appl_eqb (map (appl_get (ghost_appl mb_arms "ghost")) all_kinds)
           (or_appl [ghost_appl mb_arms "ghost_owned"; ghost_appl mb_arms "ghost_ref"]) = true /\
  appl_eqb (map (appl_get (ghost_appl mb_arms "ghosts")) all_kinds)
           (or_appl [ghost_appl mb_arms "ghosts_owned"; ghost_appl mb_arms "ghosts_ref"]) = true /\
  forallb (fun k => Bool.eqb (appl_get (ghost_appl mb_arms "ghost_owned") k) (negb (is_ref k))
                    && Bool.eqb (appl_get (ghost_appl mb_arms "ghost_ref") k) (is_ref k)
                    && Bool.eqb (appl_get (ghost_appl mb_arms "ghosts_owned") k) (negb (is_ref k))
                    && Bool.eqb (appl_get (ghost_appl mb_arms "ghosts_ref") k) (is_ref k)) all_kinds = true.
Proof. exact ghost_is_union. Qed.
Print Assumptions C12_ghost.

(* lifting, type level: replacing a trait instruction by its split into single-kind instructions
   (same arguments, same position) requests the same impl contexts, in the same multiset *)
(* parsing the basic instruction of (k, fallible) yields the single-kind applicability array of k *)
Theorem C12_basic_is_singleton :
  forallb (fun kf => appl_eqb (appl_of_name (basic_name (fst kf) (snd kf))) (singleton_appl (fst kf))
                     && Bool.eqb (fallible_of_name (basic_name (fst kf) (snd kf))) (snd kf))
          (list_prod all_kinds [false; true]) = true.
Proof. exact basic_is_singleton. Qed.
Print Assumptions C12_basic_is_singleton.

Theorem C12_type_contexts : forall l1 a l2,
    Permutation (requested_of (l1 ++ split_trait_attr a ++ l2)) (requested_of (l1 ++ a :: l2)).
Proof. exact split_requested. Qed.
Print Assumptions C12_type_contexts.

(* lifting, member level: splitting a member instruction into its single-kind forms at the same
   position leaves every per-kind lookup unchanged *)
Theorem C12_member_lookup : forall l1 a l2 k fallible ty,
    option_map ma_core (find_for (fun x => mc_ty (ma_core x)) (ma_ok k fallible) (l1 ++ split_member_attr a ++ l2) ty)
    = option_map ma_core (find_for (fun x => mc_ty (ma_core x)) (ma_ok k fallible) (l1 ++ a :: l2) ty).
Proof. exact split_member_lookup. Qed.
Print Assumptions C12_member_lookup.

(* lifted to the generated code (Lemmas/ShortcutLift.v): writing a shortcut out as the single-kind instructions it stands for - same
   arguments, same position - yields the same impls, token for token and in the same order; at type level (nothing the renderer
   looks at depends on the list of trait instructions except the impl contexts, and those are equal as lists) and on any field of a
   struct (every per-kind lookup, hence every resolved view, is unchanged) *)
From O2o.Model Require Import Expand.
From O2o.Lemmas Require Import ShortcutLift.

Theorem C12_type_level_whole_impl : forall d l1 a l2,
    d_attrs (dt_get_attrs d) = l1 ++ a :: l2 ->
    data_type_impl (set_trait_attrs d (l1 ++ split_trait_attr a ++ l2)) = data_type_impl d.
Proof. exact split_whole_impl. Qed.
Print Assumptions C12_type_level_whole_impl.

Theorem C12_member_level_whole_impl : forall s fs1 f fs2 l1 a l2,
    s_fields s = fs1 ++ f :: fs2 -> m_attrs (f_attrs f) = l1 ++ a :: l2 ->
    let f' := set_field_attrs f (l1 ++ split_member_attr a ++ l2) in
    let s' := {| s_attrs := s_attrs s; s_ident := s_ident s; s_generics := s_generics s; s_fields := fs1 ++ f' :: fs2;
                 s_named := s_named s; s_unit := s_unit s; s_where := s_where s |} in
    data_type_impl (DStruct s') = data_type_impl (DStruct s).
Proof. exact split_member_whole_impl. Qed.
Print Assumptions C12_member_level_whole_impl.
