(* C01 Struct conversions move every value to the field the instructions designate. *)
From Coq Require Import List String Bool.
From O2o.Model Require Import Tok Syn Attr Ast Lookup Expand.
From O2o.Lemmas Require Import Designated.
Import ListNotations.

(* Into / IntoExisting, every cell (named or positional member x no instruction / instruction with or
   without member and expression x owned/ref x every hint): the line of a plain field writes
   value_out (the instruction's expression with ~ = self.<member>, @ = self, else self.<member>) to
   place_named (the member the instruction names, else the own name) of a named counterpart, or to
   the running position of a positional one; nothing for a unit counterpart *)
Theorem C01_line_out : forall f c hint idx,
    plain_field f c -> is_from (c_kind c) = false ->
    render_struct_line f c hint idx None = spec_line_out f c hint idx.
Proof. exact line_out. Qed.
Print Assumptions C01_line_out.

(* From, every cell: the own field receives value_in: the instruction's expression with
   ~ = value.<named member, else default source>, else value.<default source>; the default source is
   the own name, or the own position when the counterpart is positional *)
Theorem C01_line_in : forall f c hint idx,
    plain_field f c -> is_from (c_kind c) = true ->
    render_struct_line f c hint idx None = spec_line_in f c hint.
Proof. exact line_in. Qed.
Print Assumptions C01_line_in.

(* the whole literal / assignment list: exactly the lines of the fields not skipped for the kind
   (#[ghost] fields when consumed, default-less ghosts when produced), in declaration order, positions
   counted over the written fields only, then the conversion's #[ghosts] entries, then `..update` -
   no other field is mentioned; for any number of fields *)
Theorem C01_block : forall s c fuel fs cs named,
    Forall (fun f => fv_child f = None) fs ->
    Forall2 (fun x f => fc_data x = FdField f) cs fs ->
    init_inner s c (S fuel) cs named None =
    (ls <- spec_lines fs c (c_hint c) 0 ;; gs <- spec_ghosts s c ;;
     toks <- wrap_struct c (c_hint c) named (ls ++ List.concat gs ++ spec_update c) ;; Ok (toks, [])).
Proof. exact init_block_plain. Qed.
Print Assumptions C01_block.

(* at the entry point (Lemmas/FlatBlock.v): for a struct without flattening - no #[child], no parameterised #[parent], no #[ghosts]
   entry with a path, distinct field names - the member list struct_init_block works on IS the field list in declaration order (the
   sort by first-seen path is the identity), so the block theorem holds of struct_init_block itself *)
From O2o.Lemmas Require Import FlatBlock.

Theorem C01_whole_block : forall s c,
    flat_struct s ->
    ((negb (is_from (c_kind c)) && hint_eqb (c_hint c) HUnit) || (is_from (c_kind c) && sv_unit s)) = false ->
    struct_init_block s c =
    (ls <- spec_lines (sv_fields s) c (c_hint c) 0 ;; gs <- spec_ghosts s c ;;
     wrap_struct c (c_hint c) (sv_named s) (ls ++ List.concat gs ++ spec_update c)).
Proof. exact flat_struct_init_block. Qed.
Print Assumptions C01_whole_block.
