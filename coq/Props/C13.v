(* C13 #[o2o(...)] alternative syntaxes generate the same code as bare attributes. *)
From Coq Require Import List String Ascii Bool.
From O2o.Model Require Import Tok Syn Attr Ast.
From O2o.Gen Require Import Tables Macros.
From O2o.Lemmas Require Import Spelling.
Import ListNotations.

(* (regenerated tables) every instruction that has a bare form is classified independently of the
   spelling (`own` / `bark`) at the level where it exists *)
Theorem C13_tables :
  forallb dt_stable type_level_names = true /\ forallb mb_stable member_level_names = true /\
  forallb (fun n => str_in n type_level_names || str_in n member_level_names || str_in n ["o2o"; "children"]%string) bare_attributes = true.
Proof. exact level_names_stable. Qed.
Print Assumptions C13_tables.

Theorem C13_instruction_type_level : forall be n ts own bark own' bark',
    dt_stable n = true -> parse_data_type_instruction be n ts own bark = parse_data_type_instruction be n ts own' bark'.
Proof. exact dt_instruction_spelling. Qed.
Print Assumptions C13_instruction_type_level.

Theorem C13_instruction_member_level : forall be n ts own bark own' bark',
    mb_stable n = true -> parse_member_instruction be n ts own bark = parse_member_instruction be n ts own' bark'.
Proof. exact mb_instruction_spelling. Qed.
Print Assumptions C13_instruction_member_level.

(* #[o2o(n(args))] = #[n(args)], at any position of any attribute list, for any arguments, both back-ends:
   same instruction, same effect on everything that follows (hence same code, same accept/reject) *)
Theorem C13_single_type_level : forall be n inner rest bark,
    ordinary be n -> dt_stable n = true ->
    dt_instrs be (o2o_attr [TIdent n; TGroup DParen inner] :: rest) bark = dt_instrs be (bare_attr n inner :: rest) bark.
Proof. exact dt_o2o_single. Qed.
Print Assumptions C13_single_type_level.

Theorem C13_single_member_level : forall be n inner rest bark,
    ordinary be n -> mb_stable n = true ->
    mb_instrs be (o2o_attr [TIdent n; TGroup DParen inner] :: rest) bark = mb_instrs be (bare_attr n inner :: rest) bark.
Proof. exact mb_o2o_single. Qed.
Print Assumptions C13_single_member_level.

(* grouping two adjacent instructions into one list *)
Theorem C13_group : forall be n1 inner1 n2 inner2 rest bark,
    ordinary be n1 -> dt_stable n1 = true -> ordinary be n2 -> dt_stable n2 = true ->
    dt_instrs be (o2o_attr [TIdent n1; TGroup DParen inner1; comma; TIdent n2; TGroup DParen inner2] :: rest) bark
    = dt_instrs be (o2o_attr [TIdent n1; TGroup DParen inner1] :: o2o_attr [TIdent n2; TGroup DParen inner2] :: rest) bark.
Proof. exact dt_o2o_group. Qed.
Print Assumptions C13_group.
