(* C13 #[o2o(...)] alternative syntaxes generate the same code as bare attributes. *)
From Coq Require Import List String Ascii Bool.
From O2o.Model Require Import Tok Syn Attr Ast.
From O2o.Gen Require Import Tables Macros.
From O2o.Lemmas Require Import Spelling.
Import ListNotations.

(* (regenerated tables) every instruction that has a bare form is classified independently of the
   spelling (`own` / `bark`) at the level where it exists *)
Theorem C13_tables :
  forallb dt_stable type_level_names = true /\ forallb mb_stable member_level_names = true /\
  forallb (fun n => str_in n type_level_names || str_in n member_level_names || str_in n ["o2o"; "children"]%string) bare_attributes = true.
Proof. exact level_names_stable. Qed.
Print Assumptions C13_tables.

Theorem C13_instruction_type_level : forall be n ts own bark own' bark',
    dt_stable n = true -> parse_data_type_instruction be n ts own bark = parse_data_type_instruction be n ts own' bark'.
Proof. exact dt_instruction_spelling. Qed.
Print Assumptions C13_instruction_type_level.

Theorem C13_instruction_member_level : forall be n ts own bark own' bark',
    mb_stable n = true -> parse_member_instruction be n ts own bark = parse_member_instruction be n ts own' bark'.
Proof. exact mb_instruction_spelling. Qed.
Print Assumptions C13_instruction_member_level.

(* #[o2o(n(args))] = #[n(args)], at any position of any attribute list, for any arguments, both back-ends:
   same instruction, same effect on everything that follows (hence same code, same accept/reject) *)
Theorem C13_single_type_level : forall be n inner rest bark,
    ordinary be n -> dt_stable n = true ->
    dt_instrs be (o2o_attr [TIdent n; TGroup DParen inner] :: rest) bark = dt_instrs be (bare_attr n inner :: rest) bark.
Proof. exact dt_o2o_single. Qed.
Print Assumptions C13_single_type_level.

Theorem C13_single_member_level : forall be n inner rest bark,
    ordinary be n -> mb_stable n = true ->
    mb_instrs be (o2o_attr [TIdent n; TGroup DParen inner] :: rest) bark = mb_instrs be (bare_attr n inner :: rest) bark.
Proof. exact mb_o2o_single. Qed.
Print Assumptions C13_single_member_level.

(* grouping two adjacent instructions into one list *)
Theorem C13_group : forall be n1 inner1 n2 inner2 rest bark,
    ordinary be n1 -> dt_stable n1 = true -> ordinary be n2 -> dt_stable n2 = true ->
    dt_instrs be (o2o_attr [TIdent n1; TGroup DParen inner1; comma; TIdent n2; TGroup DParen inner2] :: rest) bark
    = dt_instrs be (o2o_attr [TIdent n1; TGroup DParen inner1] :: o2o_attr [TIdent n2; TGroup DParen inner2] :: rest) bark.
Proof. exact dt_o2o_group. Qed.
Print Assumptions C13_group.

(* grouping ANY number of instructions into one list, with or without the trailing comma (Lemmas/Groups.v): the list equals the
   separate single-instruction lists, and hence the directly written attributes, in order - whatever follows, whatever the
   arguments, both back ends *)
From O2o.Lemmas Require Import Groups.

Theorem C13_group_n_type_level : forall be l trailing rest bark,
    Forall (fun x => ordinary be (fst x) /\ dt_stable (fst x) = true) l ->
    dt_instrs be (o2o_attr (group_toks l trailing) :: rest) bark = dt_instrs be (singles l ++ rest) bark.
Proof. exact dt_o2o_group_n. Qed.
Print Assumptions C13_group_n_type_level.

Theorem C13_group_n_member_level : forall be l trailing rest bark,
    Forall (fun x => ordinary be (fst x)) l ->
    mb_instrs be (o2o_attr (group_toks l trailing) :: rest) bark = mb_instrs be (singles l ++ rest) bark.
Proof. exact mb_o2o_group_n. Qed.
Print Assumptions C13_group_n_member_level.

Theorem C13_group_is_bare_type_level : forall be l trailing rest bark,
    Forall (fun x => ordinary be (fst x) /\ dt_stable (fst x) = true) l ->
    dt_instrs be (o2o_attr (group_toks l trailing) :: rest) bark = dt_instrs be (bares l ++ rest) bark.
Proof. exact dt_o2o_group_is_bare. Qed.
Print Assumptions C13_group_is_bare_type_level.

Theorem C13_group_is_bare_member_level : forall be l trailing rest bark,
    Forall (fun x => ordinary be (fst x) /\ mb_stable (fst x) = true) l ->
    mb_instrs be (o2o_attr (group_toks l trailing) :: rest) bark = mb_instrs be (bares l ++ rest) bark.
Proof. exact mb_o2o_group_is_bare. Qed.
Print Assumptions C13_group_is_bare_member_level.

(* end to end (Lemmas/Respell.v): respelling a run of type-level instructions anywhere among the type's attributes, or the
   instructions of any field of a struct, leaves the WHOLE outcome of the derive unchanged (same impls / same diagnostics) *)
From O2o.Model Require Import Derive.
From O2o.Lemmas Require Import Foreign Respell.

Theorem C13_whole_derive_type_level : forall be order order_tp x pre l trailing post,
    ri_attrs x = pre ++ o2o_attr (group_toks l trailing) :: post ->
    Forall (fun x => ordinary be (fst x) /\ dt_stable (fst x) = true) l ->
    raw_has_none x = false -> raw_has_none (with_attrs x (pre ++ bares l ++ post)) = false ->
    derive_model be order order_tp x = derive_model be order order_tp (with_attrs x (pre ++ bares l ++ post)).
Proof. exact respelling_whole_derive_type_level. Qed.
Print Assumptions C13_whole_derive_type_level.

Theorem C13_whole_derive_field : forall be order order_tp x sh fs1 f fs2 pre l trailing post attrs bark,
    ri_data x = RStruct sh (fs1 ++ f :: fs2) -> rf_attrs f = pre ++ o2o_attr (group_toks l trailing) :: post ->
    Forall (fun x => ordinary be (fst x) /\ mb_stable (fst x) = true) l ->
    get_data_type_attrs be (ri_attrs x) = Ok (attrs, bark) ->
    raw_has_none x = false ->
    let f' := {| rf_member := rf_member f; rf_typath := rf_typath f; rf_ty := rf_ty f; rf_attrs := pre ++ bares l ++ post |} in
    raw_has_none (with_data x (RStruct sh (fs1 ++ f' :: fs2))) = false ->
    derive_model be order order_tp x = derive_model be order order_tp (with_data x (RStruct sh (fs1 ++ f' :: fs2))).
Proof. exact respelling_whole_derive_field. Qed.
Print Assumptions C13_whole_derive_field.

(* ... and of any variant of an enum, and of any payload field of a variant *)
Theorem C13_whole_derive_variant : forall be order order_tp x vs1 v vs2 pre l trailing post attrs bark,
    ri_data x = REnum (vs1 ++ v :: vs2) -> rv_attrs v = pre ++ o2o_attr (group_toks l trailing) :: post ->
    Forall (fun x => ordinary be (fst x) /\ mb_stable (fst x) = true) l ->
    get_data_type_attrs be (ri_attrs x) = Ok (attrs, bark) ->
    raw_has_none x = false ->
    let v' := {| rv_ident := rv_ident v; rv_shape := rv_shape v; rv_attrs := pre ++ bares l ++ post; rv_fields := rv_fields v |} in
    raw_has_none (with_data x (REnum (vs1 ++ v' :: vs2))) = false ->
    derive_model be order order_tp x = derive_model be order order_tp (with_data x (REnum (vs1 ++ v' :: vs2))).
Proof. exact respelling_whole_derive_variant. Qed.
Print Assumptions C13_whole_derive_variant.

Theorem C13_whole_derive_payload_field : forall be order order_tp x vs1 v vs2 fs1 f fs2 pre l trailing post attrs bark,
    ri_data x = REnum (vs1 ++ v :: vs2) -> rv_fields v = fs1 ++ f :: fs2 -> rf_attrs f = pre ++ o2o_attr (group_toks l trailing) :: post ->
    Forall (fun x => ordinary be (fst x) /\ mb_stable (fst x) = true) l ->
    get_data_type_attrs be (ri_attrs x) = Ok (attrs, bark) ->
    raw_has_none x = false ->
    let f' := {| rf_member := rf_member f; rf_typath := rf_typath f; rf_ty := rf_ty f; rf_attrs := pre ++ bares l ++ post |} in
    let v' := {| rv_ident := rv_ident v; rv_shape := rv_shape v; rv_attrs := rv_attrs v; rv_fields := fs1 ++ f' :: fs2 |} in
    raw_has_none (with_data x (REnum (vs1 ++ v' :: vs2))) = false ->
    derive_model be order order_tp x = derive_model be order order_tp (with_data x (REnum (vs1 ++ v' :: vs2))).
Proof. exact respelling_whole_derive_payload_field. Qed.
Print Assumptions C13_whole_derive_payload_field.
