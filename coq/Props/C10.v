(* C10 `@` and `~` are substituted everywhere; all other user tokens pass through. *)
From Coq Require Import List String Ascii Bool.
From O2o.Model Require Import Tok Syn Attr Ast Lookup Expand.
From O2o.Lemmas Require Import Subst SubstClean.
Import ListNotations.

(* on the flattened token sequence (groups = open/close markers, every depth, every delimiter),
   substitution replaces each `~` leaf by the path and each `@` leaf by the source object and
   leaves every other leaf and every delimiter in place and in order *)
Theorem C10_flatten : forall at_ tilde ts,
    flatten (subst at_ tilde ts) = flat_map (subst_leaf at_ tilde) (flatten ts).
Proof. exact subst_flatten. Qed.
Print Assumptions C10_flatten.

Theorem C10_passthrough : forall at_ tilde ts,
    forallb (fun k => negb (is_tilde k) && negb (is_at k)) (flatten ts) = true ->
    flatten (subst at_ tilde ts) = flatten ts.
Proof. exact subst_no_markers. Qed.
Print Assumptions C10_passthrough.

(* string / char literals containing the characters are literals, not markers *)
Theorem C10_literals : forall s, is_tilde (FLeaf (TLit s)) = false /\ is_at (FLeaf (TLit s)) = false.
Proof. exact lit_not_marker. Qed.
Print Assumptions C10_literals.

(* what the two markers stand for, per impl type: `@` = value / self; `~` = <source>.<path> for a
   struct, <Dst>::<path> for a variant-level expression, the bare binding inside a variant *)
Theorem C10_quote_action : forall action post c,
    flatten (quote_action action post c) =
    flat_map (subst_leaf (src_ident c)
                (match c_impl_type c with
                 | ITStruct => src_ident c ++ [dot] ++ match post with Some p => p | None => [] end
                 | ITEnum => c_dst c ++ colon2 ++ match post with Some p => p | None => [] end
                 | ITVariant => match post with Some p => p | None => [] end
                 end)) (flatten action).
Proof. exact quote_action_flatten. Qed.
Print Assumptions C10_quote_action.

(* context-free: what stands before or after a marker plays no role (`for x in @.items`, `n @ ..`) *)
Theorem C10_context_free : forall at_ tilde a b,
    subst at_ tilde (a ++ b) = subst at_ tilde a ++ subst at_ tilde b.
Proof. exact subst_app. Qed.
Print Assumptions C10_context_free.

(* total: no marker is left in a rendered member expression *)
Theorem C10_no_marker_left : forall action post c,
    marker_free (flatten (match post with Some p => p | None => [] end)) = true ->
    marker_free (flatten (c_dst c)) = true ->
    marker_free (flatten (quote_action action post c)) = true.
Proof. exact quote_action_removes_markers. Qed.
Print Assumptions C10_no_marker_left.

Theorem C10_sites : sites_statement.
Proof. exact sites_proof. Qed.
Print Assumptions C10_sites.
