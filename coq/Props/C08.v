(* C08 Trait-instruction params (vars, ..update, return, attributes) act as documented. *)
From Coq Require Import List String Ascii Bool.
From O2o.Model Require Import Tok Syn Attr Ast Lookup Expand.
From O2o.Gen Require Import Skeleton.
From O2o.Lemmas Require Import Params Designated.
Import ListNotations.

(* positions in the six regenerated skeletons (finite, by computation): #impl_attr first, before
   `impl`; #attr immediately before `fn`; #inner_attr first in the fn body; the vars bindings right
   after it and before the result - in the post-init body of into() after `let mut obj` and before
   the first assignment; each hole once *)
Theorem C08_skeleton : skeleton_param_facts = true.
Proof. exact skeleton_params. Qed.
Print Assumptions C08_skeleton.

Theorem C08_vars : forall c l,
    tc_init (c_core c) = Some l ->
    struct_pre_init c = Some (flat_map (fun x => [TIdent "let"; TIdent (id_ident x); P1 "="] ++ quote_action (id_action x) None c ++ [semi]) l).
Proof. exact pre_init_in_order. Qed.
Print Assumptions C08_vars.

Theorem C08_return : forall d c qr,
    tc_qret (c_core c) = Some qr ->
    main_code_block d c = Ok (quick_return_block qr c) /\ main_code_block_ok d c = Ok (quick_return_block qr c) /\
    quick_return_block qr c = (if is_into_existing (c_kind c) then [P1 "*"; TIdent "other"; P1 "="] ++ quote_action qr None c ++ [semi]
                               else quote_action qr None c).
Proof. exact quick_return_replaces. Qed.
Print Assumptions C08_return.

(* `..expr` closes the literal after exactly the fields the members and #[ghosts] entries provide *)
Theorem C08_update : forall s c fuel fs cs named,
    Forall (fun f => fv_child f = None) fs ->
    Forall2 (fun x f => fc_data x = FdField f) cs fs ->
    init_inner s c (S fuel) cs named None =
    (ls <- spec_lines fs c (c_hint c) 0 ;; gs <- spec_ghosts s c ;;
     toks <- wrap_struct c (c_hint c) named (ls ++ List.concat gs ++ spec_update c) ;; Ok (toks, [])).
Proof. exact init_block_plain. Qed.
Print Assumptions C08_update.

(* on every impl the instruction produces *)
Theorem C08_every_impl : forall d c, In c (impl_contexts d) ->
    exists a, In a (d_attrs (dt_get_attrs d)) /\ c_core c = ta_core a /\ c_fallible c = ta_fallible a.
Proof. exact contexts_carry_core. Qed.
Print Assumptions C08_every_impl.

Theorem C08_attrs_env : forall t c,
    assoc_str "attr" (trait_env t c) = Some (match tc_attr (c_core c) with Some a => a | None => [] end) /\
    assoc_str "impl_attr" (trait_env t c) = Some (match tc_impl_attr (c_core c) with Some a => a | None => [] end) /\
    assoc_str "inner_attr" (trait_env t c) = Some (match tc_inner_attr (c_core c) with Some a => a | None => [] end).
Proof. exact env_attrs. Qed.
Print Assumptions C08_attrs_env.

(* `return expr` replaces the WHOLE generated body, whatever the members carry - in particular no post-init statement of a bare
   #[parent] member survives (finding F-08b / F-17b, repaired in /repo): the item is the skeleton with the vars bindings and the
   expression (`*other = expr;` for into_existing), nothing else *)
Theorem C08_return_whole_body : forall t c0 qr,
    tc_qret (c_core c0) = Some qr -> c_fallible c0 = false ->
    let c := no_post c0 in
    let e1 := ("pre_init", opt_toks (struct_pre_init c0)) :: ("init", quick_return_block qr c) :: ("post_init", []) :: trait_env t c in
    quote_trait t c0 =
    Ok (if is_from (c_kind c0) then inst (("pre_init", opt_toks (struct_pre_init c0)) :: ("init", quick_return_block qr c) :: trait_env t c) sk_from
        else if is_intoish (c_kind c0) then inst (("body", inst e1 sk_into_body_plain) :: e1) sk_into
        else inst e1 sk_into_existing).
Proof. exact return_replaces_whole_body. Qed.
Print Assumptions C08_return_whole_body.
