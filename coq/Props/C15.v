(* C15 Documented misuse is reported as a compile error, completely, in any context (partial: see DESIGN.md). *)
From Coq Require Import List String Bool Permutation.
From O2o.Model Require Import Tok Syn Attr Ast Lookup Validate Expand Derive.
From O2o.Lemmas Require Import Rules.
Import ListNotations.

(* whatever order the message map is iterated in, a rejected input's outcome lists exactly the
   messages validation collected: all broken rules of the validate() group are reported together *)
Theorem C15_all : forall be order order_tp x d msgs,
    (forall l, Permutation (order l) l) ->
    parse_input be x = Ok d -> validate_msgs order_tp d = Ok msgs -> msgs <> [] ->
    exists errs, derive_res be order order_tp x = Ok (inr errs) /\ forall m, In m msgs <-> In m errs.
Proof. exact rejected_reports_all. Qed.
Print Assumptions C15_all.

(* completeness of individual rules, for every input and every position of the offending instruction *)
Theorem C15_rule1_no_trait_instruction : forall order_tp d msgs,
    validate_msgs order_tp d = Ok msgs -> d_attrs (dt_get_attrs d) = [] ->
    In "At least one trait instruction is expected."%string msgs.
Proof. exact rule_no_trait_instruction. Qed.
Print Assumptions C15_rule1_no_trait_instruction.

Theorem C15_rule3_missing_error_type : forall order_tp d msgs ta k,
    validate_msgs order_tp d = Ok msgs ->
    In ta (d_attrs (dt_get_attrs d)) -> ta_fallible ta = true -> appl_get (ta_appl ta) k = true -> tc_err (ta_core ta) = None ->
    In "Error type should be specified for fallible instruction."%string msgs.
Proof. exact rule_missing_error_type. Qed.
Print Assumptions C15_rule3_missing_error_type.

Theorem C15_rule3_superfluous_error_type : forall order_tp d msgs ta k,
    validate_msgs order_tp d = Ok msgs ->
    In ta (d_attrs (dt_get_attrs d)) -> ta_fallible ta = false -> appl_get (ta_appl ta) k = true -> is_some (tc_err (ta_core ta)) = true ->
    In "Error type should not be specified for infallible instruction."%string msgs.
Proof. exact rule_superfluous_error_type. Qed.
Print Assumptions C15_rule3_superfluous_error_type.

Theorem C15_rule4_unknown_counterpart_where : forall order_tp d msgs w tp,
    validate_msgs order_tp d = Ok msgs ->
    In w (d_where (dt_get_attrs d)) -> wa_ty w = Some tp ->
    tp_in tp (map (fun x => tc_ty (ta_core x)) (d_attrs (dt_get_attrs d))) = false ->
    In (unknown_type_msg tp) msgs.
Proof. exact rule_unknown_counterpart_where. Qed.
Print Assumptions C15_rule4_unknown_counterpart_where.

Theorem C15_rule4_unknown_counterpart_member : forall order_tp s msgs f a tp,
    validate_msgs order_tp (DStruct s) = Ok msgs ->
    In f (s_fields s) -> In a (m_attrs (f_attrs f)) -> mc_ty (ma_core a) = Some tp ->
    tp_in tp (map (fun x => tc_ty (ta_core x)) (d_attrs (s_attrs s))) = false ->
    In (unknown_type_msg tp) msgs.
Proof. exact rule_unknown_counterpart_member. Qed.
Print Assumptions C15_rule4_unknown_counterpart_member.

Theorem C15_rule7_ghost_without_default : forall order_tp s msgs f g tp ta k,
    validate_msgs order_tp (DStruct s) = Ok msgs ->
    In f (s_fields s) -> In g (m_ghost (f_attrs f)) -> fg_action (gh_core g) = None -> fg_ty (gh_core g) = Some tp ->
    In ta (d_attrs (s_attrs s)) -> is_from k = true -> In (ta, k) (attrs_by_kind (s_attrs s)) ->
    tc_update (ta_core ta) = None -> tp_eqb tp (tc_ty (ta_core ta)) = true ->
    In ("Member instruction #[ghost(...)] for member '" ^^ member_str (f_member f) ^^ "' should provide default value for type " ^^ tp_str tp)%string msgs.
Proof. exact rule_ghost_without_default. Qed.
Print Assumptions C15_rule7_ghost_without_default.

(* ---- further rules (Lemmas/Rules2.v) ---- *)
From O2o.Lemmas Require Import Rules2.

(* rule 2: two instructions that request the same (kind, fallibility) impl for one counterpart, anywhere in the instruction list *)
Theorem C15_rule2_duplicate_instruction : forall order_tp d msgs l1 a l2 b l3 k f,
    validate_msgs order_tp d = Ok msgs ->
    d_attrs (dt_get_attrs d) = l1 ++ a :: l2 ++ b :: l3 ->
    ta_fallible a = f -> ta_fallible b = f -> appl_get (ta_appl a) k = true -> appl_get (ta_appl b) k = true ->
    tp_eqb (tc_ty (ta_core b)) (tc_ty (ta_core a)) = true ->
    In "Ident here must be unique."%string msgs.
Proof. exact rule_duplicate_instruction. Qed.
Print Assumptions C15_rule2_duplicate_instruction.

(* rule 8: #[child(..)] on any field of a struct without #[child_parents] for an into-counterpart / with a path prefix missing from it *)
Theorem C15_rule8_child_without_child_parents : forall order_tp s msgs f c ta k,
    (forall l, Permutation (order_tp l) l) ->
    validate_msgs order_tp (DStruct s) = Ok msgs ->
    In f (s_fields s) -> In c (m_child (f_attrs f)) -> ch_ty c = None -> ch_path c <> [] ->
    In (ta, k) (attrs_by_kind (s_attrs s)) -> is_from k = false -> is_into_existing k = false ->
    child_parents_attr_for (s_attrs s) (tc_ty (ta_core ta)) = None ->
    In ("Missing #[child_parents(...)] instruction for " ^^ tp_str (tc_ty (ta_core ta)))%string msgs.
Proof. exact rule_child_without_child_parents. Qed.
Print Assumptions C15_rule8_child_without_child_parents.

Theorem C15_rule8_child_path_missing : forall order_tp s msgs f c ta k a path,
    (forall l, Permutation (order_tp l) l) ->
    validate_msgs order_tp (DStruct s) = Ok msgs ->
    In f (s_fields s) -> In c (m_child (f_attrs f)) -> ch_ty c = None ->
    In (ta, k) (attrs_by_kind (s_attrs s)) -> is_from k = false -> is_into_existing k = false ->
    child_parents_attr_for (s_attrs s) (tc_ty (ta_core ta)) = Some a ->
    In path (child_path_strs (ch_path c)) -> existsb (fun x => String.eqb (cd_str x) path) (ca_data a) = false ->
    In ("Missing '" ^^ path ^^ ": [Type Path]' instruction for type " ^^ tp_str (tc_ty (ta_core ta)))%string msgs.
Proof. exact rule_child_path_missing. Qed.
Print Assumptions C15_rule8_child_path_missing.

(* rule 9: a tuple struct mapped `as {}` whose field has no instruction for the conversion *)
Theorem C15_rule9_tuple_to_named_without_names : forall order_tp s msgs f ta k,
    validate_msgs order_tp (DStruct s) = Ok msgs ->
    s_named s = false -> In f (s_fields s) ->
    In (ta, k) (attrs_by_kind (s_attrs s)) -> tc_qret (ta_core ta) = None -> tc_hint (ta_core ta) = HStruct ->
    m_ghost_for (f_attrs f) (tc_ty (ta_core ta)) k = None -> has_parent_attr (f_attrs f) (tc_ty (ta_core ta)) = false ->
    applicable_field_attr (f_attrs f) k false (tc_ty (ta_core ta)) = None ->
    In ("Member " ^^ member_str (f_member f) ^^ " should have member trait instruction with field name" ^^ (if is_from k then " or an action" else "") ^^
        ", that corresponds to #[" ^^ fallible_kind_str k false ^^ "(" ^^ tp_str (tc_ty (ta_core ta)) ^^ "...)] trait instruction")%string msgs.
Proof. exact rule_tuple_to_named_without_names. Qed.
Print Assumptions C15_rule9_tuple_to_named_without_names.

(* rule 10: an untyped nested `[parent(..)] member` on a struct field, under a From conversion *)
Theorem C15_rule10_untyped_nested_parent : forall order_tp s msgs f p fields pcf i ta k,
    validate_msgs order_tp (DStruct s) = Ok msgs ->
    In f (s_fields s) -> In p (m_parent (f_attrs f)) -> pa_children p = Some fields -> In pcf fields -> In i (pc_sub pcf) -> snd i = None ->
    In (ta, k) (attrs_by_kind (s_attrs s)) -> is_from k = true -> pty_matches p (tc_ty (ta_core ta)) = true ->
    In ("Field '" ^^ member_str (fst i) ^^ "' should have type here, e.g. '" ^^ member_str (fst i) ^^ ": SomeStruct'")%string msgs.
Proof. exact rule_untyped_nested_parent. Qed.
Print Assumptions C15_rule10_untyped_nested_parent.

(* finding F-15c as a theorem: the collected messages do not depend on the payload fields of struct-form variants at all *)
Theorem C15_payload_fields_unvalidated : forall order_tp e e',
    e_attrs e = e_attrs e' -> Forall2 same_but_named_payload (e_variants e) (e_variants e') ->
    validate_msgs order_tp (DEnum e) = validate_msgs order_tp (DEnum e').
Proof. exact payload_fields_of_named_variants_unvalidated. Qed.
Print Assumptions C15_payload_fields_unvalidated.

(* ---- rule 5 (Lemmas/Rules3.v): a second default instruction, or a second one dedicated to the same counterpart, wherever the two stand ---- *)
From O2o.Lemmas Require Import Rules3.

Theorem C15_rule5_default_ghosts_twice : forall order_tp d msgs l1 a l2 b l3 k,
    validate_msgs order_tp d = Ok msgs -> d_ghosts (dt_get_attrs d) = l1 ++ a :: l2 ++ b :: l3 ->
    appl_get (ga_appl a) k = true -> appl_get (ga_appl b) k = true -> sg_ty (ga_core a) = None -> sg_ty (ga_core b) = None ->
    In "There can be at most one default #[ghosts(...)] instruction."%string msgs.
Proof. exact rule_default_ghosts_twice. Qed.
Print Assumptions C15_rule5_default_ghosts_twice.

Theorem C15_rule5_dedicated_ghosts_twice : forall order_tp d msgs l1 a l2 b l3 k ta tb,
    validate_msgs order_tp d = Ok msgs -> d_ghosts (dt_get_attrs d) = l1 ++ a :: l2 ++ b :: l3 ->
    appl_get (ga_appl a) k = true -> appl_get (ga_appl b) k = true -> sg_ty (ga_core a) = Some ta -> sg_ty (ga_core b) = Some tb ->
    tp_eqb tb ta = true ->
    In (dedicated_twice_msg "ghosts" tb) msgs.
Proof. exact rule_dedicated_ghosts_twice. Qed.
Print Assumptions C15_rule5_dedicated_ghosts_twice.

Theorem C15_rule5_default_where_twice : forall order_tp d msgs l1 a l2 b l3,
    validate_msgs order_tp d = Ok msgs -> d_where (dt_get_attrs d) = l1 ++ a :: l2 ++ b :: l3 ->
    wa_ty a = None -> wa_ty b = None ->
    In "There can be at most one default #[where_clause(...)] instruction."%string msgs.
Proof. exact rule_default_where_twice. Qed.
Print Assumptions C15_rule5_default_where_twice.

Theorem C15_rule5_dedicated_where_twice : forall order_tp d msgs l1 a l2 b l3 ta tb,
    validate_msgs order_tp d = Ok msgs -> d_where (dt_get_attrs d) = l1 ++ a :: l2 ++ b :: l3 ->
    wa_ty a = Some ta -> wa_ty b = Some tb -> tp_eqb tb ta = true ->
    In (dedicated_twice_msg "where_clause" tb) msgs.
Proof. exact rule_dedicated_where_twice. Qed.
Print Assumptions C15_rule5_dedicated_where_twice.

Theorem C15_rule5_default_child_parents_twice : forall order_tp d msgs l1 a l2 b l3,
    validate_msgs order_tp d = Ok msgs -> d_child_parents (dt_get_attrs d) = l1 ++ a :: l2 ++ b :: l3 ->
    ca_ty a = None -> ca_ty b = None ->
    In "There can be at most one default #[child_parents(...)] instruction."%string msgs.
Proof. exact rule_default_child_parents_twice. Qed.
Print Assumptions C15_rule5_default_child_parents_twice.

Theorem C15_rule5_dedicated_child_parents_twice : forall order_tp d msgs l1 a l2 b l3 ta tb,
    validate_msgs order_tp d = Ok msgs -> d_child_parents (dt_get_attrs d) = l1 ++ a :: l2 ++ b :: l3 ->
    ca_ty a = Some ta -> ca_ty b = Some tb -> tp_eqb tb ta = true ->
    In (dedicated_twice_msg "child_parents" tb) msgs.
Proof. exact rule_dedicated_child_parents_twice. Qed.
Print Assumptions C15_rule5_dedicated_child_parents_twice.

(* member level: #[parent] on any field of a struct ... *)
Theorem C15_rule5_default_parent_twice : forall order_tp s msgs f l1 a l2 b l3,
    validate_msgs order_tp (DStruct s) = Ok msgs -> In f (s_fields s) -> m_parent (f_attrs f) = l1 ++ a :: l2 ++ b :: l3 ->
    pa_ty a = None -> pa_ty b = None ->
    In "There can be at most one default #[parent(...)] instruction for a given member."%string msgs.
Proof. exact rule_default_parent_twice. Qed.
Print Assumptions C15_rule5_default_parent_twice.

Theorem C15_rule5_dedicated_parent_twice : forall order_tp s msgs f l1 a l2 b l3 ta tb,
    validate_msgs order_tp (DStruct s) = Ok msgs -> In f (s_fields s) -> m_parent (f_attrs f) = l1 ++ a :: l2 ++ b :: l3 ->
    pa_ty a = Some ta -> pa_ty b = Some tb -> tp_eqb tb ta = true ->
    In (dedicated_twice_msg "parent" tb) msgs.
Proof. exact rule_dedicated_parent_twice. Qed.
Print Assumptions C15_rule5_dedicated_parent_twice.

(* ... literal / pattern / type_hint on any variant of an enum *)
Theorem C15_rule5_default_variant_instr_twice : forall order_tp e msgs v,
    validate_msgs order_tp (DEnum e) = Ok msgs -> In v (e_variants e) ->
    (forall l1 a l2 b l3, m_lit (v_attrs v) = l1 ++ a :: l2 ++ b :: l3 -> lp_ty a = None -> lp_ty b = None ->
       In "There can be at most one default #[literal(...)] instruction for a given member."%string msgs) /\
    (forall l1 a l2 b l3, m_pat (v_attrs v) = l1 ++ a :: l2 ++ b :: l3 -> lp_ty a = None -> lp_ty b = None ->
       In "There can be at most one default #[pattern(...)] instruction for a given member."%string msgs) /\
    (forall l1 a l2 b l3, m_hint (v_attrs v) = l1 ++ a :: l2 ++ b :: l3 -> th_ty a = None -> th_ty b = None ->
       In "There can be at most one default #[type_hint(...)] instruction for a given member."%string msgs).
Proof. exact rule_default_variant_instr_twice. Qed.
Print Assumptions C15_rule5_default_variant_instr_twice.

Theorem C15_rule5_dedicated_variant_instr_twice : forall order_tp e msgs v,
    validate_msgs order_tp (DEnum e) = Ok msgs -> In v (e_variants e) ->
    (forall l1 a l2 b l3 ta tb, m_lit (v_attrs v) = l1 ++ a :: l2 ++ b :: l3 -> lp_ty a = Some ta -> lp_ty b = Some tb -> tp_eqb tb ta = true ->
       In (dedicated_twice_msg "literal" tb) msgs) /\
    (forall l1 a l2 b l3 ta tb, m_pat (v_attrs v) = l1 ++ a :: l2 ++ b :: l3 -> lp_ty a = Some ta -> lp_ty b = Some tb -> tp_eqb tb ta = true ->
       In (dedicated_twice_msg "pattern" tb) msgs) /\
    (forall l1 a l2 b l3 ta tb, m_hint (v_attrs v) = l1 ++ a :: l2 ++ b :: l3 -> th_ty a = Some ta -> th_ty b = Some tb -> tp_eqb tb ta = true ->
       In (dedicated_twice_msg "type_hint" tb) msgs).
Proof. exact rule_dedicated_variant_instr_twice. Qed.
Print Assumptions C15_rule5_dedicated_variant_instr_twice.

(* rule 9, the enum half: a tuple variant sent to a struct-form variant (`#[type_hint(as {})]`) with a payload field that has no
   instruction for the conversion - any variant, any payload field, any trait instruction and kind *)
Theorem C15_rule9_tuple_variant_to_named_without_names : forall order_tp e msgs v f ta k h,
    validate_msgs order_tp (DEnum e) = Ok msgs ->
    In v (e_variants e) -> v_named v = false -> In f (v_fields v) ->
    In ta (iter_for_kind (e_attrs e) k (ta_fallible ta)) -> tc_qret (ta_core ta) = None ->
    m_hint_for (v_attrs v) (tc_ty (ta_core ta)) = Some h -> th_hint h = HStruct ->
    m_ghost_for (f_attrs f) (tc_ty (ta_core ta)) k = None -> has_parent_attr (f_attrs f) (tc_ty (ta_core ta)) = false ->
    applicable_field_attr (f_attrs f) k false (tc_ty (ta_core ta)) = None ->
    In ("Member " ^^ member_str (f_member f) ^^ " of a variant " ^^ v_ident v ^^ " should have member trait instruction with field name" ^^
        (if is_from k then " or an action" else "") ^^
        ", that corresponds to #[" ^^ fallible_kind_str k (ta_fallible ta) ^^ "(" ^^ tp_str (tc_ty (ta_core ta)) ^^ "...)] trait instruction")%string msgs.
Proof. exact rule_tuple_variant_to_named_without_names. Qed.
Print Assumptions C15_rule9_tuple_variant_to_named_without_names.

(* ---- rule 6: every misplaced / misnamed / unsupported instruction the parser recorded is reported - at type level, on any field
   of a struct, on any variant of an enum, whatever else is wrong with the input ---- *)
Theorem C15_rule6_type_level : forall order_tp d msgs e,
    validate_msgs order_tp d = Ok msgs -> In e (d_errs (dt_get_attrs d)) ->
    exists m, dt_error_msg (match d with DEnum _ => true | _ => false end) e = Some m /\ In m msgs.
Proof. exact rule_type_level_error_instr_reported. Qed.
Print Assumptions C15_rule6_type_level.

Theorem C15_rule6_field : forall order_tp s msgs f e,
    validate_msgs order_tp (DStruct s) = Ok msgs -> In f (s_fields s) -> In e (m_errs (f_attrs f)) ->
    exists m, member_error_msg false e = Some m /\ In m msgs.
Proof. exact rule_field_error_instr_reported. Qed.
Print Assumptions C15_rule6_field.

Theorem C15_rule6_variant : forall order_tp en msgs v e,
    validate_msgs order_tp (DEnum en) = Ok msgs -> In v (e_variants en) -> In e (m_errs (v_attrs v)) ->
    exists m, member_error_msg true e = Some m /\ In m msgs.
Proof. exact rule_variant_error_instr_reported. Qed.
Print Assumptions C15_rule6_variant.

(* ---- rule 6 from the attribute text, and the documented switch #[o2o(allow_unknown)] (Lemmas/Foreign.v) ---- *)
From O2o.Gen Require Import Tables.
From O2o.Lemmas Require Import Foreign.

(* the names concerned are read off the regenerated match-arm tables (the arms guarded by `if bark`) *)
Theorem C15_barked_names :
  (forallb (fun n => match barked_class n with Some c => is_err_class c | None => false end) barked_type_level_names = true /\
   forallb (fun n => match find_arm dt_arms n false false with Some (DcUnrec, _) => true | _ => false end) barked_type_level_names = true /\
   negb (str_in "doc" barked_type_level_names) && negb (str_in "o2o" barked_type_level_names) = true /\
   barked_type_level_names <> []) /\
  (forallb (fun n => match barked_member_class n with Some c => is_err_mclass c | None => false end) barked_member_level_names = true /\
   forallb (fun n => match find_arm mb_arms n false false with Some (McUnrec, _) => true | _ => false end) barked_member_level_names = true /\
   negb (str_in "doc" barked_member_level_names) && negb (str_in "o2o" barked_member_level_names) = true /\
   barked_member_level_names <> []).
Proof. exact (conj barked_names_table barked_member_names_table). Qed.
Print Assumptions C15_barked_names.

(* a directly written attribute on the type that names a member-level instruction, with no allow_unknown list before it, is recorded
   as misplaced / misnamed (and so reported: C15_rule6_type_level) - for any attributes before and after it, either back end *)
Theorem C15_rule6_foreign_type_level : forall be pre a post n ipre d bk,
    get_data_type_attrs be (pre ++ a :: post) = Ok (d, bk) ->
    dt_instrs be pre true = Ok (ipre, true) ->
    ra_path a = Some n -> In n barked_type_level_names ->
    exists e, In e (d_errs d) /\ (e = DMisplaced n false \/ exists g, e = DMisnamed n g false).
Proof. exact foreign_type_level_attribute_recorded. Qed.
Print Assumptions C15_rule6_foreign_type_level.

(* ... and after a list with allow_unknown it changes nothing at all: the parsed type-level attributes (and the verdict, error or
   not) are those of the input without it - "an input that breaks no rule is never rejected", for this class of inputs *)
Theorem C15_switch_type_level : forall be pre a post n ipre toks,
    dt_instrs be pre true = Ok (ipre, false) ->
    ra_path a = Some n -> In n barked_type_level_names -> bare_attr_tokens be a = Ok toks ->
    get_data_type_attrs be (pre ++ a :: post) = get_data_type_attrs be (pre ++ post).
Proof. exact foreign_type_level_attribute_ignored_after_switch. Qed.
Print Assumptions C15_switch_type_level.

(* the same on a member (field, variant, payload field): recorded when the type does not carry the switch ... *)
Theorem C15_rule6_foreign_member_level : forall be fty pre a post n m,
    get_member_attrs be fty (pre ++ a :: post) true = Ok m ->
    ra_path a = Some n -> In n barked_member_level_names ->
    exists e, In e (m_errs m) /\ (e = MMisplaced n false \/ exists g, e = MMisnamed n g false).
Proof. exact foreign_member_level_attribute_recorded. Qed.
Print Assumptions C15_rule6_foreign_member_level.

(* ... and without any effect when it does *)
Theorem C15_switch_member_level : forall be fty pre a post n toks,
    ra_path a = Some n -> In n barked_member_level_names -> bare_attr_tokens be a = Ok toks ->
    get_member_attrs be fty (pre ++ a :: post) false = get_member_attrs be fty (pre ++ post) false.
Proof. exact foreign_member_level_attribute_ignored. Qed.
Print Assumptions C15_switch_member_level.

(* end to end, the whole outcome of the derive (impls, diagnostics, anything): with the switch in place ... *)
From O2o.Model Require Import Derive.

(* ... a foreign attribute on the type after the switch ... *)
Theorem C15_switch_whole_derive : forall be order order_tp x pre a post n ipre toks,
    ri_attrs x = pre ++ a :: post ->
    dt_instrs be pre true = Ok (ipre, false) ->
    ra_path a = Some n -> In n barked_type_level_names -> bare_attr_tokens be a = Ok toks -> raw_attr_has_none a = false ->
    derive_model be order order_tp x = derive_model be order order_tp (with_attrs x (pre ++ post)).
Proof. exact switch_whole_derive. Qed.
Print Assumptions C15_switch_whole_derive.

(* ... members that differ only in what get_member_attrs (bark off) does not see ... *)
Theorem C15_switch_whole_derive_members : forall be order order_tp x d' attrs,
    get_data_type_attrs be (ri_attrs x) = Ok (attrs, false) ->
    data_equiv be false (ri_data x) d' ->
    raw_has_none x = false -> raw_has_none (with_data x d') = false ->
    derive_model be order order_tp x = derive_model be order order_tp (with_data x d').
Proof. exact switch_whole_derive_members. Qed.
Print Assumptions C15_switch_whole_derive_members.

(* ... in particular a foreign attribute anywhere on any field of a struct: none of them changes the outcome *)
Theorem C15_switch_foreign_attribute_on_a_field : forall be order order_tp x sh fs1 f fs2 pre a post n toks attrs,
    ri_data x = RStruct sh (fs1 ++ f :: fs2) -> rf_attrs f = pre ++ a :: post ->
    get_data_type_attrs be (ri_attrs x) = Ok (attrs, false) ->
    ra_path a = Some n -> In n barked_member_level_names -> bare_attr_tokens be a = Ok toks ->
    raw_has_none x = false ->
    let f' := {| rf_member := rf_member f; rf_typath := rf_typath f; rf_ty := rf_ty f; rf_attrs := pre ++ post |} in
    raw_has_none (with_data x (RStruct sh (fs1 ++ f' :: fs2))) = false ->
    derive_model be order order_tp x = derive_model be order order_tp (with_data x (RStruct sh (fs1 ++ f' :: fs2))).
Proof. exact switch_foreign_attribute_on_a_field. Qed.
Print Assumptions C15_switch_foreign_attribute_on_a_field.

(* the hypotheses of the switch theorems are met by `#[o2o(allow_unknown)] #[map(A)] #[parent] struct S { #[where_clause(T: Clone)] a: i32 }` *)
Theorem C15_switch_example :
  (exists ipre, dt_instrs S1 ex_pre true = Ok (ipre, false)) /\
  In "parent"%string barked_type_level_names /\ bare_attr_tokens S1 ex_a = Ok [] /\ raw_attr_has_none ex_a = false /\
  In "where_clause"%string barked_member_level_names /\ (exists toks, bare_attr_tokens S1 ex_fa = Ok toks) /\
  (exists attrs, get_data_type_attrs S1 (ri_attrs ex_input) = Ok (attrs, false)) /\
  (exists ts, derive1 ex_input = OOk ts /\ ts <> []).
Proof. exact switch_example. Qed.
Print Assumptions C15_switch_example.
