(* C15 Documented misuse is reported as a compile error, completely, in any context (partial: see DESIGN.md). *)
From Coq Require Import List String Bool Permutation.
From O2o.Model Require Import Tok Syn Attr Ast Lookup Validate Expand Derive.
From O2o.Lemmas Require Import Rules.
Import ListNotations.

(* whatever order the message map is iterated in, a rejected input's outcome lists exactly the
   messages validation collected: all broken rules of the validate() group are reported together *)
Theorem C15_all : forall be order order_tp x d msgs,
    (forall l, Permutation (order l) l) ->
    parse_input be x = Ok d -> validate_msgs order_tp d = Ok msgs -> msgs <> [] ->
    exists errs, derive_res be order order_tp x = Ok (inr errs) /\ forall m, In m msgs <-> In m errs.
Proof. exact rejected_reports_all. Qed.
Print Assumptions C15_all.

(* completeness of individual rules, for every input and every position of the offending instruction *)
Theorem C15_rule1_no_trait_instruction : forall order_tp d msgs,
    validate_msgs order_tp d = Ok msgs -> d_attrs (dt_get_attrs d) = [] ->
    In "At least one trait instruction is expected."%string msgs.
Proof. exact rule_no_trait_instruction. Qed.
Print Assumptions C15_rule1_no_trait_instruction.

Theorem C15_rule3_missing_error_type : forall order_tp d msgs ta k,
    validate_msgs order_tp d = Ok msgs ->
    In ta (d_attrs (dt_get_attrs d)) -> ta_fallible ta = true -> appl_get (ta_appl ta) k = true -> tc_err (ta_core ta) = None ->
    In "Error type should be specified for fallible instruction."%string msgs.
Proof. exact rule_missing_error_type. Qed.
Print Assumptions C15_rule3_missing_error_type.

Theorem C15_rule3_superfluous_error_type : forall order_tp d msgs ta k,
    validate_msgs order_tp d = Ok msgs ->
    In ta (d_attrs (dt_get_attrs d)) -> ta_fallible ta = false -> appl_get (ta_appl ta) k = true -> is_some (tc_err (ta_core ta)) = true ->
    In "Error type should not be specified for infallible instruction."%string msgs.
Proof. exact rule_superfluous_error_type. Qed.
Print Assumptions C15_rule3_superfluous_error_type.

Theorem C15_rule4_unknown_counterpart_where : forall order_tp d msgs w tp,
    validate_msgs order_tp d = Ok msgs ->
    In w (d_where (dt_get_attrs d)) -> wa_ty w = Some tp ->
    tp_in tp (map (fun x => tc_ty (ta_core x)) (d_attrs (dt_get_attrs d))) = false ->
    In (unknown_type_msg tp) msgs.
Proof. exact rule_unknown_counterpart_where. Qed.
Print Assumptions C15_rule4_unknown_counterpart_where.

Theorem C15_rule4_unknown_counterpart_member : forall order_tp s msgs f a tp,
    validate_msgs order_tp (DStruct s) = Ok msgs ->
    In f (s_fields s) -> In a (m_attrs (f_attrs f)) -> mc_ty (ma_core a) = Some tp ->
    tp_in tp (map (fun x => tc_ty (ta_core x)) (d_attrs (s_attrs s))) = false ->
    In (unknown_type_msg tp) msgs.
Proof. exact rule_unknown_counterpart_member. Qed.
Print Assumptions C15_rule4_unknown_counterpart_member.

Theorem C15_rule7_ghost_without_default : forall order_tp s msgs f g tp ta k,
    validate_msgs order_tp (DStruct s) = Ok msgs ->
    In f (s_fields s) -> In g (m_ghost (f_attrs f)) -> fg_action (gh_core g) = None -> fg_ty (gh_core g) = Some tp ->
    In ta (d_attrs (s_attrs s)) -> is_from k = true -> In (ta, k) (attrs_by_kind (s_attrs s)) ->
    tc_update (ta_core ta) = None -> tp_eqb tp (tc_ty (ta_core ta)) = true ->
    In ("Member instruction #[ghost(...)] for member '" ^^ member_str (f_member f) ^^ "' should provide default value for type " ^^ tp_str tp)%string msgs.
Proof. exact rule_ghost_without_default. Qed.
Print Assumptions C15_rule7_ghost_without_default.
