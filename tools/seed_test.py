#!/usr/bin/env python3
"""seed_test.py <label> [props...]: apply seeded/<label>/patch.diff to /repo, run the given checks (default: the
property named in meta.json), revert.  Prints one line per check: exit code and the VIOLATION line."""
import sys, os, subprocess, json, time
V = os.path.dirname(os.path.dirname(os.path.abspath(__file__)))
label = sys.argv[1]
d = os.path.join(V, 'seeded', label)
meta = json.load(open(os.path.join(d, 'meta.json')))
props = sys.argv[2:] or [meta['property']]
st = subprocess.run('git -C /repo status --porcelain', shell=True, capture_output=True, text=True).stdout.strip()
if st:
    print('/repo is not clean:', st); sys.exit(2)
r = subprocess.run('git -C /repo apply %s' % os.path.join(d, 'patch.diff'), shell=True, capture_output=True, text=True)
if r.returncode != 0:
    print('patch does not apply', r.stderr); sys.exit(2)
res = {}
try:
    for p in props:
        t = time.time()
        ev = os.path.join(V, 'evidence', p + '.json')
        saved = open(ev).read() if os.path.exists(ev) else None
        r = subprocess.run([os.path.join(V, 'check'), p, '--tier', os.environ.get('TIER', 'quick')], cwd=V, capture_output=True, text=True)
        if saved is not None:
            open(ev, 'w').write(saved)      # evidence files describe runs on the unchanged tree only
        vio = [l for l in r.stdout.splitlines() if l.startswith('VIOLATION')]
        why = [l for l in r.stderr.splitlines() if 'failing input' in l or 'broken tie' in l][:2]
        res[p] = {'rc': r.returncode, 'violation': vio[:1], 'why': why, 's': round(time.time() - t, 1)}
        print(label, p, 'rc=%d' % r.returncode, vio[:1], why[:1], '%.0fs' % (time.time() - t), flush=True)
finally:
    subprocess.run('git -C /repo checkout -- .', shell=True)
json.dump(res, open(os.path.join(d, 'last_test.json'), 'w'), indent=1)
