# claim(id, level text, level note (assumptions / trusted base), technique, DESIGN.md section)
COMMON_NOTE = ('Theorems are about the Gallina model; the model is tied to /repo on every run by (a) tables and quote! skeletons regenerated '
               'from the source by tools/translate.py and (b) the correspondence run: the extracted model and the implementation are run on the '
               'same generated inputs and compared under the property\'s observation. Trusted: Coq kernel, translator, extraction '
               '(ExtrOcamlBasic + ExtrOcamlNativeString), ocaml/driver.ml, harness serialisation, the model of syn parsing/printing in coq/Model/Syn.v.')
claim('C16',
      'Coq theorem over the model: every Panic outcome of derive_model is at a site listed as known-reachable; the site inventory is regenerated from the source so an added unwrap/unreachable/todo/index breaks the obligation. Correspondence under the Ok/Err/Panic observation on grids, composites and token soup; catch_unwind is the direct oracle.',
      COMMON_NOTE + ' Known reachable panic sites are listed in known_findings.json by call site.',
      'Coq proof over executable model + model/implementation correspondence + catch_unwind oracle', '4 C16')
claim('C18',
      'The cfg-split attribute-token extraction is modelled once per back-end and proved equal on parenthesised/bare attributes; everything else is one source, so a single model must agree with both builds on every generated input, and the two builds are compared with each other directly (token identity, same o2o diagnostic set).',
      COMMON_NOTE + ' Agreement of syn 1 and syn 2 on Path/Member/WherePredicate parsing is library behaviour and only sampled.',
      'Coq proof (extraction equality) + one model vs two builds correspondence + direct build-vs-build comparison', '4 C18')
claim('C19',
      'Coq theorem: the emitted diagnostics are independent of the iteration order of the message map (any permutation of its keys), every other unordered container being lookup-only (inventory regenerated from the source). Oracle: same input twice in one process and in k fresh processes, byte comparison.',
      COMMON_NOTE,
      'Coq proof (order-independence of sorted emission) + regenerated inventory of unordered containers + multi-process byte comparison', '4 C19')
claim('C04',
      'Coq theorems: (i) the regenerated instruction tables (match arms + appl_* functions) give every one of the 24 names exactly the kinds and fallibility the regenerated README tables document, and no other name is a trait instruction; (ii) for every parsed input the impl contexts are a permutation of the (kind, fallibility, instruction) triples requested - none missing, none extra; (iii) the requested multiset is invariant under permuting the instructions; (iv) every item is an instance of the regenerated quote! skeleton of its (kind, fallibility), and the six skeletons spell the documented trait path, method and `type Error = <declared>`. Oracle: headers read off the implementation\'s tokens vs the README-derived expectation on the full name x counterpart-form x error-form grid and on random multisets; permuted instruction lists re-expanded and compared.',
      COMMON_NOTE + ' Observation for the tie: multiset of impl headers (+ diagnostics).',
      'Coq proof (finite table theorems by vm_compute on regenerated tables + Permutation theorem over all instruction lists) + header-multiset correspondence + README-derived header oracle', '4 C04')
claim('C10',
      'Coq theorems by nested induction over token trees of any depth: on the flattened token sequence substitution replaces each `~` leaf by the path and each `@` leaf by the source object and leaves every other leaf and delimiter in place and in order (literals are never markers); per impl type what the two markers stand for; and for every expression site (vars, return, member instruction on either side, ghost, ghosts, nested parent instruction) that the rendered tokens are quote_action of the user tokens with the stated path. Oracle: random token trees (depth <= 5, joint punctuation, literals containing the characters, lifetimes) in 14 accepting positions; the expected substituted token sequence must occur contiguously in the right impls of the implementation\'s output.',
      COMMON_NOTE + ' Observation for the tie: the full token sequence.',
      'Coq proof (structural induction on token trees) + full-token correspondence + substituted-sequence search on implementation output', '4 C10')
claim('C12',
      'Coq theorems: on the regenerated tables a shortcut applies to exactly the union of the kinds of the basic instructions the README says it abbreviates, with the same fallibility; basics parse to single-kind applicability; member-level and nested-parent-level names mean the same; ghost/ghosts are the union of their _owned/_ref forms. Lifting: splitting a trait instruction into its single-kind instructions at the same position requests the same impl contexts; splitting a member instruction leaves every per-kind dedicated-then-default lookup unchanged (for all lists, positions, kinds, counterparts). Oracle: every generated input containing a shortcut (type, field, variant, variant field, nested-parent level; ghost/ghosts pairs) is rewritten into its basics and both are expanded by the implementation: same verdict, same multiset of impls.',
      COMMON_NOTE + ' Observation for the tie: the full token sequence.',
      'Coq proof (finite table theorems on regenerated tables + list lemmas for all instruction lists) + metamorphic shortcut-vs-basics comparison on the implementation', '4 C12')
