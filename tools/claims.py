# claim(id, level text, level note (assumptions / trusted base), technique, DESIGN.md section)
COMMON_NOTE = ('Theorems are about the Gallina model; the model is tied to /repo on every run by (a) tables and quote! skeletons regenerated '
               'from the source by tools/translate.py and (b) the correspondence run: the extracted model and the implementation are run on the '
               'same generated inputs and compared under the property\'s observation. Trusted: Coq kernel, translator, extraction '
               '(ExtrOcamlBasic + ExtrOcamlNativeString), ocaml/driver.ml, harness serialisation, the model of syn parsing/printing in coq/Model/Syn.v.')
claim('C16',
      'Coq theorem over the model: every Panic outcome of derive_model is at a site listed as known-reachable; the site inventory is regenerated from the source so an added unwrap/unreachable/todo/index breaks the obligation. Correspondence under the Ok/Err/Panic observation on grids, composites and token soup; catch_unwind is the direct oracle.',
      COMMON_NOTE + ' Known reachable panic sites are listed in known_findings.json by call site.',
      'Coq proof over executable model + model/implementation correspondence + catch_unwind oracle', '4 C16')
claim('C18',
      'The cfg-split attribute-token extraction is modelled once per back-end and proved equal on parenthesised/bare attributes; everything else is one source, so a single model must agree with both builds on every generated input, and the two builds are compared with each other directly (token identity, same o2o diagnostic set).',
      COMMON_NOTE + ' Agreement of syn 1 and syn 2 on Path/Member/WherePredicate parsing is library behaviour and only sampled.',
      'Coq proof (extraction equality) + one model vs two builds correspondence + direct build-vs-build comparison', '4 C18')
claim('C19',
      'Coq theorem: the emitted diagnostics are independent of the iteration order of the message map (any permutation of its keys), every other unordered container being lookup-only (inventory regenerated from the source). Oracle: same input twice in one process and in k fresh processes, byte comparison.',
      COMMON_NOTE,
      'Coq proof (order-independence of sorted emission) + regenerated inventory of unordered containers + multi-process byte comparison', '4 C19')
