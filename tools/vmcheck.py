"""Cross-check of the extraction (DESIGN.md 3.2 / 7): a seeded shard of the cases a check ran is evaluated a second time
*inside Coq* (`Eval vm_compute` on a generated cases.v, no extraction, no OCaml) and compared with what the extracted
OCaml binary answered.  A difference means the trusted base (extraction / driver.ml) is broken, not the property."""
import os, re, subprocess, random
import vlib

HEADER = r'''From Coq Require Import List String Ascii Bool Arith.
From O2o.Model Require Import Tok Syn Attr Ast Lookup Validate Expand Derive.
Import ListNotations.
Open Scope string_scope.
Open Scope list_scope.
Definition toks_eqb (a b : list tok) : bool := tok_eqb (TGroup DNone a) (TGroup DNone b).
Definition emsg_eqb (a b : emsg) : bool :=
  match a, b with MLib, MLib => true | MO2o x, MO2o y => String.eqb x y | _, _ => false end.
Fixpoint emsgs_eqb (a b : list emsg) : bool :=
  match a, b with [] , [] => true | x :: a', y :: b' => emsg_eqb x y && emsgs_eqb a' b' | _, _ => false end.
Definition outcome_eqb (a b : outcome) : bool :=
  match a, b with
  | OOk x, OOk y => toks_eqb x y
  | OErr x, OErr y => emsgs_eqb x y
  | OPanic x, OPanic y => String.eqb x y
  | OOom x, OOom y => String.eqb x y
  | _, _ => false
  end.
'''


class Skip(Exception):
    pass


def cstr(s):
    if any(ord(ch) > 126 or ord(ch) < 32 for ch in s):
        raise Skip('non-printable')
    return '"' + s.replace('"', '""') + '"'


def cchar(c):
    if len(c) != 1 or ord(c) > 126 or ord(c) < 33:
        raise Skip('char')
    return ('""""' if c == '"' else '"%s"' % c) + '%char'


DEL = {'p': 'DParen', 'b': 'DBrace', 'k': 'DBracket', 'n': 'DNone'}


def ctok(t):
    if t[0] == 'I':
        return '(TIdent %s)' % cstr(t[1])
    if t[0] == 'P':
        return '(TPunct %s %s)' % (cchar(t[1]), 'true' if t[2] == 'j' else 'false')
    if t[0] == 'L':
        return '(TLit %s)' % cstr(t[1][1])
    if t[0] == 'G':
        return '(TGroup %s %s)' % (DEL[t[1]], ctoks(t[2:]))
    raise Skip('tok')


def ctoks(ts):
    return '[' + '; '.join(ctok(t) for t in ts) + ']'


def cattr(a):
    # (attr (pi name)|<other> (toks ...))
    p = a[1]
    path = 'Some %s' % cstr(p[1]) if isinstance(p, list) and p and p[0] == 'pi' else 'None'
    return '{| ra_path := %s; ra_toks := %s |}' % (path, ctoks(a[2][1:]))


def cattrs(e):
    return '[' + '; '.join(cattr(a) for a in e[1:]) + ']'


def cfield(f):
    m = f[1]
    if m[0] == 'named':
        mem = '(MNamed %s)' % cstr(m[1])
    else:
        n = int(m[1])
        if n > 2000:
            raise Skip('big index')
        mem = '(MIndex %d)' % n
    tp = f[2]
    typath = 'Some %s' % ctoks(tp[2:]) if len(tp) > 1 and tp[1] == '1' else 'None'
    return '{| rf_member := %s; rf_typath := %s; rf_ty := %s; rf_attrs := %s |}' % (mem, typath, ctoks(f[3][1:]), cattrs(f[4]))


def cfields(e):
    return '[' + '; '.join(cfield(f) for f in e[1:]) + ']'


SH = {'named': 'ShNamed', 'tuple': 'ShTuple', 'unit': 'ShUnit'}


def cvariant(v):
    return '{| rv_ident := %s; rv_shape := %s; rv_attrs := %s; rv_fields := %s |}' % (cstr(v[1]), SH[v[2][1]], cattrs(v[3]), cfields(v[4]))


def cgparam(g):
    k = {'lt': 'GPLt', 'ty': 'GPTy', 'const': 'GPConst'}[g[0]]
    return '{| gp_k := %s; gp_name := %s; gp_punct := %s; gp_decl := %s |}' % (k, cstr(g[1]), 'true' if g[2] == '1' else 'false', ctoks(g[3][1:]))


def cinput(sx):
    assert sx[0] == 'input'
    k = sx[1][1]
    ident = sx[2][1]
    gens = sx[3][1:]
    preds = sx[4][1:]
    body = sx[6]
    if k.startswith('struct-'):
        data = 'RStruct %s %s' % (SH[k[7:]], cfields(body))
    elif k == 'enum':
        data = 'REnum [%s]' % '; '.join(cvariant(v) for v in body[1:])
    else:
        data = 'RUnion'
    return '{| ri_ident := %s; ri_generics := [%s]; ri_where := [%s]; ri_attrs := %s; ri_data := %s |}' % (
        cstr(ident), '; '.join(cgparam(g) for g in gens), '; '.join(ctoks(p[1:]) for p in preds), cattrs(sx[5]), data)


def coutcome(s):
    sx = vlib.parse_sexp(s)
    h = sx[0]
    if h == 'ok':
        return 'OOk %s' % ctoks(sx[1:])
    if h == 'err':
        return 'OErr [%s]' % '; '.join('MO2o %s' % cstr(x[1]) if isinstance(x, tuple) else 'MLib' for x in sx[1:])
    if h == 'panic':
        return 'OPanic %s' % cstr(sx[1][1])
    if h == 'oom':
        return 'OOom %s' % cstr(sx[1][1])
    raise Skip('outcome ' + str(h))


def _shard(args):
    idx, items, workdir = args
    path = os.path.join(workdir, 'vmcases_%d.v' % idx)
    with open(path, 'w') as f:
        f.write(HEADER)
        for i, (fn, ci, co) in enumerate(items):
            f.write('Definition c%d : bool := outcome_eqb (%s %s) (%s).\n' % (i, fn, ci, co))
        f.write('Eval vm_compute in [%s].\n' % '; '.join('c%d' % i for i in range(len(items))))
    cmd = ['timeout', '600', 'coqc', '-noglob', '-Q', os.path.join(vlib.COQ, 'Model'), 'O2o.Model', '-Q', os.path.join(vlib.COQ, 'Gen'), 'O2o.Gen', path]
    p = subprocess.run(cmd, stdout=subprocess.PIPE, stderr=subprocess.STDOUT, text=True, cwd=workdir)
    vals = re.findall(r'\b(true|false)\b', p.stdout.split(': list bool')[0]) if p.returncode == 0 else []
    for ext in ('.v', '.vo', '.vok', '.vos', '.glob'):
        try:
            os.remove(path[:-2] + ext)
        except OSError:
            pass
    return p.returncode, vals, p.stdout[-1500:]


def crosscheck(pool, workdir, n, seed):
    """pool: list of (case id, backend, RAW s-expression text, MODEL outcome text as printed by the extracted driver).
    returns dict(evaluated, skipped, mismatches=[case ids], error)"""
    from concurrent.futures import ThreadPoolExecutor
    rng = random.Random(seed)
    pool = [p for p in pool if p[2] and p[3] and not p[3].startswith('(driver-error')]
    pick = pool if len(pool) <= n else rng.sample(pool, n)
    items, ids, skipped = [], [], 0
    for cid, be, raw, model in pick:
        if len(raw) > 60000:
            skipped += 1
            continue
        try:
            items.append(('derive2' if be == 's2' else 'derive1', cinput(vlib.parse_sexp(raw)), coutcome(model)))
            ids.append(cid)
        except Skip:
            skipped += 1
    os.makedirs(workdir, exist_ok=True)
    per = 60
    shards = [(i, items[i * per:(i + 1) * per], workdir) for i in range((len(items) + per - 1) // per)]
    res = {'evaluated': 0, 'skipped': skipped, 'mismatches': [], 'error': None, 'route': 'coqc Eval vm_compute on generated vmcases_*.v'}
    with ThreadPoolExecutor(max_workers=vlib.NPROC) as ex:
        outs = list(ex.map(_shard, shards))
    for (i, its, _), (rc, vals, tail) in zip(shards, outs):
        if rc != 0 or len(vals) != len(its):
            res['error'] = 'coqc failed on shard %d (rc=%s, %d/%d values): %s' % (i, rc, len(vals), len(its), tail)
            continue
        for j, v in enumerate(vals):
            res['evaluated'] += 1
            if v != 'true':
                res['mismatches'].append(ids[i * per + j])
    return res
