#!/usr/bin/env python3
"""Harvest every derive(o2o) input of the repository's own tests as a corpus file
(%%%% id / source text), used to validate the model against the implementation."""
import os, re, sys, glob

REPO = os.environ.get('O2O_REPO', '/repo')


def matching(src, i):
    pairs = {'(': ')', '[': ']', '{': '}'}
    depth = 0
    n = len(src)
    j = i
    while j < n:
        c = src[j]
        if c == '"':
            j += 1
            while j < n and src[j] != '"':
                if src[j] == '\\':
                    j += 1
                j += 1
        elif c == "'":
            # char literal or lifetime
            m = re.match(r"'(\\.|[^\\'])'", src[j:])
            if m:
                j += m.end()
                continue
        elif src.startswith('//', j):
            j = src.find('\n', j)
            if j < 0:
                return n - 1
            continue
        elif c in '([{':
            depth += 1
        elif c in ')]}':
            depth -= 1
            if depth == 0:
                return j
        j += 1
    return n - 1


def items(src):
    """yield (offset, text) of attribute-carrying struct/enum items"""
    n = len(src)
    i = 0
    item_re = re.compile(r'\s*(pub(\([^)]*\))?\s+)?(struct|enum|union)\b')
    while i < n:
        if src.startswith('//', i):
            j = src.find('\n', i)
            i = n if j < 0 else j
            continue
        if src[i] == '"':
            j = i + 1
            while j < n and src[j] != '"':
                if src[j] == '\\':
                    j += 1
                j += 1
            i = j + 1
            continue
        if src.startswith('#[', i) or src.startswith('#!', i) and False:
            start = i
            attrs = []
            j = i
            while True:
                while j < n and (src[j].isspace()):
                    j += 1
                if src.startswith('//', j):
                    j = src.find('\n', j)
                    continue
                if src.startswith('#[', j):
                    e = matching(src, j + 1)
                    attrs.append(src[j:e + 1])
                    j = e + 1
                else:
                    break
            m = item_re.match(src, j)
            if m:
                # header until { or ;
                k = m.end()
                while k < n and src[k] not in '{;(':
                    if src[k] == '<':
                        # generics: skip to matching >
                        d = 0
                        while k < n:
                            if src[k] == '<':
                                d += 1
                            elif src[k] == '>' and src[k - 1] != '-':
                                d -= 1
                                if d == 0:
                                    break
                            k += 1
                    k += 1
                if k < n and src[k] == '(':
                    e = matching(src, k)
                    k2 = src.find(';', e)
                    end = k2
                elif k < n and src[k] == '{':
                    end = matching(src, k)
                else:
                    end = k
                yield start, attrs, src[j:end + 1]
                i = end + 1
                continue
            i = j if j > i else i + 1
            continue
        i += 1


def harvest():
    cases = []
    files = sorted(glob.glob(os.path.join(REPO, 'o2o-tests/tests/*.rs')))
    for f in files:
        src = open(f).read()
        for off, attrs, body in items(src):
            if not any(re.search(r'derive\s*\([^)]*\bo2o\b', a) for a in attrs):
                continue
            keep = [a for a in attrs if not re.match(r'#\[\s*derive\b', a)]
            line = src.count('\n', 0, off) + 1
            cases.append(('%s:%d' % (os.path.basename(f)[:-3], line), '\n'.join(keep) + '\n' + body))
    # o2o-impl unit tests: quote! { ... } fragments holding an item
    src = open(os.path.join(REPO, 'o2o-impl/src/tests.rs')).read()
    for m in re.finditer(r'quote!\s*([\{\(])', src):
        i = m.end() - 1
        j = matching(src, i)
        frag = src[i + 1:j]
        if re.search(r'\b(struct|enum|union)\b', frag):
            line = src.count('\n', 0, i) + 1
            cases.append(('impl_tests:%d' % line, frag.strip()))
    # README examples
    src = open(os.path.join(REPO, 'README.md')).read()
    for off, attrs, body in items(src):
        if not any(re.search(r'derive\s*\([^)]*\bo2o\b', a) for a in attrs):
            continue
        keep = [a for a in attrs if not re.match(r'#\[\s*derive\b', a)]
        line = src.count('\n', 0, off) + 1
        cases.append(('readme:%d' % line, '\n'.join(keep) + '\n' + body))
    return cases


if __name__ == '__main__':
    out = sys.argv[1] if len(sys.argv) > 1 else '/dev/stdout'
    cs = harvest()
    with open(out, 'w') as f:
        for cid, text in cs:
            f.write('%%%%%%%% %s\n%s\n' % (cid, text))
    sys.stderr.write('%d cases\n' % len(cs))
