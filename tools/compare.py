#!/usr/bin/env python3
"""Compare harness OUT lines with driver MODEL lines.
usage: compare.py harness.out model.out [--strict] [--show N]"""
import sys, re, collections


def read_cases(path, key):
    cases = collections.OrderedDict()
    cur = None
    for line in open(path, errors='surrogateescape'):
        line = line.rstrip('\n')
        if line.startswith('CASE '):
            cur = line[5:]
            cases.setdefault(cur, {})
        elif cur is not None:
            k, _, v = line.partition(' ')
            cases[cur][k] = v
    return cases


SP = re.compile(r'\(P (.) [ja]\)')


def nospacing(s):
    return SP.sub(r'(P \1)', s)


def parse_err(s):
    # (err "a" "b" #lib)
    out = []
    i = 4
    n = len(s)
    while i < n:
        if s[i] == '"':
            j = i + 1
            buf = []
            while s[j] != '"':
                if s[j] == '\\':
                    buf.append(s[j:j + 2])
                    j += 2
                else:
                    buf.append(s[j])
                    j += 1
            out.append(''.join(buf))
            i = j + 1
        elif s.startswith('#lib', i):
            out.append(None)
            i += 4
        else:
            i += 1
    return out


def agree(impl, model, strict=False):
    """returns (verdict, strict_equal) ; verdict in ok / oom / diff"""
    if model.startswith('(oom'):
        return 'oom', False
    if impl.startswith('(ok') and model.startswith('(ok'):
        if impl == model:
            return 'ok', True
        return ('ok' if nospacing(impl) == nospacing(model) else 'diff'), False
    if impl.startswith('(err') and model.startswith('(err'):
        a = parse_err(impl)
        b = parse_err(model)
        if len(a) != len(b):
            return 'diff', False
        for x, y in zip(a, b):
            if y is not None and x != y:
                return 'diff', False
        return 'ok', all(y is not None for y in b)
    if impl.startswith('(panic') and model.startswith('(panic'):
        return 'ok', True
    return 'diff', False


def main():
    h = read_cases(sys.argv[1], 'OUT')
    m = read_cases(sys.argv[2], 'MODEL')
    show = 5
    if '--show' in sys.argv:
        show = int(sys.argv[sys.argv.index('--show') + 1])
    cnt = collections.Counter()
    shown = 0
    for cid, hv in h.items():
        if 'OUT' not in hv:
            cnt['noparse'] += 1
            continue
        mv = m.get(cid, {}).get('MODEL')
        if mv is None:
            cnt['missing'] += 1
            continue
        v, strict = agree(hv['OUT'], mv)
        cnt[v] += 1
        if strict:
            cnt['strict'] += 1
        if v == 'oom':
            cnt['oom:' + mv] += 1
        if v == 'diff' and shown < show:
            shown += 1
            print('--- DIFF', cid)
            a, b = nospacing(hv['OUT']), nospacing(mv)
            # first difference
            k = 0
            while k < min(len(a), len(b)) and a[k] == b[k]:
                k += 1
            print(' impl :', a[max(0, k - 150):k + 200])
            print(' model:', b[max(0, k - 150):k + 200])
    print(dict(cnt))


if __name__ == '__main__':
    main()
