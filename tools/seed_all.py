#!/usr/bin/env python3
"""run every seeded change against the check of the property it breaks; record the outcome in its meta.json"""
import os, sys, json, subprocess
V = os.path.dirname(os.path.dirname(os.path.abspath(__file__)))
labels = sys.argv[1:] or sorted(x for x in os.listdir(os.path.join(V, 'seeded')) if not x.startswith('_'))
for lab in labels:
    d = os.path.join(V, 'seeded', lab)
    if not os.path.exists(os.path.join(d, 'meta.json')):
        continue
    meta = json.load(open(os.path.join(d, 'meta.json')))
    r = subprocess.run([sys.executable, os.path.join(V, 'tools/seed_test.py'), lab], capture_output=True, text=True)
    res = json.load(open(os.path.join(d, 'last_test.json'))) if os.path.exists(os.path.join(d, 'last_test.json')) else {}
    p = meta['property']
    out = res.get(p, {})
    vio = (out.get('violation') or [''])[0]
    meta['detected_by'] = {'check': p, 'exit': out.get('rc'), 'violation_line': vio, 'why': (out.get('why') or [''])[0][:400],
                           'with_failing_input': bool(vio) and 'no-failing-input-found' not in vio}
    json.dump(meta, open(os.path.join(d, 'meta.json'), 'w'), indent=1)
    print(lab, out.get('rc'), 'failing-input' if meta['detected_by']['with_failing_input'] else vio[-40:], flush=True)
